"""C19 — an interactive session behaves like the same declarations in one file.  DESIGN.md §5 C19.

Streams
  sessions  random REPL sessions (<= 14 entries of 1-3 statements: let / fn / class definitions, calls
            into earlier definitions, property / method / index sites, assignments; functions, methods
            and closures that CONTAIN inline-cache sites (obj.x, obj.x = v, obj.m(), obj.m(a), l[0],
            for-in) defined by one entry and called — with receivers of different classes — from any
            number of later entries; and erroneous entries: syntax errors, undeclared names,
            re-declarations, entries the compiler proper rejects after it numbered their sites,
            runtime errors with a prefix that already ran, runtime errors inside earlier functions);
            classes declared without a parent in the entry that first mentions `Object`, in later
            entries, inside functions, under a parameter called Object, with an explicit `: Object`,
            and in sessions that declare their own `Object` (let or class; re-declaring it later is
            rejected); channels, pure functions, accumulator instances and WORKER FUNCTIONS defined by
            some entries, `launch`ed over by later ones, the fibers left queued in `Vm.fiber_queue` or
            parked on a channel when their entry ends — across entries that raise, entries the
            compiler rejects, and any number of other lines — and synchronised with (received from,
            sent to) by later entries (vlib/props/c19_fibers.py: every session is a Kahn network, so
            what the scripts receive does not depend on the schedule; 40% of the sessions) —
            fed line by line to `Vm::repl` (harness binary `vh_repl`).
Judgements (separately)
  implementation-vs-Spec   Spec = `vharness run` on the concatenation of the entries (failed entries
                           dropped, the executed prefix of a runtime-failing entry kept): same printed
                           output, every good entry compiled, exactly the expected entries failed;
                           and, for the values scripts receive from fibers, the network's own
                           (schedule-independent) evaluation in Python (`c19_fibers.plan`).
  model-vs-implementation  `drv_repl` (Lean `Model/Repl.lean`): per compiled entry and function, the
                           module slots of every DeclareModSym / GetModSym / SetModSym and the inline
                           cache sites WITH THEIR CACHE IDS (read back from the encoded bytes the
                           compile-log hook recorded) must equal the model's;  and (Lean
                           `Model/ReplFibers.lean`: every script a new main fiber on the exact scheduler
                           model of C08, in the run queue / fibers / channels the earlier entries left)
                           per entry how `execute` ended and what the script received.
Sessions on which that exact model runs into one of the scheduler findings C08 owns (lost wake-up, double
queue entry, stale waiter entry — D5/D17/D18/D26, at the prompt or as one module) are not judged against the
Spec, nor are those in the signature of DC19.3 (the model ends an entry with a deadlock report only when run
entry by entry; there the implementation must still report the deadlock).
Known findings this check owns, replayed on every run (known_findings/DC19.*/: session + control):
DC19.1 a failed import consumes a module id without a cache entry; DC19.2 the main fiber of an entry that
ended in a deadlock report is woken later and resumes at a stale ip; DC19.3 the wake-up a script owed when it
ended is lost (a deadlock report at the prompt only).
corpus/C19/04_d13_cache_replaced.json is the witness of the repaired finding D13 (cache numbering
restarted and the cache vectors were replaced per entry); it runs first on every run.
"""
import concurrent.futures
import json
import os
import random
import re
import shutil
import subprocess
import sys

from .. import common
from . import c19_fibers as fibers

PROP = "C19"
LEVEL = "proof"
DRV = os.path.join(common.LEAN, ".lake", "build", "bin", "drv_repl")
PROMPT = "laythe:> "

# ---------------------------------------------------------------------------------------------
# statements.  A statement is a dict: text, decls, refs, funs [(name, [ops])], script [ops],
# calls [fun names], fail: None | "syntax" | "undeclared" | "duplicate" | "runtime"


class Gen:
    def __init__(self, rng):
        self.rng = rng
        self.nums = []        # number-valued lets
        self.fns = []         # plain functions (no inline-cache site inside)
        self.classes = []     # (name, method, nargs): plain classes
        self.pclasses = []    # classes with init(x)/get()
        self.insts = []       # instances of pclasses
        self.lists = []
        self.sfns = []        # (name, "inst" | "list", callees): functions / stored closures WITH inline-cache sites inside
        self.sclasses = []    # classes whose methods m(q) / n(q) contain inline-cache sites
        self.smakers = []     # functions returning a closure that contains an inline-cache site
        self.bias = 1         # weight of the statements that define / call sited functions
        self.obj = None       # how the session's module knows `Object`: None | "global" (brought in by a class
        #                       declaration or another use) | "num" / "class" (the session declared its own)
        self.cmakers = []     # (function, argument text): functions whose body declares a parent-less class
        self.obias = 1        # weight of the statements about `Object`
        self.counter = 0
        self.all_names = set()
        self.k = fibers.Kahn()   # the session's channels / fibers so far, as a Kahn network (see c19_fibers.py)
        self.fbias = 1        # weight of the statements about channels and fibers

    def fresh(self, prefix):
        self.counter += 1
        n = "%s%d" % (prefix, self.counter)
        self.all_names.add(n)
        return n

    def expr(self):
        """arithmetic over earlier number lets; returns (text, refs)"""
        rng = self.rng
        terms, refs = [], []
        for _ in range(rng.randint(1, 3)):
            if self.nums and rng.random() < 0.6:
                v = rng.choice(self.nums)
                terms.append(v)
                refs.append(v)
            else:
                terms.append(str(rng.randint(0, 9)))
        text = terms[0]
        for t in terms[1:]:
            text += " %s %s" % (rng.choice(["+", "-", "*"]), t)
        return text, refs

    def ops_get(self, refs):
        return ["g:" + r for r in refs]

    def stmt(self):
        rng = self.rng
        choices = ["let", "let", "print", "print", "fn", "class", "pclass", "list", "assign"]
        if self.fns:
            choices += ["call", "call", "call"]
        if self.classes:
            choices += ["mcall", "mcall"]
        if self.pclasses:
            choices += ["inst"]
        if self.insts:
            choices += ["iprop", "iget", "samefn", "iset"]
        if self.lists:
            choices += ["index", "forloop"]
        choices += ["nest"]
        if getattr(self, "makers", None):
            choices += ["ncall", "ncall", "ncall"]
        if self.pclasses or self.lists:
            choices += ["sfn", "sclass", "smaker"] * self.bias
        if (self.sfns or self.sclasses or self.smakers) and (self.insts or self.lists):
            choices += ["scall", "scall", "scall", "scall2", "swrap", "sclos"] * self.bias
        choices += ["fclass", "shadowclass"] * self.obias
        if self.obj != "num":
            choices += ["eclass"] * self.obias
        if self.obj is None:
            choices += ["userobj"] * self.obias
        if self.obj in ("num", "class"):
            choices += ["objuse"] * self.obias
        if self.cmakers:
            choices += ["cmcall", "cmcall"] * self.obias
        if self.fbias > 1:
            choices += ["chan", "pf", "wfn", "accinst"] * (self.fbias // 2)
            if self.k.wf:
                choices += ["launch", "launch"] * self.fbias
            if self.k.inst:
                choices += ["frecv", "frecv", "frecv", "fsend"] * self.fbias
        k = rng.choice(choices)
        st = getattr(self, "s_" + k)()
        if "Object" in st["refs"] and self.obj is None:
            self.obj = "global"      # (if the entry is rejected, gen_session restores the snapshot)
        return st

    def s_let(self):
        v = self.fresh("v")
        e, refs = self.expr()
        self.nums.append(v)
        return dict(text="let %s = %s;" % (v, e), decls=[v], refs=refs, funs=[], script=self.ops_get(refs) + ["s:" + v], calls=[])

    def s_print(self):
        e, refs = self.expr()
        return dict(text="print(%s);" % e, decls=[], refs=["print"] + refs, funs=[], script=["g:print"] + self.ops_get(refs), calls=[])

    def s_assign(self):
        if not self.nums:
            return self.s_let()
        v = self.rng.choice(self.nums)
        e, refs = self.expr()
        return dict(text="%s = %s;" % (v, e), decls=[], refs=refs + [v], funs=[], script=self.ops_get(refs) + ["s:" + v], calls=[])

    def s_fn(self):
        f = self.fresh("f")
        rng = self.rng
        refs, body = [], "p * %d" % rng.randint(1, 5)
        if self.nums and rng.random() < 0.6:
            w = rng.choice(self.nums)
            body += " + " + w
            refs.append(w)
        if self.fns and rng.random() < 0.3:
            g = rng.choice(self.fns)
            body += " + %s(p)" % g
            refs.append(g)
        self.fns.append(f)
        self.callees = getattr(self, "callees", {})
        self.callees[f] = [r for r in refs if r in self.fns]
        return dict(text="fn %s(p) { return %s; }" % (f, body), decls=[f], refs=refs, funs=[(f, self.ops_get(refs))],
                    script=["s:" + f], calls=[])

    def closure(self, f):
        out = [f]
        for g in getattr(self, "callees", {}).get(f, []):
            out += self.closure(g)
        return out

    def s_call(self):
        f = self.rng.choice(self.fns)
        e, refs = self.expr()
        return dict(text="print(%s(%s));" % (f, e), decls=[], refs=["print", f] + refs, funs=[],
                    script=["g:print", "g:" + f] + self.ops_get(refs), calls=self.closure(f))

    def s_class(self):
        k = self.fresh("K")
        nargs = self.rng.choice([0, 1])
        refs = []
        if nargs:
            body = "p + %d" % self.rng.randint(1, 9)
        else:
            body = "%d" % self.rng.randint(1, 99)
        if self.nums and self.rng.random() < 0.5:
            w = self.rng.choice(self.nums)
            body += " + " + w
            refs.append(w)
        self.classes.append((k, "m", nargs))
        return dict(text="class %s { m(%s) { return %s; } }" % (k, "p" if nargs else "", body), decls=[k], refs=["Object"] + refs,
                    funs=[(k + ".m", self.ops_get(refs))], script=["s:" + k, "o", "g:" + k], calls=[])

    def s_mcall(self):
        k, m, nargs = self.rng.choice(self.classes)
        if nargs:
            e, refs = self.expr()
            return dict(text="print(%s().%s(%s));" % (k, m, e), decls=[], refs=["print", k] + refs, funs=[],
                        script=["g:print", "g:" + k] + self.ops_get(refs) + ["p"], calls=[k + "." + m])
        return dict(text="print(%s().%s());" % (k, m), decls=[], refs=["print", k], funs=[],
                    script=["g:print", "g:" + k, "i"], calls=[k + "." + m])

    def s_pclass(self):
        """a class with fields x, y (two layouts: the field indices differ between classes) and methods"""
        k = self.fresh("P")
        self.pclasses.append(k)
        init = self.rng.choice(["self.x = x; self.y = x + 100;", "self.y = x + 100; self.x = x;"])
        return dict(text="class %s { init(x) { %s } get() { return self.x; } gety() { return self.y; } add(n) { return self.x + n; } }"
                    % (k, init), decls=[k], refs=["Object"],
                    funs=[(k + ".init", []), (k + ".get", []), (k + ".gety", []), (k + ".add", [])],
                    script=["s:" + k, "o", "g:" + k], calls=[])

    def s_inst(self):
        k = self.rng.choice(self.pclasses)
        o = self.fresh("o")
        e, refs = self.expr()
        self.insts.append((o, k))
        return dict(text="let %s = %s(%s);" % (o, k, e), decls=[o], refs=[k] + refs, funs=[],
                    script=["g:" + k] + self.ops_get(refs) + ["s:" + o], calls=[k + ".init"])

    def s_iprop(self):
        o, k = self.rng.choice(self.insts)
        return dict(text="print(%s.%s);" % (o, self.rng.choice("xy")), decls=[], refs=["print", o], funs=[],
                    script=["g:print", "g:" + o, "p"], calls=[])

    def s_iset(self):
        o, k = self.rng.choice(self.insts)
        e, refs = self.expr()
        return dict(text="%s.x = %s;" % (o, e), decls=[], refs=[o] + refs, funs=[], script=["g:" + o] + self.ops_get(refs) + ["p"], calls=[])

    def s_iget(self):
        o, k = self.rng.choice(self.insts)
        return dict(text="print(%s.get());" % o, decls=[], refs=["print", o], funs=[], script=["g:print", "g:" + o, "i"], calls=[k + ".get"])

    def s_samefn(self):
        """a function WITH an inline-cache site, defined and called in the same entry (and, now that D13
        is repaired, again from later entries)"""
        o, k = self.rng.choice(self.insts)
        h = self.fresh("h")
        if self.rng.random() < 0.5:
            self.sfns.append((h, "inst", []))
            return dict(text="fn %s(q) { return q.x; } print(%s(%s));" % (h, h, o), decls=[h], refs=["print", h, o],
                        funs=[(h, ["p"])], script=["s:" + h, "g:print", "g:" + h, "g:" + o], calls=[h])
        self.sfns.append((h, "inst", [".get"]))
        return dict(text="fn %s(q) { return q.get(); } print(%s(%s));" % (h, h, o), decls=[h], refs=["print", h, o],
                    funs=[(h, ["i"])], script=["s:" + h, "g:print", "g:" + h, "g:" + o], calls=[h, k + ".get"])

    # -- the former D13 signature: inline-cache sites inside code that outlives its entry ------------
    INST_BODIES = [   # (body over the parameter q, sites in emission order, methods of q it calls)
        ("return q.x;", ["p"], []),
        ("return q.y;", ["p"], []),
        ("return q.get();", ["i"], [".get"]),
        ("return q.gety();", ["i"], [".gety"]),
        ("return q.add(2);", ["p"], [".add"]),
        ("q.x = q.x + 1; return q.x;", ["p", "p", "p"], []),
        ("return q.get() + q.y;", ["i", "p"], [".get"]),
        ("let a = q.y; let b = q.gety(); return a + b + q.add(1);", ["p", "i", "p"], [".gety", ".add"]),
    ]
    LIST_BODIES = [
        ("return q[0];", ["i"], []),
        ("let t = 0; for it in q { t = t + it; } return t;", ["i"], []),
        ("return q[0] + q.len();", ["i", "i"], []),
    ]

    def sited_body(self):
        kinds = (["inst"] * 3 if self.pclasses else []) + (["list"] if self.lists else [])
        kind = self.rng.choice(kinds)
        body, sites, callees = self.rng.choice(self.INST_BODIES if kind == "inst" else self.LIST_BODIES)
        return kind, body, sites, callees

    def s_sfn(self):
        h = self.fresh("h")
        kind, body, sites, callees = self.sited_body()
        self.sfns.append((h, kind, callees))
        return dict(text="fn %s(q) { %s }" % (h, body), decls=[h], refs=[], funs=[(h, sites)], script=["s:" + h], calls=[])

    def s_sclass(self):
        c = self.fresh("S")
        k1, b1, s1, c1 = self.sited_body()
        k2, b2, s2, c2 = self.sited_body()
        self.sclasses.append((c, [("m", k1, c1), ("n", k2, c2)]))
        return dict(text="class %s { m(q) { %s } n(q) { %s } }" % (c, b1, b2), decls=[c], refs=["Object"],
                    funs=[(c + ".m", s1), (c + ".n", s2)], script=["s:" + c, "o", "g:" + c], calls=[])

    def s_smaker(self):
        f = self.fresh("mk")
        kind, body, sites, callees = self.sited_body()
        self.smakers.append((f, kind, callees))
        return dict(text="fn %s() { return |q| { %s }; }" % (f, body), decls=[f], refs=[],
                    funs=[(f + ".l", sites), (f, [])], script=["s:" + f], calls=[])

    def receiver(self, kind):
        """(text, class or None) of a value a sited function of that kind accepts, or None"""
        if kind == "inst" and self.insts:
            return self.rng.choice(self.insts)
        if kind == "list" and self.lists:
            return (self.rng.choice(self.lists), None)
        return None

    def sited_call(self):
        """(expression text, module names read in order, trailing sites of the script, functions that run) or None"""
        rng = self.rng
        pool = ([("fn", x) for x in self.sfns] + [("cls", x) for x in self.sclasses] + [("mk", x) for x in self.smakers])
        rng.shuffle(pool)
        for what, x in pool:
            if what == "fn":
                h, kind, callees = x
                r = self.receiver(kind)
                if r:
                    return "%s(%s)" % (h, r[0]), [h, r[0]], [], [h] + [r[1] + c for c in callees if r[1]]
            elif what == "cls":
                c, methods = x
                m, kind, callees = rng.choice(methods)
                r = self.receiver(kind)
                if r:
                    return "%s().%s(%s)" % (c, m, r[0]), [c, r[0]], ["p"], [c + "." + m] + [r[1] + d for d in callees if r[1]]
            else:
                f, kind, callees = x
                r = self.receiver(kind)
                if r:
                    return "%s()(%s)" % (f, r[0]), [f, r[0]], [], [f, f + ".l"] + [r[1] + c for c in callees if r[1]]
        return None

    def s_scall(self):
        c = self.sited_call()
        if c is None:
            return self.s_print()
        text, names, sites, runs = c
        return dict(text="print(%s);" % text, decls=[], refs=["print"] + names, funs=[],
                    script=["g:print"] + ["g:" + n for n in names] + sites, calls=runs)

    def s_scall2(self):
        """two calls of (possibly the same) sited functions in one statement"""
        a, b = self.sited_call(), self.sited_call()
        if a is None or b is None:
            return self.s_print()
        return dict(text="print(%s + %s);" % (a[0], b[0]), decls=[], refs=["print"] + a[1] + b[1], funs=[],
                    script=["g:print"] + ["g:" + n for n in a[1]] + a[2] + ["g:" + n for n in b[1]] + b[2], calls=a[3] + b[3])

    def s_swrap(self):
        """a new function (with a site of its own) that calls a sited function of an earlier entry"""
        cands = [x for x in self.sfns if x[1] == "inst"]
        if not cands or not self.pclasses:
            return self.s_sfn() if (self.pclasses or self.lists) else self.s_print()
        g, _, callees = self.rng.choice(cands)
        h = self.fresh("h")
        self.sfns.append((h, "inst", callees))
        self.callees = getattr(self, "callees", {})
        self.callees[h] = [g]
        return dict(text="fn %s(q) { return %s(q) + q.y; }" % (h, g), decls=[h], refs=[g], funs=[(h, ["g:" + g, "p"])],
                    script=["s:" + h], calls=[])

    def s_sclos(self):
        """a closure with a site, created now, kept in a module variable and called from later entries"""
        if not self.smakers:
            return self.s_smaker() if (self.pclasses or self.lists) else self.s_print()
        f, kind, callees = self.rng.choice(self.smakers)
        c = self.fresh("c")
        self.sfns.append((c, kind, callees))
        return dict(text="let %s = %s();" % (c, f), decls=[c], refs=[f], funs=[], script=["g:" + f, "s:" + c], calls=[f])

    def s_nest(self):
        """a function (or method) whose body creates closures nested 2-3 levels deep that read (and
        sometimes write) a module-level variable of an earlier entry"""
        rng = self.rng
        self.makers = getattr(self, "makers", [])
        if not self.nums:
            return self.s_let()
        w = rng.choice(self.nums)
        shape = rng.choice(["fn2", "fn2", "fn3", "method", "fn2w"])
        k = rng.randint(1, 9)
        if shape == "method":
            c = self.fresh("N")
            self.makers.append((c, "method", w, k))
            return dict(text="class %s { m() { return |p| p * %d + %s; } }" % (c, k, w), decls=[c], refs=["Object", w],
                        funs=[(c + ".m.l", ["g:" + w]), (c + ".m", [])], script=["s:" + c, "o", "g:" + c], calls=[])
        f = self.fresh("mk")
        self.makers.append((f, shape, w, k))
        if shape == "fn2":
            return dict(text="fn %s() { return |p| p * %d + %s; }" % (f, k, w), decls=[f], refs=[w],
                        funs=[(f + ".l", ["g:" + w]), (f, [])], script=["s:" + f], calls=[])
        if shape == "fn2w":
            return dict(text="fn %s() { return |p| { %s = %s + p; return %s * %d; }; }" % (f, w, w, w, k), decls=[f], refs=[w],
                        funs=[(f + ".l", ["g:" + w, "s:" + w, "g:" + w]), (f, [])], script=["s:" + f], calls=[])
        return dict(text="fn %s() { return || |p| p * %d + %s; }" % (f, k, w), decls=[f], refs=[w],
                    funs=[(f + ".l2", ["g:" + w]), (f + ".l1", []), (f, [])], script=["s:" + f], calls=[])

    def s_ncall(self):
        f, shape, w, k = self.rng.choice(self.makers)
        e, refs = self.expr()
        if shape == "method":
            return dict(text="print(%s().m()(%s));" % (f, e), decls=[], refs=["print", f] + refs, funs=[],
                        script=["g:print", "g:" + f, "i"] + self.ops_get(refs), calls=[f + ".m", f + ".m.l"])
        if shape == "fn3":
            return dict(text="print(%s()()(%s));" % (f, e), decls=[], refs=["print", f] + refs, funs=[],
                        script=["g:print", "g:" + f] + self.ops_get(refs), calls=[f, f + ".l1", f + ".l2"])
        return dict(text="print(%s()(%s));" % (f, e), decls=[], refs=["print", f] + refs, funs=[],
                    script=["g:print", "g:" + f] + self.ops_get(refs), calls=[f, f + ".l"])

    def s_list(self):
        l = self.fresh("l")
        self.lists.append(l)
        items = [str(self.rng.randint(0, 9)) for _ in range(self.rng.randint(1, 4))]
        return dict(text="let %s = [%s];" % (l, ", ".join(items)), decls=[l], refs=[], funs=[], script=["s:" + l], calls=[])

    def s_index(self):
        l = self.rng.choice(self.lists)
        return dict(text="print(%s[0]);" % l, decls=[], refs=["print", l], funs=[], script=["g:print", "g:" + l, "i"], calls=[])

    def s_forloop(self):
        l = self.rng.choice(self.lists)
        return dict(text="for it in %s { print(it); }" % l, decls=[], refs=[l, "print"], funs=[],
                    script=["g:" + l, "i", "g:print"], calls=[])

    # -- how a class declaration finds `Object` (D26 repair: `global_get`) --------------------------
    def s_userobj(self):
        """the session declares its own `Object`: every parent-less class, in this entry and later, loads
        the builtin class from the global module instead of reading a module symbol"""
        n = self.rng.randint(1, 9)
        if self.rng.random() < 0.5:
            self.obj = "num"
            return dict(text="let Object = %d;" % n, decls=["Object"], refs=[], funs=[], script=["s:Object"], calls=[])
        self.obj = "class"
        return dict(text="class Object { hi() { return %d; } }" % n, decls=["Object"], refs=["Object"],
                    funs=[("Object.hi", [])], script=["s:Object", "o", "g:Object"], calls=[])

    def s_objuse(self):
        if self.obj == "num":
            return dict(text="print(Object + 1);", decls=[], refs=["print", "Object"], funs=[], script=["g:print", "g:Object"],
                        calls=[], needs=["Object"])
        return dict(text="print(Object().hi());", decls=[], refs=["print", "Object"], funs=[], script=["g:print", "g:Object", "i"],
                    calls=["Object.hi"], needs=["Object"])

    def s_eclass(self):
        """an explicit `: Object` is an ordinary read of the name (the module's slot, in every entry)"""
        k = self.fresh("E")
        self.classes.append((k, "m", 0))
        return dict(text="class %s : Object { m() { return %d; } }" % (k, self.rng.randint(1, 99)), decls=[k], refs=["Object"],
                    funs=[(k + ".m", [])], script=["s:" + k, "g:Object", "g:" + k], calls=[])

    def s_fclass(self):
        """a parent-less class declared inside a function: the implicit superclass is read in the function's body"""
        f = self.fresh("mc")
        self.cmakers.append((f, ""))
        return dict(text="fn %s() { class L { v() { return %d; } } return L; }" % (f, self.rng.randint(1, 99)), decls=[f],
                    refs=["Object"], funs=[(f + ".L.v", []), (f, ["o"])], script=["s:" + f], calls=[])

    def s_shadowclass(self):
        """the same under a parameter called Object: the builtin class is loaded from the global module,
        neither the resolver nor the compiler touches a module symbol"""
        f = self.fresh("mc")
        self.cmakers.append((f, "0"))
        return dict(text="fn %s(Object) { class L { v() { return %d; } } return L; }" % (f, self.rng.randint(1, 99)), decls=[f],
                    refs=[], funs=[(f + ".L.v", []), (f, [])], script=["s:" + f], calls=[])

    def s_cmcall(self):
        f, arg = self.rng.choice(self.cmakers)
        return dict(text="print(%s(%s)().v());" % (f, arg), decls=[], refs=["print", f], funs=[], script=["g:print", "g:" + f, "i"],
                    calls=[f, f + ".L.v"])

    # -- channels and fibers (c19_fibers.py): every script operation is tried on a copy of the Kahn network
    #    first, so that no generated script blocks for ever --------------------------------------------
    def s_chan(self):
        c = self.fresh("ch")
        cap = self.rng.choice([None, None, 1, 1, 2, 2, 3])
        fib = {"chan": [c, cap]}
        self.k.define(fib)
        return dict(text="let %s = chan(%s);" % (c, "" if cap is None else cap), decls=[c], refs=[], funs=[], script=["s:" + c],
                    calls=[], fib=fib)

    def s_pf(self):
        f = self.fresh("pf")
        a, b = self.rng.randint(1, 4), self.rng.randint(0, 9)
        fib = {"pf": [f, a, b]}
        self.k.define(fib)
        return dict(text="fn %s(p) { return p * %d + %d; }" % (f, a, b), decls=[f], refs=[], funs=[(f, [])], script=["s:" + f],
                    calls=[], fib=fib)

    def s_acccls(self):
        c = self.fresh("Acc")
        fib = {"acccls": c}
        self.k.define(fib)
        return dict(text="class %s { init() { self.n = 0; } add(x) { self.n = self.n + x; return self.n; } }" % c, decls=[c],
                    refs=["Object"], funs=[(c + ".init", []), (c + ".add", [])], script=["s:" + c, "o", "g:" + c], calls=[], fib=fib)

    def s_accinst(self):
        if not self.k.acccls:
            return self.s_acccls()
        c = self.rng.choice(sorted(self.k.acccls))
        a = self.fresh("a")
        fib = {"acc": [a, c]}
        self.k.define(fib)
        return dict(text="let %s = %s();" % (a, c), decls=[a], refs=[c], funs=[], script=["g:" + c, "s:" + a], calls=[c + ".init"],
                    fib=fib)

    def fexpr(self, var, acc_param):
        """an expression a worker sends: over the value it received last (if any), pure functions of earlier
        entries and its accumulator"""
        rng = self.rng
        pfs = sorted(self.k.pf)
        forms = ["k"]
        if var:
            forms += ["lin", "lin"]
        if pfs:
            forms += ["pfk"] + (["pf", "pf"] if var else [])
        f = rng.choice(forms)
        if f == "k":
            e = ["k", rng.randint(0, 40)]
        elif f == "lin":
            e = ["lin", var, rng.randint(1, 3), rng.randint(0, 9)]
        elif f == "pf":
            e = ["pf", rng.choice(pfs), var]
        else:
            e = ["pfk", rng.choice(pfs), rng.randint(0, 9)]
        if acc_param is not None and rng.random() < 0.6:
            e = ["add", acc_param, e]
        if rng.random() < 0.15:
            e = ["plus", e, ["k", rng.randint(1, 5)]]
        return e

    def s_wfn(self):
        rng = self.rng
        w = self.fresh("w")
        shape = rng.choice(["producer", "producer", "transformer", "transformer", "splitter"])
        with_acc = bool(self.k.acccls) and rng.random() < 0.5
        if shape == "producer":
            kinds = ["o"]
        elif shape == "transformer":
            kinds = ["i", "o"]
        else:
            kinds = ["i", "o", "o"]
        acc_param = None
        if with_acc:
            acc_param = len(kinds)
            kinds = kinds + ["a"]
        ops, nvar = [], 0
        if shape == "producer":
            for _ in range(rng.randint(1, 4)):
                ops.append(["s", 0, self.fexpr(None, acc_param)])
        else:
            outs = [i for i, kd in enumerate(kinds) if kd == "o"]
            for _ in range(rng.randint(1, 3)):
                nvar += 1
                var = "x%d" % nvar
                ops.append(["r", 0, var])
                for _ in range(rng.choice([1, 1, 1, 2])):
                    ops.append(["s", rng.choice(outs), self.fexpr(var, acc_param)])
            if rng.random() < 0.2:
                ops.insert(0, ["s", outs[0], self.fexpr(None, acc_param)])
        fib = {"wfn": [w, kinds, ops]}
        self.k.define(fib)
        sites = [o for op in ops if op[0] == "s" for o in fibers.expr_ops(op[2])]
        refs = [o[2:] for o in sites if o.startswith("g:")]
        return dict(text=fibers.wfn_text(w, kinds, ops), decls=[w], refs=refs, funs=[(w, sites)], script=["s:" + w], calls=[], fib=fib)

    def try_main(self, op):
        """apply one script operation to the network if it is well-formed and can complete"""
        trial = fibers.snapshot(self.k)
        if trial.main_op(op):
            self.k = trial
            return True
        return False

    def s_launch(self):
        rng = self.rng
        names = sorted(self.k.wf)
        rng.shuffle(names)
        for w in names[:3]:
            kinds, _ = self.k.wf[w]
            free_in = [c for c in self.k.order if self.k.ch[c]["rcv"] is None]
            free_out = [c for c in self.k.order if self.k.ch[c]["snd"] is None]
            free_acc = sorted(a for a in self.k.acc if self.k.acc[a]["owner"] is None)
            rng.shuffle(free_in), rng.shuffle(free_out), rng.shuffle(free_acc)
            actuals = []
            for kd in kinds:
                pool = free_in if kd == "i" else free_out if kd == "o" else free_acc
                pool = [x for x in pool if x not in actuals]
                if not pool:
                    actuals = None
                    break
                actuals.append(pool[0])
            if actuals is None:
                continue
            if self.try_main(["L", w, actuals]):
                return dict(text="launch %s(%s);" % (w, ", ".join(actuals)), decls=[], refs=[w] + actuals, funs=[],
                            script=["g:" + w] + ["g:" + a for a in actuals], calls=[], fib={"main": [["L", w, actuals]]})
        # nothing to launch a fiber over yet: make what is missing
        kinds = self.k.wf[names[0]][0]
        if "a" in kinds and not [a for a in self.k.acc if self.k.acc[a]["owner"] is None]:
            return self.s_accinst()
        return self.s_chan()

    def s_frecv(self):
        cands = [c for c in self.k.order if self.k.ch[c]["rcv"] in (None, "main") and self.k.ch[c]["snd"] not in (None, "main")]
        self.rng.shuffle(cands)
        for c in cands:
            if self.try_main(["r", c]):
                return dict(text='print("r ${<- %s}");' % c, decls=[], refs=["print", c], funs=[], script=["g:print", "g:" + c, "i"],
                            calls=[], fib={"main": [["r", c]]})
        return self.s_fsend()

    def s_fsend(self):
        rng = self.rng
        cands = [c for c in self.k.order if self.k.ch[c]["snd"] in (None, "main") and self.k.ch[c]["rcv"] not in (None, "main")]
        rng.shuffle(cands)
        pfs = sorted(self.k.pf)
        for c in cands:
            if pfs and rng.random() < 0.4:
                f, n = rng.choice(pfs), rng.randint(0, 9)
                a, b = self.k.pf[f]
                v, text, refs = n * a + b, "%s(%d)" % (f, n), [f]
            else:
                v = rng.randint(0, 30)
                text, refs = str(v), []
            if self.try_main(["s", c, v]):
                return dict(text="%s <- %s;" % (c, text), decls=[], refs=refs + [c], funs=[], script=["g:" + r for r in refs] + ["g:" + c],
                            calls=[], fib={"main": [["s", c, v]]})
        return self.s_launch() if self.k.wf and rng.random() < 0.5 else self.s_print()

    # -- erroneous statements ---------------------------------------------------------------
    def bad(self):
        rng = self.rng
        k = rng.choice(["syntax", "syntax2", "undeclared", "duplicate", "rt_prop", "rt_raise", "rt_let", "rt_call", "rt_scall", "late",
                        "dup_object"])
        if k == "dup_object" and self.obj is not None:
            # `Object` is a symbol of the module (as a global an earlier entry brought in, or the session's own)
            return dict(text="let Object = 1;", fail="duplicate", decls=["Object"], refs=[], funs=[], script=["s:Object"], calls=[])
        if k == "rt_scall" and self.sfns:
            h = rng.choice(self.sfns)[0]     # the error is raised inside a sited function of an earlier entry
            return dict(text="print(%s(nil));" % h, fail="runtime", decls=[], refs=["print", h], funs=[],
                        script=["g:print", "g:" + h], calls=[h])
        if k == "late" and rng.random() < 0.5:
            # rejected by the compiler proper (256 locals) after the sites of the line's first function were numbered
            z, big = self.fresh("z"), self.fresh("big")
            return dict(text="fn %s(q) { return q.x + q.get(); } fn %s() { %s }" % (z, big, " ".join("let a%d = 0;" % i for i in range(256))),
                        fail="late", decls=[z, big], refs=[], funs=[(z, ["p", "i"]), (big, [])], script=["s:" + z, "s:" + big], calls=[])
        if k == "syntax":
            e, refs = self.expr()
            return dict(text="print(%s" % e, fail="syntax", decls=[], refs=[], funs=[], script=[], calls=[])
        if k == "syntax2":
            return dict(text="let = 3;", fail="syntax", decls=[], refs=[], funs=[], script=[], calls=[])
        if k == "undeclared":
            return dict(text="print(nope%d);" % rng.randint(0, 9), fail="undeclared", decls=[], refs=["print", "nope"], funs=[],
                        script=[], calls=[])
        if k == "duplicate" and self.nums:
            v = rng.choice(self.nums)
            return dict(text="let %s = 1;" % v, fail="duplicate", decls=[v], refs=[], funs=[], script=["s:" + v], calls=[])
        if k == "rt_raise":
            return dict(text='raise Error("boom");', fail="runtime", decls=[], refs=["Error"], funs=[], script=["g:Error"], calls=[])
        if k == "rt_let":
            w = self.fresh("w")      # half-declared: never used again
            return dict(text="let %s = nil.foo;" % w, fail="runtime", decls=[w], refs=[], funs=[], script=["p", "s:" + w], calls=[])
        if k == "rt_call" and self.fns:
            f = rng.choice(self.fns)
            return dict(text="print(%s(nil));" % f, fail="runtime", decls=[], refs=["print", f], funs=[],
                        script=["g:print", "g:" + f], calls=self.closure(f))
        return dict(text="print(nil.foo);", fail="runtime", decls=[], refs=["print"], funs=[], script=["g:print", "p"], calls=[])


def gen_session(rng):
    g = Gen(rng)
    n = rng.randint(3, 12)
    entries = []
    prof = rng.random()
    if prof >= 0.85:
        # profile "Object": how parent-less classes find their superclass — first mention, later entries,
        # inside functions, under a local of that name, in a session that declares its own Object
        g.obias = 5
        if rng.random() < 0.5:
            entries.append({"stmts": [g.s_userobj()] + ([g.stmt()] if rng.random() < 0.5 else [])})
    if prof < 0.6:
        # profile "sited": receivers of several classes first, then mostly definitions and calls of
        # functions / methods / closures that contain inline-cache sites, spread over many entries
        g.bias = 4
        for _ in range(rng.randint(1, 2)):
            entries.append({"stmts": [g.s_pclass()]})
        for _ in range(rng.randint(1, 3)):
            entries.append({"stmts": [g.s_inst()] + ([g.s_list()] if rng.random() < 0.3 else [])})
        n = rng.randint(4, 10)
    if rng.random() < 0.4:
        # profile "fibers": channels, pure functions, an accumulator class and worker functions first (each in
        # its own entry), then launches, sends and receives mixed with everything else and with erroneous
        # entries: fibers launched by one entry are left queued or parked when it ends and are
        # synchronised with — received from, sent to — by entries any number of lines later
        g.fbias = rng.choice([3, 5, 8])
        pre = [g.s_chan(), g.s_chan()] + ([g.s_pf()] if rng.random() < 0.7 else []) + ([g.s_acccls()] if rng.random() < 0.6 else [])
        rng.shuffle(pre)
        for st in pre:
            entries.append({"stmts": [st]})
        for _ in range(rng.randint(1, 2)):
            entries.append({"stmts": [g.s_wfn()]})
        if rng.random() < 0.7:
            entries.append({"stmts": [g.s_launch()]})
        n = rng.randint(4, 11)
    for _ in range(n):
        note_object(g, entries)
        r = rng.random()
        if r < (0.3 if g.fbias > 1 else 0.22):
            b = g.bad()
            if b["fail"] == "runtime" and rng.random() < 0.5:
                pre = [g.stmt() for _ in range(rng.randint(1, 2))]
                post = [g.s_print()] if rng.random() < 0.5 else []
                entries.append({"stmts": pre + [b] + post})
            elif b["fail"] in ("syntax", "undeclared", "duplicate", "late") and rng.random() < 0.4:
                # the whole line is rejected: statements before / after the bad one have no effect
                snap = snapshot(g)
                pre = [g.stmt()]
                restore(g, snap)
                entries.append({"stmts": pre + [b]})
            else:
                entries.append({"stmts": [b]})
        else:
            entries.append({"stmts": [g.stmt() for _ in range(rng.choice([1, 1, 1, 2, 2, 3]))]})
        note_object(g, entries)
    return entries


def note_object(g, entries):
    """an entry that reaches the prologue brings `Object` into the module if it mentions the name"""
    for e in entries:
        if g.obj is None and entry_fail(e) != "compile" and any("Object" in st["refs"] for st in e["stmts"]):
            g.obj = "global"


def snapshot(g):
    return (list(g.nums), list(g.fns), list(g.classes), list(g.pclasses), list(g.insts), list(g.lists),
            list(g.sfns), list(g.sclasses), list(g.smakers), list(getattr(g, "makers", [])), list(g.cmakers), [g.obj],
            fibers.snapshot(g.k))


def restore(g, s):
    (g.nums, g.fns, g.classes, g.pclasses, g.insts, g.lists, g.sfns, g.sclasses, g.smakers, g.makers, g.cmakers,
     (g.obj,)) = [list(x) for x in s[:-1]]
    g.k = fibers.snapshot(s[-1])


# ---------------------------------------------------------------------------------------------
# the three renderings of a session


def entry_fail(e):
    """None | 'compile' | ('runtime', index of the failing statement)"""
    for i, s in enumerate(e["stmts"]):
        if s.get("fail") in ("syntax", "undeclared", "duplicate", "late"):
            return "compile"
    for i, s in enumerate(e["stmts"]):
        if s.get("fail") == "runtime":
            return ("runtime", i)
    return None


def entry_late(e):
    """the entry passes the parser and the resolver and is rejected by the compiler proper: its
    functions go through the encoder (and show up in the compile log) before the line is dropped"""
    kinds = [s.get("fail") for s in e["stmts"]]
    return "late" in kinds and not any(k in ("syntax", "undeclared", "duplicate") for k in kinds)


def session_text(entries):
    return "".join(" ".join(s["text"] for s in e["stmts"]) + "\n" for e in entries)


def concat_text(entries):
    out = []
    for e in entries:
        f = entry_fail(e)
        if f == "compile":
            continue
        stmts = e["stmts"] if f is None else e["stmts"][:f[1]]
        if stmts:
            out.append(" ".join(s["text"] for s in stmts))
    return "\n".join(out) + "\n"


def model_lines(entries):
    ls = ["reset"]
    pl = fibers.plan(entries, entry_fail) if fibers.has_fibers(entries) else None
    for ei, e in enumerate(entries):
        syntax_ok = not any(s.get("fail") == "syntax" for s in e["stmts"])
        ls.append("entry %d %d" % (1 if syntax_ok else 0, 0 if entry_late(e) else 1))
        decls, refs, funs, script, calls = [], [], [], [], []
        f = entry_fail(e)
        for i, s in enumerate(e["stmts"]):
            decls += s["decls"]
            refs += s["refs"]
            funs += s["funs"]
            script += s["script"]
            if not (isinstance(f, tuple) and i > f[1]):
                calls += s["calls"]
        ls.append("decls " + " ".join(decls))
        ls.append("refs " + " ".join(refs))
        for name, ops in funs:
            ls.append("fun %s %s" % (name, " ".join(ops)))
        ls.append("script " + " ".join(script))
        ls.append("calls " + " ".join(calls))
        if pl and f != "compile":
            ls += fibers.model_fiber_lines(pl["per_entry"][ei], pl["bodies"])
        ls.append("end")
    return ls


def strip_prompts(s):
    return s.replace(PROMPT, "")


# ---------------------------------------------------------------------------------------------
# running


def _repl_shard(files):
    harness = common.harness_path(bin="vh_repl")
    out = []
    i = 0
    while i < len(files):
        chunk = files[i:]
        try:
            p = subprocess.run([harness], input="".join(f + "\n" for f in chunk), stdout=subprocess.PIPE,
                               stderr=subprocess.PIPE, text=True, timeout=600)
            lines = [l for l in p.stdout.split("\n") if l.strip()]
            rc = p.returncode
        except subprocess.TimeoutExpired as ex:
            so = ex.stdout or b""
            lines = [l for l in (so.decode("utf8", "replace") if isinstance(so, bytes) else so).split("\n") if l.strip()]
            rc = "timeout"
        good = []
        for l in lines:
            try:
                good.append(json.loads(l))
            except ValueError:
                break
        out.extend(good)
        i += len(good)
        if len(good) < len(chunk):
            out.append({"file": files[i], "status": "CRASH:%s" % rc, "stdout": "", "stderr": "", "entries": []})
            i += 1
    return out


def run_repl_batch(files):
    n = max(1, min(common.NCPU, (len(files) + 7) // 8))
    shards = [files[k::n] for k in range(n)]
    res = [None] * len(files)
    with concurrent.futures.ThreadPoolExecutor(max_workers=n) as ex:
        outs = list(ex.map(_repl_shard, shards))
    for k, o in enumerate(outs):
        for j, r in enumerate(o):
            res[k + j * n] = r
    return res


def model_run(sessions):
    lines = [l for s in sessions for l in model_lines(s)]
    rc, out, err = common.run_lines([DRV], lines, timeout=1200)
    res, pos = [], 0
    for s in sessions:
        res.append(out[pos:pos + len(s)])
        pos += len(s)
    return res


def model_file_run(sessions):
    """the scheduler model on the channel / fiber operations of the CONCATENATED module (one script, one main
    fiber): one result line per session that has fibers, None for the others"""
    plans = [fibers.plan(s, entry_fail) if fibers.has_fibers(s) else None for s in sessions]
    lines = [l for pl in plans if pl for l in fibers.file_mode_lines(pl)]
    if not lines:
        return [None] * len(sessions)
    rc, out, err = common.run_lines([DRV], lines, timeout=1200)
    res, pos = [], 0
    for pl in plans:
        if pl:
            res.append(out[pos] if pos < len(out) else "")
            pos += 1
        else:
            res.append(None)
    return res


_LEN = {}


def instruction_lengths():
    """`SymbolicByteCode::len` read from the repo's byte_code.rs: instruction name -> encoded length"""
    if not _LEN:
        src = open(os.path.join(common.REPO, "laythe_vm", "src", "byte_code.rs")).read()
        m = re.search(r"impl SymbolicByteCode \{.*?pub const fn len\(&self\) -> usize \{\s*match self \{(.*?)\n    \}", src, re.S)
        if not m:
            raise RuntimeError("byte_code.rs: SymbolicByteCode::len not understood")
        for name, n in re.findall(r"Self::(\w+)(?:\([^=]*\))?\s*=>\s*(\d+),", m.group(1)):
            _LEN[name] = int(n)
        if _LEN.get("PropertySlot") != 4 or _LEN.get("InvokeSlot") != 4 or len(_LEN) < 60:
            raise RuntimeError("byte_code.rs: SymbolicByteCode::len not understood (%d arms)" % len(_LEN))
    return _LEN


def site_ids(fun):
    """the inline-cache sites of one compiled function with the ids the encoder wrote after them
    (`op_property_slot` / `op_invoke_slot`: the u32 in native byte order): ['P3', 'I0', ..]"""
    lens = instruction_lengths()
    code = bytes.fromhex(fun.get("code", ""))
    out, off = [], 0
    for name in [x for x in fun.get("post", "").split(",") if x]:
        if name not in lens:
            return ["?unknown instruction %s" % name]
        if name in ("PropertySlot", "InvokeSlot"):
            if off + 4 > len(code):
                return ["?code too short"]
            out.append("%s%d" % ("P" if name == "PropertySlot" else "I", int.from_bytes(code[off:off + 4], sys.byteorder)))
        off += lens[name]
    if off != len(code):
        return ["?decoded %d of %d bytes" % (off, len(code))]
    if [x[0] for x in out] != [x for x in fun.get("sites", "").split(",") if x]:
        return ["?sites %s" % fun.get("sites")]
    return out


def impl_entry_lines(rec, entries=None):
    """the implementation's compile log in the model's vocabulary: one string per compiled entry
    (`syms|sites with ids` per function, the script last).  With `entries`, the log records of the
    entries the compiler proper rejected are dropped (they were encoded, then discarded)."""
    out = []
    logged = rec.get("entries", [])
    keep = [True] * len(logged)
    if entries is not None:
        reach = [entry_late(e) for e in entries if entry_fail(e) != "compile" or entry_late(e)]
        keep = [not late for late in reach] + [True] * max(0, len(logged) - len(reach))
    for ent, k in zip(logged, keep):
        if k:
            out.append(";".join("%s|%s" % (f["syms"], ",".join(site_ids(f))) for f in ent))
    return out


def model_entry_lines(mlines):
    """(list of per-compiled-entry strings, list of per-entry statuses, faults)"""
    comp, status, faults = [], [], []
    for l in mlines:
        if l.startswith("ok|"):
            parts = l.split("|")
            funs = []
            for f in parts[1].split(";"):
                name, syms, sites = f.split(":")
                funs.append("%s|%s" % (syms, ",".join(x for x in sites.split(",") if x)))
            comp.append(";".join(funs))
            status.append("ok")
            ft = parts[3][len("faults="):]
            if ft:
                faults.append(ft)
        else:
            status.append(l)
    return comp, status, faults


def repl_entry_outputs(rrec, n):
    """what each of the n entries printed: the prompt is written before every line is read"""
    return (rrec.get("stdout", "").split(PROMPT) + [""] * (n + 1))[1:n + 1]


def received(text):
    return [l[len(fibers.RLINE):] for l in text.split("\n") if l.startswith(fibers.RLINE)]


def scheduler_envelope(entries, mlines, fmline):
    """None if the session stays clear of the known scheduler findings, judged on the exact scheduler model: at
    the prompt and as one module every script must run to its end (or to its intended error) without a deadlock
    report, a host assertion or a premature acknowledgement.  Otherwise (signature, description):
      "DC19.3"           the model run entry by entry ends an entry with a deadlock report although the same
                         operations as one script run clean (the wake-up an ended script owed is lost; owner C19);
      "known-scheduler"  anything else: the findings C08 owns (D5, D17, D18, D26: lost wake-ups, double queue
                         entries, stale waiter entries), at the prompt (there also through the stale entries of the
                         dead main fibers of earlier entries) or as one module.
    Such sessions are not judged against the Spec."""
    prompt = None
    only_deadlocks = True
    for i, l in enumerate(mlines):
        fb = fibers.parse_fib(l)
        if l.startswith("ok|") and fb is None:
            return "known-scheduler", "model line without scheduler half: %r" % l
        if fb and (fb["end"] not in ("exit", "raised") or fb["premature"]):
            prompt = prompt or "at the prompt, entry %d: %s, %d premature acknowledgements" % (i, fb["end"], fb["premature"])
            only_deadlocks = only_deadlocks and fb["end"] in ("exit", "raised", "deadlock") and not fb["premature"]
            if fb["end"] != "deadlock":
                break       # a host assertion: nothing after it runs
    fb = fibers.parse_fib(fmline or "")
    module_clean = fb is not None and fb["end"] == "exit" and not fb["premature"]
    if prompt:
        return ("DC19.3" if only_deadlocks and module_clean else "known-scheduler"), prompt
    if not module_clean:
        return "known-scheduler", "as one module: %r" % (fmline,)
    return None


def judge(entries, rrec, crec, mlines, expected_stdout=None):
    """Returns (kind, message) or None.  rrec: REPL record, crec: concatenation record,
    mlines: (the model's line per entry, the scheduler model's line for the concatenated module or None)."""
    mlines, fmline = mlines if isinstance(mlines, tuple) else (mlines, None)
    pl = fibers.plan(entries, entry_fail) if fibers.has_fibers(entries) else None
    if fibers.has_fibers(entries):
        if pl is None:
            return "ill-formed", "a script operation of the session can never complete (generator / shrinker candidate)"
        env = scheduler_envelope(entries, mlines, fmline)
        if env and env[0] == "DC19.3" and "Fatal error deadlock." not in rrec.get("stderr", ""):
            return "tie", ("the scheduler model ends an entry of the session with a deadlock report (%s; known finding DC19.3), the "
                           "implementation reports none (stderr %r)" % (env[1], rrec.get("stderr", "")[-200:]))
        if env:
            return env
    fails = [entry_fail(e) for e in entries]
    n_rt = sum(1 for f in fails if isinstance(f, tuple))
    n_ce = sum(1 for f, e in zip(fails, entries) if f == "compile" and not entry_late(e))   # never reach the encoder
    rout = strip_prompts(rrec.get("stdout", ""))
    cout = crec.get("stdout", "")
    rst = rrec.get("status", "?")
    if crec.get("status") != "Ok:0":
        return "spec-ref", "the concatenation itself does not run cleanly: %s %s" % (crec.get("status"), crec.get("stderr", "")[-200:])
    if not (rst == "Ok:0" or rst == "PANIC:Not enough test lines"):
        return "spec", "the session did not survive: %s (stdout so far %r)" % (rst, rout[-120:])
    if rout != cout:
        rl, cl = rout.split("\n"), cout.split("\n")
        k = next((i for i in range(min(len(rl), len(cl))) if rl[i] != cl[i]), min(len(rl), len(cl)))
        return "spec", "output line %d: session prints %r, the same declarations in one file print %r" % (k, rl[k:k + 1], cl[k:k + 1])
    err = rrec.get("stderr", "")
    if err.count("Traceback") != n_rt:
        return "spec", "%d entries raised, %d were expected to (stderr %r)" % (err.count("Traceback"), n_rt, err[-300:])
    ncomp = len(rrec.get("entries", []))
    if ncomp != len(entries) - n_ce:
        return "spec", "%d entries reached the compiler, %d should have (an entry was rejected or accepted unexpectedly; stderr %r)" % (
            ncomp, len(entries) - n_ce, err[-300:])
    if expected_stdout is not None and rout != expected_stdout:
        return "spec", "the session prints %r, expected %r" % (rout, expected_stdout)
    if pl and received(rout) != [str(v) for v in pl["expect"]]:
        return "spec", "the scripts received %r from their fibers; the network determines %r" % (received(rout), pl["expect"])
    comp, status, faults = model_entry_lines(mlines)
    if faults:
        return "tie", "the model reports out-of-range cache accesses (C19_cache_slots_in_range says it cannot): %s" % faults
    exp_status = ["ok" if f != "compile" else "err" for f in fails]
    if [s[:3].rstrip(":") for s in status] != exp_status:
        return "tie", "model entry statuses %r, expected %r" % (status, exp_status)
    ic = impl_entry_lines(rrec, entries)
    if comp != ic:
        k = next((i for i in range(min(len(comp), len(ic))) if comp[i] != ic[i]), min(len(comp), len(ic)))
        return "tie", "compiled entry %d: model %r / implementation %r" % (k, comp[k:k + 1], ic[k:k + 1])
    if pl:
        # the scheduler half of the model, entry by entry: how `execute` ended and what the script received
        outs = repl_entry_outputs(rrec, len(entries))
        for i, (e, l, o) in enumerate(zip(entries, mlines, outs)):
            fb = fibers.parse_fib(l)
            if fb is None:
                continue
            want = "raised" if isinstance(fails[i], tuple) else "exit"
            if fb["end"] != want:
                return "tie", "entry %d: the scheduler model ends it with %r, the entry is built to end with %r" % (i, fb["end"], want)
            if fb["main"] != received(o):
                return "tie", "entry %d: the scheduler model's script receives %r, the implementation's %r" % (i, fb["main"], received(o))
    return None


def run_sessions(sessions, workdir, base=0):
    sfiles, cfiles = [], []
    os.makedirs(workdir, exist_ok=True)
    for i, s in enumerate(sessions):
        sf = os.path.join(workdir, "s%d.txt" % (base + i))
        cf = os.path.join(workdir, "c%d.lay" % (base + i))
        open(sf, "w").write(session_text(s))
        open(cf, "w").write(concat_text(s))
        sfiles.append(sf)
        cfiles.append(cf)
    rrecs = run_repl_batch(sfiles)
    crecs = common.run_batch(cfiles)
    models = model_run(sessions)
    fmodels = model_file_run(sessions)
    return rrecs, crecs, [(m, fm) for m, fm in zip(models, fmodels)]


def shrink(entries, fails):
    """greedy: drop whole entries, then single statements; candidates must keep names defined"""
    cur = json.loads(json.dumps(entries))

    def ok(c):
        return c and well_scoped(c) and fails(c)

    changed = True
    while changed:
        changed = False
        i = 0
        while i < len(cur):
            cand = cur[:i] + cur[i + 1:]
            if ok(cand):
                cur = cand
                changed = True
            else:
                i += 1
        for i in range(len(cur)):
            j = 0
            while j < len(cur[i]["stmts"]) and len(cur[i]["stmts"]) > 1:
                cand = json.loads(json.dumps(cur))
                del cand[i]["stmts"][j]
                if ok(cand):
                    cur = cand
                    changed = True
                else:
                    j += 1
    return cur


GLOBALS = {"print", "Object", "Error", "nope"}


def well_scoped(entries):
    """every referenced name is declared by an earlier (or the same) compiled entry, nothing is declared twice"""
    declared = set()      # the module's symbols: declared names and the globals brought in by a use
    own = set()           # the names the session declared itself
    for e in entries:
        f = entry_fail(e)
        names = [d for s in e["stmts"] for d in s["decls"]]
        refs = [r for s in e["stmts"] for r in s["refs"]]
        if f == "compile":
            for st in e["stmts"]:
                if st.get("fail") == "duplicate" and not all(d in declared for d in st["decls"]):
                    return False      # the re-declaration must re-declare something
            continue
        if len(set(names)) != len(names) or any(n in declared for n in names):
            return False
        if any(r not in declared and r not in names and r not in GLOBALS for r in refs):
            return False
        if any(n not in own and n not in names for s in e["stmts"] for n in s.get("needs", [])):
            return False          # e.g. `Object + 1` needs the session's own Object, not the builtin class
        declared |= set(names) | {r for r in refs if r in GLOBALS and r != "nope"}
        own |= set(names)
    return True


def object_stats(entries, stats):
    """which of the ways a class declaration finds `Object` the session exercises (the model's `superSlot` cases)"""
    in_module, own = False, False       # `Object` is a symbol of the module; the session declared it itself
    for e in entries:
        f = entry_fail(e)
        decls = [d for st in e["stmts"] for d in st["decls"]]
        if f == "compile":
            stats["redeclaring_Object_rejected"] += any(st.get("fail") == "duplicate" and "Object" in st["decls"] for st in e["stmts"])
            continue
        declares = "Object" in decls
        for st in e["stmts"]:
            n = sum(1 for o in st["script"] if o == "o") + sum(1 for _, ops in st["funs"] for o in ops if o == "o")
            key = ("implicit_super_own_Object_LoadGlobal" if declares or (in_module and own) else
                   "implicit_super_later_entry_LoadGlobal" if in_module else "implicit_super_first_mention_GetModSym")
            stats[key] += n
            stats["implicit_super_inside_a_function"] += sum(1 for _, ops in st["funs"] for o in ops if o == "o")
            stats["implicit_super_under_a_local_called_Object"] += "(Object) { class" in st["text"]
            stats["explicit_Object_superclass"] += ": Object {" in st["text"]
        if declares:
            own = True
            stats["sessions_declaring_their_own_Object"] += 1
        if declares or any("Object" in st["refs"] for st in e["stmts"]):
            in_module = True


def payload(entries, rrec, crec, mlines, kind, msg, seed):
    return {"engine": "repl", "kind": {"spec": "implementation-vs-spec", "tie": "model-vs-implementation"}.get(kind, kind),
            "what": msg, "seed": seed, "session": entries, "session_text": session_text(entries), "concatenation": concat_text(entries),
            "repl": {"status": rrec.get("status"), "stdout": strip_prompts(rrec.get("stdout", "")), "stderr": rrec.get("stderr", "")[-800:],
                     "compile_log": impl_entry_lines(rrec, entries)},
            "file": {"status": crec.get("status"), "stdout": crec.get("stdout"), "stderr": crec.get("stderr", "")[-400:]},
            "model": mlines[0] if isinstance(mlines, tuple) else mlines,
            "scheduler_model_on_the_concatenation": mlines[1] if isinstance(mlines, tuple) else None,
            "fibers": (fibers.plan(entries, entry_fail) or {}).get("expect") if fibers.has_fibers(entries) else None,
            "replay": "./check C19 --replay <this file>"}


def stream_sessions(ctx, n, workdir, label="sessions", seed_mul=7919, search=False):
    rng = random.Random(ctx.seed * seed_mul + 19)
    sessions, expected = [], {}
    if not search:
        corpus = os.path.join(common.VERIF, "corpus", "C19")
        if os.path.isdir(corpus):
            for f in sorted(os.listdir(corpus)):
                c = json.load(open(os.path.join(corpus, f)))
                if "expected_stdout" in c:
                    expected[len(sessions)] = c["expected_stdout"]
                sessions.append(c["session"])
    ncorpus = len(sessions)
    while len(sessions) < n + ncorpus:
        s = gen_session(rng)
        if not well_scoped(s):
            ctx.stream_stat(label, generator_rejects=1)
            continue
        sessions.append(s)
    stats = {"sessions": 0, "entries": 0, "statements": 0, "compile_error_entries": 0, "compiler_proper_error_entries": 0,
             "runtime_error_entries": 0, "calls_into_earlier_entries": 0, "sites_top_level": 0, "functions_with_sites": 0,
             "calls_of_sited_functions_from_later_entries": 0, "sessions_calling_sited_functions_from_later_entries": 0,
             "sited_calls_after_a_failed_entry": 0, "max_entries_between_definition_and_call": 0,
             "sessions_sites_in_3_or_more_entries": 0, "definitions": 0, "output_lines": 0,
             "implicit_super_first_mention_GetModSym": 0, "implicit_super_later_entry_LoadGlobal": 0,
             "implicit_super_own_Object_LoadGlobal": 0, "implicit_super_inside_a_function": 0,
             "implicit_super_under_a_local_called_Object": 0, "explicit_Object_superclass": 0,
             "sessions_declaring_their_own_Object": 0, "redeclaring_Object_rejected": 0,
             "sessions_with_fibers": 0, "sessions_in_a_known_scheduler_signature_not_judged": 0, "sessions_in_signature_DC19_3_not_judged": 0,
             "sessions_receiving_after_a_runtime_error_entry_since_the_launch": 0,
             "entries_ending_with_fibers_in_the_run_queue": 0, "entries_ending_with_fibers_parked_on_channels": 0,
             "runtime_error_entries_ending_with_fibers_in_the_run_queue": 0, "max_run_queue_at_an_entry_end": 0}
    first = None
    first_any = None
    CH = 300
    for off in range(0, len(sessions), CH):
        chunk = sessions[off:off + CH]
        rrecs, crecs, models = run_sessions(chunk, workdir, base=0)
        for k, (s, rr, cr, ml) in enumerate(zip(chunk, rrecs, crecs, models)):
            jr = judge(s, rr, cr, ml, expected.get(off + k))
            if jr and jr[0] in ("known-scheduler", "ill-formed", "DC19.3"):
                stats["sessions_in_signature_DC19_3_not_judged" if jr[0] == "DC19.3" else
                      "sessions_in_a_known_scheduler_signature_not_judged"] += 1
                continue
            stats["sessions"] += 1
            stats["entries"] += len(s)
            pl = fibers.plan(s, entry_fail) if fibers.has_fibers(s) else None
            if pl and pl["fibers"]:
                stats["sessions_with_fibers"] += 1
                for key, v in pl["stats"].items():
                    if key.startswith("max_"):
                        stats[key] = max(stats.get(key, 0), v)
                    else:
                        stats[key] = stats.get(key, 0) + v
                stats["sessions_receiving_after_a_runtime_error_entry_since_the_launch"] += (
                    pl["stats"]["receives_after_a_runtime_error_entry_since_the_launch"] > 0)
                for e, l in zip(s, ml[0]):
                    fb = fibers.parse_fib(l)
                    if fb:
                        stats["entries_ending_with_fibers_in_the_run_queue"] += fb["runq"] > 0
                        stats["entries_ending_with_fibers_parked_on_channels"] += fb["parked"] > 0
                        stats["runtime_error_entries_ending_with_fibers_in_the_run_queue"] += fb["runq"] > 0 and fb["end"] == "raised"
                        stats["max_run_queue_at_an_entry_end"] = max(stats["max_run_queue_at_an_entry_end"], fb["runq"])
            defined_in, sited = {}, set()
            later_calls = later_sited = entries_with_sites = 0
            failed_before = False
            for i, e in enumerate(s):
                f = entry_fail(e)
                stats["compile_error_entries"] += f == "compile"
                stats["compiler_proper_error_entries"] += entry_late(e)
                stats["runtime_error_entries"] += isinstance(f, tuple)
                has_site = False
                for j, st in enumerate(e["stmts"]):
                    stats["statements"] += 1
                    stats["definitions"] += len(st["decls"])
                    stats["sites_top_level"] += sum(1 for o in st["script"] if o in ("p", "i"))
                    stats["functions_with_sites"] += sum(1 for _, ops in st["funs"] if any(o in ("p", "i") for o in ops))
                    if f != "compile" and not (isinstance(f, tuple) and j > f[1]):
                        has_site = has_site or any(o in ("p", "i") for o in st["script"]) or any(
                            o in ("p", "i") for _, ops in st["funs"] for o in ops)
                        for name, ops in st["funs"]:
                            defined_in[name] = i
                            if any(o in ("p", "i") for o in ops):
                                sited.add(name)
                        for c in st["calls"]:
                            if defined_in.get(c, i) < i:
                                later_calls += 1
                                if c in sited:
                                    later_sited += 1
                                    stats["sited_calls_after_a_failed_entry"] += failed_before
                                    stats["max_entries_between_definition_and_call"] = max(
                                        stats["max_entries_between_definition_and_call"], i - defined_in[c])
                entries_with_sites += has_site
                failed_before = failed_before or f is not None
            object_stats(s, stats)
            stats["calls_into_earlier_entries"] += later_calls
            stats["calls_of_sited_functions_from_later_entries"] += later_sited
            stats["sessions_calling_sited_functions_from_later_entries"] += later_sited > 0
            stats["sessions_sites_in_3_or_more_entries"] += entries_with_sites >= 3
            stats["output_lines"] += cr.get("stdout", "").count("\n")
            ctx.count_case(session_text(s), nontrivial=(later_sited > 0 and any(entry_fail(e) for e in s)) or bool(
                pl and pl["stats"]["receives_after_a_runtime_error_entry_since_the_launch"]))
            if jr and first_any is None:
                first_any = (s, rr, cr, ml, jr)
            # a search is after a session on which the implementation breaks the property: a model/implementation
            # disagreement does not end it (the model may only be behind the code)
            if first is None and jr and (not search or jr[0] == "spec"):
                first = (s, rr, cr, ml, jr)
        if first:
            break
    if first is None:
        first = first_any
    ctx.stream_stat(label, **stats)
    ctx.cov["traces_validated_against_impl"] += stats["sessions"]
    if sessions and not search:
        s = sessions[ncorpus] if len(sessions) > ncorpus else sessions[0]
        ctx.sample({"session": session_text(s).split("\n")[:12], "concatenation": concat_text(s).split("\n")[:12]})
    if first is None:
        return True, None
    s, rr, cr, ml, (kind, msg) = first

    def fails(cand):
        r, c, m = run_sessions([cand], workdir, base=10 ** 6)
        j = judge(cand, r[0], c[0], m[0])
        return j is not None and j[0] == kind

    small = shrink(s, fails)
    r, c, m = run_sessions([small], workdir, base=10 ** 6)
    j2 = judge(small, r[0], c[0], m[0]) or (kind, msg)
    return False, (j2[0], payload(small, r[0], c[0], m[0], j2[0], j2[1], ctx.seed))


def report(ctx, kind, pl, workdir, n):
    if kind == "spec":
        ctx.cov["impl_vs_spec_failures"] += 1
        ctx.violation("sessions_spec", pl)
        return
    ctx.cov["model_vs_impl_disagreements"] += 1
    ok2, found2 = stream_sessions(ctx, 10 * n, workdir, label="search", seed_mul=104729, search=True)
    if not ok2 and found2[0] == "spec":
        found2[1]["found_by"] = "search"
        ctx.violation("sessions_spec", found2[1])
    else:
        pl["broken"] = ("correspondence stream sessions (Model/Repl.lean vs resolver/compiler in repl mode)" if kind == "tie"
                        else "stream sessions: " + kind)
        ctx.violation("sessions_tie", pl, no_input=True)


def _repl_in(cwd, session_file):
    """one session through `vh_repl` with `cwd` as the prompt's root directory (`import self.x` reads x.lay there)"""
    def no_core():
        import resource
        resource.setrlimit(resource.RLIMIT_CORE, (0, 0))      # a witness may abort the process: no core file

    try:
        p = subprocess.run([common.harness_path(bin="vh_repl")], input=session_file + "\n", stdout=subprocess.PIPE,
                           stderr=subprocess.PIPE, text=True, timeout=120, cwd=cwd, preexec_fn=no_core)
    except subprocess.TimeoutExpired:
        return {"status": "TIMEOUT", "stdout": "", "stderr": ""}
    for l in p.stdout.split("\n"):
        if l.strip():
            try:
                return json.loads(l)
            except ValueError:
                break
    return {"status": "CRASH:%s" % p.returncode, "stdout": "", "stderr": p.stderr[-400:]}


def replay_known(ctx):
    """The known findings this check owns (known_findings.jsonl, "owner": "C19"), each a prompt session with a
    control next to it (the same session without the entry that sets the defect up), run with the witness
    directory as the prompt's root:
    DC19.1  `import self.bad;` (bad.lay does not compile) takes a module id without adding an entry to
            `Vm.inline_cache`; the module a later entry imports indexes the vector out of bounds;
    DC19.2  an entry that ends with `Fatal error deadlock.` leaves its main fiber in the channel's waiter list
            with an unsaved ip; a later entry wakes it and it runs off its stack.
    The control must print what it should; the witness either passes (noted), fails the recorded way
    (KNOWN-FINDING) or is reported."""
    for finding in common.load_findings(PROP):
        kid = finding["id"]
        wit = os.path.join(common.VERIF, finding.get("witness", ""))
        kdir = os.path.dirname(wit)
        ctl_file = os.path.join(kdir, "control_session.txt")
        if not (kid.startswith("DC19.") and os.path.exists(wit) and os.path.exists(ctl_file)):
            continue
        exp = finding.get("expect", {})
        want = exp.get("control_stdout", "")
        ctl = _repl_in(kdir, ctl_file)
        rec = _repl_in(kdir, wit)
        key = kid.split("-")[0].replace(".", "_") + "_witness"
        ctx.cov[key] = {"control": [ctl.get("status"), strip_prompts(ctl.get("stdout", ""))],
                        "witness": [str(rec.get("status"))[:120], strip_prompts(rec.get("stdout", "")), rec.get("stderr", "")[-200:]]}
        alive = ("Ok:0", "PANIC:Not enough test lines")
        if strip_prompts(ctl.get("stdout", "")) != want or ctl.get("status") not in alive:
            ctx.violation(key + "_control", {"kind": "implementation-vs-spec", "what": "the control of the %s witness does not print %r"
                                             % (kid, want), "impl": ctl, "session_text": open(ctl_file).read()})
        elif rec.get("status") in alive and strip_prompts(rec.get("stdout", "")) == exp.get("pass_stdout"):
            ctx.cov[key]["note"] = "witness passes (finding no longer reproduces)"
        elif str(rec.get("status", "")).startswith(exp.get("status_prefix", "CRASH")) and exp.get("stderr_contains", "") in rec.get("stderr", ""):
            ctx.known(kid, finding["what"])
        else:
            ctx.violation(key, {"kind": "implementation-vs-spec", "what": "the %s witness neither passes nor fails the known way"
                                % kid, "impl": rec, "session_text": open(wit).read()})


FIXED_WITNESSES = [
    # (directory under known_findings/, session file, what the session must print)
    ("DC19.1-failed-import-skips-cache-entry", "session.txt", "14\n2\n"),
]


def replay_fixed(ctx):
    """Witnesses of repaired findings that need files next to the prompt (so they cannot live in corpus/C19 as session
    texts): each must now print what the same declarations print without the entry that used to set the defect up."""
    for kdir, sess, want in FIXED_WITNESSES:
        d = os.path.join(common.VERIF, "known_findings", kdir)
        if not os.path.exists(os.path.join(d, sess)):
            continue
        rec = _repl_in(d, os.path.join(d, sess))
        got = strip_prompts(rec.get("stdout", ""))
        key = kdir.split("-")[0].replace(".", "_") + "_fixed_witness"
        ctx.cov[key] = [str(rec.get("status"))[:120], got]
        ctx.count_case(("fixed-witness", kdir), nontrivial=True)
        if rec.get("status") not in ("Ok:0", "PANIC:Not enough test lines") or got != want:
            ctx.cov["impl_vs_spec_failures"] += 1
            ctx.violation(key, {"kind": "implementation-vs-spec", "what": "the witness of the repaired finding %s fails again: the session must print %r"
                                % (kdir, want), "impl": rec, "session_text": open(os.path.join(d, sess)).read(), "directory": d})


def run(ctx):
    proved = ctx.prove("LaytheVerif.Props.C19", extra_targets=("drv_repl",))
    ok_c, out_c = common.cargo_build()
    ok_r, out_r = common.cargo_build(bin="vh_repl")
    if not (ok_c and ok_r):
        ctx.violation("harness_build", {"kind": "harness-build-failed", "broken": "cargo build of /verif/harness against /repo",
                                        "output": (out_c + out_r)[-3000:]}, no_input=True)
        return
    workdir = os.path.join(common.VERIF, "work", "c19_%d" % os.getpid())
    os.makedirs(workdir, exist_ok=True)
    ctx.cov["rule"] = ("random REPL sessions of 3-15 entries (1-3 statements each): number lets, assignments, plain functions (calling "
                       "earlier functions, reading earlier lets), classes with methods, classes with init/fields (two field layouts), "
                       "instances, lists, top-level property / method / index / for sites on earlier objects; functions, methods, "
                       "closure makers and stored closures that contain inline-cache sites (get / set / invoke / call-with-argument / "
                       "index / for-in), defined by one entry and called with receivers of different classes from later entries, "
                       "directly, two per statement, and through later-defined wrapper functions (60% of the sessions are biased "
                       "towards these); ~22% erroneous entries (syntax error, undeclared name, re-declaration, rejected by the "
                       "compiler proper after its sites were numbered, runtime error after a prefix that ran, runtime error inside "
                       "an earlier sited function, half-declared let, re-declaring Object).  Parent-less classes in the entry "
                       "that first mentions Object (GetModSym of the new slot), in later entries and in sessions declaring "
                       "their own Object (LoadGlobal), inside functions, under a parameter called Object, explicit `: Object` "
                       "(15% of the sessions are biased towards these).  40% of the sessions (independently) start with channels "
                       "(synchronous, capacity 1-3), pure functions, an accumulator class and worker functions (producers of 1-4 "
                       "values, transformers and splitters that receive, compute with earlier entries' functions / their "
                       "accumulator — property sites inside the fiber — and send) in entries of their own, then mix `launch`, "
                       "sends to and receives from the fibers with all of the above and ~30% erroneous entries: fibers stay "
                       "queued or parked across any number of entries; every script operation is tried on the Kahn network "
                       "first so no script blocks for ever; one sender and one receiver per channel, so the received values are "
                       "schedule independent.  non-trivial = some entry calls a function with an inline-cache site defined by "
                       "an earlier entry and some entry fails, or a script receives from a fiber launched before an entry that "
                       "raised; distinct by session text")
    try:
        n = ctx.n(3000, 30000)
        if not proved:
            what, detail = ctx.broken
            ok, found = stream_sessions(ctx, 5 * n, workdir, label="search", seed_mul=104729, search=True)
            if not ok and found[0] == "spec":
                found[1]["broken_obligation"] = what
                found[1]["found_by"] = "search"
                ctx.violation("sessions_spec", found[1])
            else:
                ctx.violation("proof", {"kind": "proof-obligation-failed", "broken": what, "detail": detail}, no_input=True)
            if not os.path.exists(DRV):
                return
        ok, found = stream_sessions(ctx, n, workdir)
        if not ok:
            report(ctx, found[0], found[1], workdir, n)
        replay_known(ctx)
        replay_fixed(ctx)
    finally:
        shutil.rmtree(workdir, ignore_errors=True)
    ctx.assumptions += [
        "the REPL compile model (Model/Repl.lean) is hand-written from resolver.rs / compiler/mod.rs / source_loader.rs; agreement on slots and cache sites is checked on the sessions stream, not proved",
        "the Spec is the implementation's own `run` on the concatenation (DESIGN.md §5 C19); that `run` itself is right is the subject of C01-C04",
        "cache ids are tied to the code by reading them back from the encoded bytes of the compile log (instruction lengths parsed from SymbolicByteCode::len); the LENGTHS of the module's cache vectors are not observable through a hook: that ids stay below them is observed only as the absence of the debug assertion in cache.rs (the harness is built with debug assertions) and proved on the model (C19_cache_slots_in_range)",
        "that a slot keeps its cached state across entries (InlineCache::grow keeps the prefix) is not modelled; it is exercised by calling the same site with receivers of alternating classes from different entries",
        "entries are single lines; `Vm::repl` reads one line per entry",
        "fibers: the scheduler half of the model (Model/ReplFibers.lean over Model/Sched.lean) is tied to the code by the sessions "
        "stream (per entry: how execute ended, what the script received) and by the translated table of every use of "
        "`fiber_queue` and of the members of self named by repl / interpret / prepare (Gen/ReplLoop.lean, [G] lemmas in "
        "Props/C19); the run queue itself is not observable through a hook — its length after each entry is the model's "
        "(evidence counters), checked only through what later entries receive",
        "fiber sessions are Kahn networks (one sending and one receiving process per channel, no close, workers print nothing): "
        "that the received values are schedule independent is the classical determinacy argument, not proved here; sessions "
        "on which the exact scheduler model reports a known scheduler finding (owner C08) are generated but not judged",
        "a fiber parked on a channel across entries is kept alive only through the channel's waiter list; collections in "
        "between are not forced by this check (default thresholds: none happen in sessions this small)",
    ]


def replay(path):
    r = json.load(open(path))
    s = r["session"]
    exp = r.get("expected_stdout")
    common.cargo_build()
    common.cargo_build(bin="vh_repl")
    common.lake_build(["drv_repl"])
    workdir = os.path.join(common.VERIF, "work", "c19_replay_%d" % os.getpid())
    try:
        rr, cr, ml = run_sessions([s], workdir)
        j = judge(s, rr[0], cr[0], ml[0], exp)
    finally:
        shutil.rmtree(workdir, ignore_errors=True)
    print("session:\n" + session_text(s))
    print("repl  :", rr[0].get("status"), repr(strip_prompts(rr[0].get("stdout", ""))))
    print("file  :", cr[0].get("status"), repr(cr[0].get("stdout")))
    print("model :", ml[0][0])
    if ml[0][1] is not None:
        print("scheduler model, as one module:", ml[0][1])
        print("the network determines that the scripts receive:", (fibers.plan(s, entry_fail) or {}).get("expect"))
    print("impl  :", impl_entry_lines(rr[0], s))
    print("verdict:", j)
    return 1 if j else 0
