"""C01 — expressions, operators and control flow evaluate per the source semantics.  DESIGN.md §5 C01.

Streams
  a  `layref` (Lean reference interpreter = Spec) vs the real VM on generated programs over the core grammar:
     operand-kind matrix (13x13 kinds x 12 binary operators + 2 unary, caught and uncaught), random programs
     (depth <= 6), every AST in all four positions (module, function, method, lambda) and >= 3 layouts each.
  b  operator-fragment expressions: the Pratt model (generated tables) must parse the rendered text back to the AST
     (model vs generator), and `Lower.expr` of that parse must equal the compiler's pre-optimiser stream (`vharness dump`):
     model-vs-implementation for parser + lowering at once; the same expressions are judged against the Spec by stream a
     machinery (value printed by the VM vs LayRef).
"""
import json
import os
import random
import shutil
import tempfile
import time

from .. import common
from .. import layref as L
from .. import c01gen as G

PROP = "C01"
LEVEL = "proof"
STEPS = 2000000


# ---------------------------------------------------------------------------------------------
# stream a

def make_case(seed, k, cells, ncells):
    """AST number k of a run: (body, meta).  Even k: matrix flavour, odd k: random flavour."""
    rng = random.Random(seed * 1000003 + k * 7919 + 1)
    gen = G.ProgGen(rng)
    body = []
    meta = {"k": k, "flavour": "matrix" if k % 2 == 0 else "random"}
    if k % 2 == 0:
        body += G.prelude()
        start = (k // 2) * ncells
        mine = [cells[(start + j) % len(cells)] for j in range(ncells)]
        meta["cells"] = ["%s:%s:%s" % c for c in mine]
        for j, c in enumerate(mine):
            body.append(G.matrix_stmt(c, rng, caught=True, nested=rng.random() < 0.3))
        body += gen.body(rng.randint(1, 4))
        if rng.random() < 0.5:
            # leave one error uncaught: compares the class and message reported on stderr
            body.append(G.matrix_stmt(rng.choice(cells), rng, caught=False))
    else:
        body += gen.body(rng.randint(4, 10), final_wrong=rng.random() < 0.15)
    meta["stats"] = gen.stats
    return body, meta


def render_variants(body, seed, k, nlayouts=3):
    """[(position, layout, program_ast, source)] — 4 positions x nlayouts layouts"""
    out = []
    rng = random.Random(seed * 7 + k * 104729 + 3)
    for pos in G.POSITIONS:
        prog = G.wrap(body, pos)
        layouts = [("min", "compact")] + rng.sample(L.LAYOUTS[1:], nlayouts - 1)
        for lay in layouts:
            out.append((pos, lay, prog, L.to_laythe(prog, rng, lay[0], lay[1])))
    return out


def judge(variants, workdir):
    """Run Spec and implementation.  Returns list of (variant, spec_rec, impl_rec, verdict)."""
    progs = []
    index = {}
    for v in variants:
        key = id(v[2])
        if key not in index:
            index[key] = len(progs)
            progs.append(v[2])
    spec = L.run_layref(progs)
    impl = L.run_impl([v[3] for v in variants], workdir, steps=STEPS)
    res = []
    for v, ir in zip(variants, impl):
        sr = spec[index[id(v[2])]]
        res.append((v, sr, ir, L.compare(sr, ir)))
    return res


def still_fails(prog, src_layout, seed):
    """re-render + re-run one program; True if implementation and Spec still disagree (conclusively)"""
    rng = random.Random(seed)
    src = L.to_laythe(prog, rng, src_layout[0], src_layout[1])
    d = tempfile.mkdtemp(prefix="c01s_")
    try:
        sr = L.run_layref([prog], jobs=1)[0]
        ir = L.run_impl([src], d, steps=STEPS, jobs=1)[0]
    finally:
        shutil.rmtree(d, ignore_errors=True)
    v = L.compare(sr, ir)
    return (v is not None and not v.startswith("inconclusive")), src, sr, ir, v


def _stmt_lists(s):
    """(getter, setter) pairs for every statement list directly inside statement `s`; setter returns a new statement"""
    out = []
    if not isinstance(s, tuple):
        return out
    k = s[0]
    if k == "if":
        out.append((s[2], lambda b, s=s: ("if", s[1], b, s[3])))
        if s[3] is not None:
            out.append((s[3], lambda b, s=s: ("if", s[1], s[2], b if b else None)))
    elif k == "while":
        out.append((s[2], lambda b, s=s: ("while", s[1], b)))
    elif k == "for":
        out.append((s[3], lambda b, s=s: ("for", s[1], s[2], b)))
    elif k == "fn":
        out.append((s[3], lambda b, s=s: ("fn", s[1], s[2], b)))
    elif k == "try":
        out.append((s[1], lambda b, s=s: ("try", b, s[2])))
        for ci, (x, c, cb) in enumerate(s[2]):
            out.append((cb, lambda b, s=s, ci=ci: ("try", s[1], [cl if j != ci else (cl[0], cl[1], b) for j, cl in enumerate(s[2])])))
    elif k == "class":
        _, name, sup, init, methods, statics = s
        if init is not None:
            out.append((init[1], lambda b, s=s: ("class", s[1], s[2], (s[3][0], b), s[4], s[5])))
        for mi, m in enumerate(methods):
            out.append((m[2], lambda b, s=s, mi=mi: ("class", s[1], s[2], s[3], [mm if j != mi else (mm[0], mm[1], b) for j, mm in enumerate(s[4])], s[5])))
    elif k == "let" and s[2] is not None and isinstance(s[2], tuple) and s[2][0] == "lambda" and s[2][2][0] == "block":
        out.append((s[2][2][1], lambda b, s=s: ("let", s[1], ("lambda", s[2][1], ("block", b)))))
    return out


def _variants(body):
    """smaller candidate bodies, most aggressive first"""
    n = len(body)
    for i in range(n - 1, -1, -1):
        yield body[:i] + body[i + 1:]
    for i, s in enumerate(body):
        if isinstance(s, tuple):
            # structural simplifications of one statement
            if s[0] == "try" and len(s[2]) > 1:
                for ci in range(len(s[2])):
                    yield body[:i] + [("try", s[1], s[2][:ci] + s[2][ci + 1:])] + body[i + 1:]
            if s[0] == "class":
                _, name, sup, init, methods, statics = s
                if init is not None:
                    yield body[:i] + [("class", name, sup, None, methods, statics)] + body[i + 1:]
                for mi in range(len(methods)):
                    yield body[:i] + [("class", name, sup, init, methods[:mi] + methods[mi + 1:], statics)] + body[i + 1:]
                if statics:
                    yield body[:i] + [("class", name, sup, init, methods, [])] + body[i + 1:]
            if s[0] in ("if", "while", "for", "try"):
                inner = {"if": lambda s: [s[2]] + ([s[3]] if s[3] else []), "while": lambda s: [s[2]],
                         "for": lambda s: [s[3]], "try": lambda s: [s[1]]}[s[0]](s)
                for blk in inner:
                    yield body[:i] + list(blk) + body[i + 1:]
            if s[0] == "expr" and isinstance(s[1], tuple) and s[1][0] == "call" and s[1][1] == ("var", "print") and len(s[1][2]) > 1:
                for ai in range(len(s[1][2])):
                    yield body[:i] + [("expr", ("call", s[1][1], s[1][2][:ai] + s[1][2][ai + 1:]))] + body[i + 1:]
            for sub, rebuild in _stmt_lists(s):
                for cand in _variants(list(sub)):
                    yield body[:i] + [rebuild(cand)] + body[i + 1:]


def shrink_body(body, pos, layout, seed, budget=120):
    """greedy delta-debugging over the statement tree (delete statements at any depth, drop catch clauses, class members,
    print arguments, unwrap compound statements); a candidate counts only if the implementation fails in the same way
    (same status class, and for completed runs the same kind of disagreement) as on the original"""
    t0 = time.time()
    def sig(r):
        # (kind of disagreement, Spec status, implementation status class): keeps the reduction on the same failure
        return ((r[4] or "").split(":")[0], r[2].get("status"), r[3].get("status", "").split(":")[0])
    orig = still_fails(G.wrap(body, pos), layout, seed)
    want = sig(orig)

    def fails(b):
        try:
            r = still_fails(G.wrap(b, pos), layout, seed)
            return r[0] and sig(r) == want
        except Exception:
            return False
    progress = True
    while progress and time.time() - t0 < budget:
        progress = False
        for cand in _variants(body):
            if time.time() - t0 >= budget:
                break
            if fails(cand):
                body = cand
                progress = True
                break
    return body


def stream_a(ctx, n_programs):
    seed = ctx.seed
    cells = G.matrix_cells()
    per_ast = 12
    n_asts = max(2, n_programs // per_ast)
    # enough matrix programs to cover every cell at least once per run
    n_matrix = (n_asts + 1) // 2
    ncells = max(8, -(-len(cells) // n_matrix))
    work = tempfile.mkdtemp(prefix="c01a_")
    totals = {"asts": 0, "programs": 0, "agree": 0, "inconclusive": 0, "spec_errors": 0, "impl_compile_errors": 0,
              "runtime_error_outcomes": 0, "cells_covered": 0, "unreproducible_mismatches": 0}
    constructs = {}
    covered = set()
    first_bad = None
    try:
        batch = 40
        for b0 in range(0, n_asts, batch):
            variants = []
            metas = {}
            for k in range(b0, min(n_asts, b0 + batch)):
                body, meta = make_case(seed, k, cells, ncells)
                for c in meta.get("cells", []):
                    covered.add(c)
                for kk, vv in meta["stats"].items():
                    constructs[kk] = constructs.get(kk, 0) + vv
                vs = render_variants(body, seed, k)
                for v in vs:
                    metas[id(v)] = (k, body)
                variants += vs
                totals["asts"] += 1
            res = judge(variants, work)
            for v, sr, ir, verdict in res:
                totals["programs"] += 1
                k, body = metas[id(v)]
                nontrivial = sr["status"] != "ok" or len(sr.get("stdout", "")) > 0
                ctx.count_case(L.to_sexp(v[2]), nontrivial)
                if sr["status"].startswith("runtime-error"):
                    totals["runtime_error_outcomes"] += 1
                if verdict is None:
                    totals["agree"] += 1
                elif verdict.startswith("inconclusive"):
                    totals["inconclusive"] += 1
                    if sr["status"] in ("unsupported", "bad-input", "driver-crash"):
                        totals["spec_errors"] += 1
                        ctx.stream_stat("a_layref_vs_vm", last_spec_error="%s %s (k=%d)" % (sr["status"], sr["message"], k))
                else:
                    if ir.get("status", "").startswith("CompileError"):
                        totals["impl_compile_errors"] += 1
                    if first_bad is None:
                        # confirm on the very same text (a mismatch that does not repeat is recorded, not reported)
                        again = [L.compare(sr, r2) for r2 in L.run_impl([v[3]] * 2, os.path.join(work, "confirm"), steps=STEPS, jobs=1)]
                        if any(a is not None and not a.startswith("inconclusive") for a in again):
                            first_bad = (v, sr, ir, verdict, k, body)
                        else:
                            totals["unreproducible_mismatches"] += 1
                            ctx.stream_stat("a_layref_vs_vm", last_unreproducible={"k": k, "position": v[0], "verdict": verdict,
                                                                                   "source": v[3][:2000]})
            if first_bad is not None:
                break
            if b0 == 0 and res:
                v, sr, ir, _ = res[0]
                ctx.sample({"position": v[0], "layout": list(v[1]), "source": v[3][:600], "spec": sr["status"],
                            "stdout": sr["stdout"][:300]})
    finally:
        shutil.rmtree(work, ignore_errors=True)
    totals["cells_covered"] = len(covered)
    totals["cells_total"] = len(cells)
    ctx.stream_stat("a_layref_vs_vm", constructs=constructs, **totals)
    ctx.cov["traces_validated_against_impl"] += totals["programs"]
    if first_bad is not None:
        v, sr, ir, verdict, k, body = first_bad
        pos, lay = v[0], v[1]
        ctx.cov["impl_vs_spec_failures"] += 1
        sseed = seed * 31 + k
        fails, src, sr2, ir2, v2 = still_fails(G.wrap(body, pos), lay, sseed)
        small = body
        if fails:
            small = shrink_body(list(body), pos, lay, sseed)
            fails, src, sr2, ir2, v2 = still_fails(G.wrap(small, pos), lay, sseed)
        if not fails:
            src, sr2, ir2, v2 = v[3], sr, ir, verdict
            prog = v[2]
        else:
            prog = G.wrap(small, pos)
        ctx.violation("a_spec", {"kind": "implementation-vs-spec", "engine": "layref",
                                 "what": "the VM's observable behaviour differs from the reference interpreter: " + str(v2),
                                 "position": pos, "layout": list(lay), "source": src, "sexp": L.to_sexp(prog),
                                 "spec": sr2, "impl": {k_: ir2.get(k_) for k_ in ("status", "stdout", "stderr")},
                                 "seed": seed, "ast_index": k})
        return False
    if totals["spec_errors"] > max(3, totals["programs"] // 50):
        ctx.violation("a_oracle", {"kind": "oracle-out-of-range", "broken": "stream a: generator produced programs outside LayRef's support",
                                   "stats": totals}, no_input=True)
        return False
    return True



# ---------------------------------------------------------------------------------------------
# stream b: operator fragment — Pratt model, lowering model, fragment evaluator vs the real front end and VM

FRAG_PARAMS = ["a", "b", "c", "d"]
FRAG_OPS = ["+", "-", "*", "/", "<", "<=", ">", ">=", "==", "!="]


def frag_expr(rng, depth):
    """operator-fragment AST: ('num', text) | ('var', x) | 'true' | 'false' | 'nil' | ('not'|'neg', e) | (op, a, b) |
    ('and'|'or', a, b) | ('tern', c, t, e) | ('set'|'set+'.., ('var', x), e)"""
    c = rng.random()
    if depth <= 0 or c < 0.18:
        c = rng.random()
        if c < 0.45:
            return ("var", rng.choice(FRAG_PARAMS))
        if c < 0.8:
            return ("num", rng.choice(["0", "1", "2", "3", "7", "10", "2.5", "0.5", "0.25", "100", "2.0", "12345", "1.75"]))
        return rng.choice(["true", "false", "nil"])
    d = depth - 1
    if c < 0.58:
        return (rng.choice(FRAG_OPS), frag_expr(rng, d), frag_expr(rng, d))
    if c < 0.68:
        return (rng.choice(["and", "or"]), frag_expr(rng, d), frag_expr(rng, d))
    if c < 0.78:
        return (rng.choice(["not", "neg"]), frag_expr(rng, d))
    if c < 0.88:
        return ("tern", frag_expr(rng, d), frag_expr(rng, d), frag_expr(rng, d))
    return (rng.choice(["set", "set+", "set-", "set*", "set/"]), ("var", rng.choice(FRAG_PARAMS)), frag_expr(rng, d))


def frag_sexp(e):
    if isinstance(e, str):
        return e
    if e[0] in ("num", "var"):
        return "(%s %s)" % e
    return "(%s)" % " ".join([e[0]] + [frag_sexp(x) for x in e[1:]])


def frag_prec(e):
    if isinstance(e, str) or e[0] in ("num", "var"):
        return L.P_PRIMARY
    k = e[0]
    if k in L.BIN_PREC:
        return L.BIN_PREC[k]
    return {"and": L.P_AND, "or": L.P_OR, "tern": L.P_TERNARY, "not": L.P_UNARY, "neg": L.P_UNARY}.get(k, L.P_ASSIGN)


def frag_tokens(e, rng, minp=L.P_ASSIGN, extra=0.0):
    """token list of a rendering with at least the required parentheses (and random redundant ones)"""
    p = frag_prec(e)
    if isinstance(e, str):
        toks = [e]
    elif e[0] in ("num", "var"):
        toks = [e[1]]
    elif e[0] in L.BIN_PREC:
        toks = frag_tokens(e[1], rng, p, extra) + [e[0]] + frag_tokens(e[2], rng, p + 1, extra)
    elif e[0] in ("and", "or"):
        toks = frag_tokens(e[1], rng, p + 1, extra) + ["&&" if e[0] == "and" else "||"] + frag_tokens(e[2], rng, p, extra)
    elif e[0] in ("not", "neg"):
        toks = ["!" if e[0] == "not" else "-"] + frag_tokens(e[1], rng, L.P_UNARY, extra)
    elif e[0] == "tern":
        toks = (frag_tokens(e[1], rng, L.P_OR, extra) + ["?"] + frag_tokens(e[2], rng, L.P_ASSIGN, extra) + [":"]
                + frag_tokens(e[3], rng, L.P_ASSIGN, extra))
    else:
        toks = [e[1][1], L.SETOPS[e[0]]] + frag_tokens(e[2], rng, L.P_ASSIGN, extra)
    if p < minp or (extra and rng.random() < extra):
        toks = ["("] + toks + [")"]
    return toks


FRAG_ARGS = [("n", 1.0), ("n", 2.0), ("n", 3.0), ("n", 4.0), ("n", 0.0), ("n", -2.5), ("n", 0.5), ("n", 1e15), ("nil",), ("true",),
             ("false",), ("s", "ab"), ("s", "b"), ("s", "")]


def frag_arg_text(a):
    if a[0] == "n":
        return str(L.float_bits(a[1])), L.fmt_num(abs(a[1])) if a[1] >= 0 else "-" + L.fmt_num(-a[1])
    if a[0] == "s":
        return "s:" + a[1], "'%s'" % a[1]
    return a[0], a[0]


def stream_b(ctx, n):
    rng = random.Random(ctx.seed * 9176 + 5)
    work = tempfile.mkdtemp(prefix="c01b_")
    cases = []
    for i in range(n):
        e = frag_expr(rng, rng.randint(1, 6))
        extra = rng.choice([0.0, 0.0, 0.15, 0.4])
        toks = frag_tokens(e, rng, L.P_ASSIGN, extra)
        args = [rng.choice(FRAG_ARGS[:8]) if rng.random() < 0.7 else rng.choice(FRAG_ARGS) for _ in FRAG_PARAMS]
        cases.append((e, toks, args))
    try:
        lines, srcs, files = [], [], []
        for i, (e, toks, args) in enumerate(cases):
            at = [frag_arg_text(a) for a in args]
            lines.append("%s#%s#%s" % (",".join(FRAG_PARAMS), ",".join(x[0] for x in at), " ".join(toks)))
            text = " ".join(toks)
            src = "fn f(%s) { return %s; }\nprint(f(%s));\n" % (", ".join(FRAG_PARAMS), text, ", ".join(x[1] for x in at))
            srcs.append(src)
        rc, mo, err = common.run_lines([common.DRIVER, "c01frag"], lines)
        impl = L.run_impl(srcs, work, steps=STEPS)
        files = [os.path.join(work, "p%d.lay" % i) for i in range(len(srcs))]
        from . import c12
        funs, _ = c12.dump_functions(files)
        pre = {}
        for f in funs:
            if f["head"].startswith('FUN name="f"'):
                pre[f["file"]] = c12.strip_lines(f.get("PRE", ""))
    finally:
        shutil.rmtree(work, ignore_errors=True)
    stats = {"cases": len(cases), "parse_agree": 0, "lower_agree": 0, "value_agree": 0, "errors": 0}
    tie_bad = spec_bad = None
    for i, (e, toks, args) in enumerate(cases):
        out = mo[i] if i < len(mo) else "<missing>"
        parts = out.split("#")
        want = frag_sexp(e)
        ctx.count_case(lines[i], True)
        if len(parts) != 5:
            tie_bad = tie_bad or (i, "model answered %r" % out)
            continue
        sexp, code, spec, mach, wf = parts
        if wf != "wf=1":
            tie_bad = tie_bad or (i, "the parse of the rendering is not admissible (Pratt.wf) or does not re-parse to itself")
        if sexp == want:
            stats["parse_agree"] += 1
        else:
            tie_bad = tie_bad or (i, "Pratt model parses the rendering to %s, the generator rendered %s" % (sexp, want))
        real = pre.get(files[i])
        if real is not None and real.endswith(";Return;Nil;Return"):
            real = real[:-len(";Return;Nil;Return")]
        if real == code:
            stats["lower_agree"] += 1
        else:
            tie_bad = tie_bad or (i, "Lower.expr gives %s, the compiler emitted %s" % (code, real))
        if spec != mach:
            tie_bad = tie_bad or (i, "Machine.exec of the lowered code gives %s, Lower.eval gives %s" % (mach, spec))
        io = L.impl_outcome(impl[i])
        if spec.startswith("ok "):
            good = io[0] == "ok" and io[2] == spec[3:] + "\n"
        else:
            stats["errors"] += 1
            good = io[0].startswith("runtime-error") and ("error %s: %s" % (io[0].split(":", 1)[1], io[1])) == spec
        if good:
            stats["value_agree"] += 1
        else:
            spec_bad = spec_bad or (i, "the VM gives %r, the fragment evaluator %r" % (io, spec))
    ctx.stream_stat("b_fragment", **stats)
    ctx.cov["traces_validated_against_impl"] += len(cases)
    if cases:
        ctx.sample({"fragment": " ".join(cases[0][1]), "model": mo[0] if mo else None})
    if spec_bad is not None:
        i, msg = spec_bad
        ctx.cov["impl_vs_spec_failures"] += 1
        ctx.violation("b_spec", {"kind": "implementation-vs-spec", "engine": "c01frag", "what": msg, "source": srcs[i],
                                 "request": lines[i], "model": mo[i] if i < len(mo) else None, "seed": ctx.seed})
        return False, True
    if tie_bad is not None:
        i, msg = tie_bad
        ctx.cov["model_vs_impl_disagreements"] += 1
        return False, {"kind": "model-vs-implementation", "engine": "c01frag", "broken": "stream b (PrattParser/Lower vs parser.rs/compiler)",
                       "what": msg, "source": srcs[i], "request": lines[i], "model": mo[i] if i < len(mo) else None}
    return True, None


# ---------------------------------------------------------------------------------------------
# corpus (minimised past failures of the implementation or of the oracle), run first

def run_corpus(ctx):
    d = os.path.join(common.VERIF, "corpus", PROP)
    if not os.path.isdir(d):
        return True
    cases = [json.load(open(os.path.join(d, f))) for f in sorted(os.listdir(d)) if f.endswith(".json")]
    if not cases:
        return True
    work = tempfile.mkdtemp(prefix="c01c_")
    try:
        spec = L.run_layref([c["sexp"] for c in cases])
        impl = L.run_impl([c["source"] for c in cases], work, steps=STEPS)
    finally:
        shutil.rmtree(work, ignore_errors=True)
    ctx.stream_stat("corpus", cases=len(cases))
    for c, sr, ir in zip(cases, spec, impl):
        v = L.compare(sr, ir)
        ctx.count_case(c["sexp"], True)
        if v is not None:
            ctx.cov["impl_vs_spec_failures"] += 1
            ctx.violation("corpus", {"kind": "implementation-vs-spec", "engine": "layref", "what": "corpus case %s: %s" % (c.get("name"), v),
                                     "source": c["source"], "sexp": c["sexp"], "spec": sr,
                                     "impl": {k_: ir.get(k_) for k_ in ("status", "stdout", "stderr")}})
            return False
    return True


# ---------------------------------------------------------------------------------------------
# known findings

def replay_known(ctx):
    """re-run the committed witnesses of the known findings of this property; `<witness>.expected.json` holds the Spec's
    outcome ({"status", "stdout"}); a finding is still open while any of its witnesses deviates"""
    for f in common.load_findings(PROP):
        if f.get("status") != "known":
            continue
        open_ = False
        seen = 0
        for w in [f["witness"]] + list(f.get("more_witnesses", [])):
            src = os.path.join(common.VERIF, w)
            exp = src + ".expected.json"
            if not (os.path.exists(src) and os.path.exists(exp)):
                continue
            seen += 1
            want = json.load(open(exp))
            rec = common.run_batch(["--steps %d %s" % (STEPS, src)], jobs=1)[0]
            got = L.impl_outcome(rec)
            if got[0] != want["status"] or got[2] != want["stdout"]:
                open_ = True
        if not seen:
            continue
        if open_:
            ctx.known(f["id"], f["what"][:160])
        else:
            ctx.cov.setdefault("known_findings_no_longer_failing", []).append(f["id"])


def run(ctx):
    proved = ctx.prove("LaytheVerif.Props.C01", extra_targets=("drv_layref", "driver"))
    ok_c, out_c = common.cargo_build()
    if not ok_c:
        ctx.violation("harness_build", {"kind": "harness-build-failed", "broken": "cargo build of /verif/harness against /repo",
                                        "output": out_c[-3000:]}, no_input=True)
        return
    ctx.cov["rule"] = ("programs = (AST, position, layout); distinct by S-expression of the positioned AST; non-trivial = prints "
                       "something or ends in a runtime error; the operand-kind matrix (13x13 kinds, 12 binary + 2 unary operators) "
                       "is covered completely in every run")
    n = ctx.n(6000, 120000)
    ok_a = run_corpus(ctx) and stream_a(ctx, n)
    if ok_a:
        ok_b, tie = stream_b(ctx, ctx.n(3000, 60000))
        if not ok_b and tie is not True and tie is not None:
            # a tie failure: search (Spec-judged, bigger budget) for a concrete failing input before reporting
            ctx.seed += 7
            ok_s = stream_a(ctx, ctx.n(6000, 20000))
            ok_s2, tie2 = (stream_b(ctx, ctx.n(6000, 40000)) if ok_s else (True, None))
            ctx.seed -= 7
            if ok_s and tie2 is not True:
                ctx.violation("b_tie", tie, no_input=True)
    if not proved:
        what, detail = ctx.broken
        if ok_a:
            # search: ten times the quick budget, Spec-judged
            ctx.seed += 1
            ok_s = stream_a(ctx, 12000 if ctx.quick() else n)
            ctx.seed -= 1
            if ok_s:
                ctx.violation("proof", {"kind": "proof-obligation-failed", "broken": what, "detail": detail}, no_input=True)
    replay_known(ctx)
    ctx.assumptions += [
        "LayRef (lean/LaytheVerif/Model/LayRef) is the executable Spec of the source semantics; it is hand-written from README/laythe.bnf and the observable behaviour of the pinned build, and is not itself the subject of a theorem",
        "IEEE-754 binary64 arithmetic is identical in Rust f64 and Lean Float; number printing is an exact shortest-round-trip algorithm on the bit pattern",
        "generated programs stay clear of the signatures of D1, D2 (break/continue with live loop locals; try after a ternary), D3, D9, D20, D25",
    ]


def replay(path):
    r = json.load(open(path))
    common.cargo_build()
    common.lake_build(["drv_layref"])
    if "sexp" not in r:
        print("nothing to replay:", r.get("kind"))
        return 1
    d = tempfile.mkdtemp(prefix="c01r_")
    try:
        sr = L.run_layref([r["sexp"]], jobs=1)[0]
        ir = L.run_impl([r["source"]], d, steps=STEPS, jobs=1)[0]
    finally:
        shutil.rmtree(d, ignore_errors=True)
    v = L.compare(sr, ir)
    print(r["source"])
    print("spec:", sr)
    print("impl:", {k: ir.get(k) for k in ("status", "stdout", "stderr")})
    print("verdict:", v)
    return 1 if (v is not None and not v.startswith("inconclusive")) else 0
