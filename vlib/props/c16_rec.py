"""C16 helper — the `rec` stream: unbounded recursion through natives, caught at every level, then normal continuation.

A program of this stream is a term over a tiny statement language — the one `Model/RecFrames.lean` interprets:

    ("rec",)                     call of the recursive function `f`
    ("pad", body)                call of a Laythe function with this body (one frame): shifts the alignment of the limit
    ("nat", kind, body)          a native of KINDS whose callback runs `body` (stub frame or not: the kind's model says)
    ("try", body, handler)       try { body } catch e: Error { k = k + 1; handler }
    ("seq", a, b, ...)  ("skip",)

`render` writes the Laythe source, `model` the same term in the prefix notation of `drv_sig rec`; every Laythe function,
lambda, method of the program starts with `d = d + 1;` (the model's `calls`), every catch block with `k = k + 1;` (`caught`).
The body of `f` contains at most one `rec` and no native that runs its callback twice (the recursion stays linear).
"""

# ---------------------------------------------------------------------------------------------
# the natives that run user code: how to reach each one with a callback whose body is given, and what the model makes of it
#
# name: (natives of the regenerated table the recipe goes through, times the callback runs, statement template, model template)
#   template fields: {CB} = the callback's statements (starts with the counter), {I} = a fresh number
#   hoisted `defs` (classes / functions, emitted in front of `f`) and `lets` (objects built once by the script, before the
#   first statement of the program proper) use the same fields
KINDS = {
    # stack-using natives that call back inside their stub frame
    "each":        (["IterEach"], 1, "[0].iter().each(|x| { {CB} });", "nat call {B}", [], []),
    "reduce":      (["IterReduce"], 1, "[0].iter().reduce(0, |a, x| { {CB} return a; });", "nat call {B}", [], []),
    "all":         (["IterAll"], 1, "[0].iter().all(|x| { {CB} return true; });", "nat call {B}", [], []),
    "any":         (["IterAny"], 1, "[0].iter().any(|x| { {CB} return false; });", "nat call {B}", [], []),
    "into":        (["IterInto"], 1, "[0].iter().into(|it| { {CB} return 0; });", "nat call {B}", [], []),
    "sort":        (["ListSort"], 1, "[0, 0].sort(|a, b| { {CB} return 0; });", "nat call {B}", [], []),
    "fun_call":    (["FunCall"], 1, "g{I}.call();", "nat call {B}", ["fn g{I}() { {CB} }"], []),
    "closure_call": (["ClosureCall"], 1, "c{I}.call();", "nat call {B}",
                     ["fn mk{I}() { let cap = 0; return || { let q = cap; {CB} }; }"], ["let c{I} = mk{I}();"]),
    "method_call": (["MethodCall"], 1, "m{I}.call();", "nat call {B}", ["class M{I} { m() { {CB} } }"], ["let m{I} = M{I}().m;"]),
    "native_call": (["NativeCall", "Print"], 1, "print.call(S{I}());", "nat nat call {B}",
                    ["class S{I} { str() { {CB} return \"s\"; } }"], []),
    "print":       (["Print"], 1, "print(S{I}());", "nat call {B}", ["class S{I} { str() { {CB} return \"s\"; } }"], []),
    "list_str":    (["ListStr"], 1, "[S{I}()].str();", "nat call {B}", ["class S{I} { str() { {CB} return \"s\"; } }"], []),
    "map_str":     (["MapStr"], 1, "({1: S{I}()}).str();", "nat call {B}", ["class S{I} { str() { {CB} return \"s\"; } }"], []),
    "tuple_str":   (["TupleStr"], 1, "(S{I}(), 1).str();", "nat call {B}", ["class S{I} { str() { {CB} return \"s\"; } }"], []),
    "assert_eq":   (["AssertEq"], 1, "try { assertEq(S{I}(), 0); } catch e: AssertError { }", "nat call {B}",
                    ["class S{I} { str() { {CB} return \"s\"; } }"], []),
    "assert_ne":   (["AssertNe"], 2, "try { assertNe(o{I}, o{I}); } catch e: AssertError { }", "nat seq call {B} call {B}",
                    ["class S{I} { str() { {CB} return \"s\"; } }"], ["let o{I} = S{I}();"]),
    # stack-using natives that only build a lazy iterator (stub frame pushed and popped), driven by a stack-less native
    "map_list":    (["IterMap", "IterToList"], 1, "[0].iter().map(|x| { {CB} return x; }).list();", "seq nat skip sl call {B}", [], []),
    "map_first":   (["IterMap", "IterFirst"], 1, "[0].iter().map(|x| { {CB} return x; }).first();", "seq nat skip sl call {B}", [], []),
    "map_last":    (["IterMap", "IterLast"], 1, "[0].iter().map(|x| { {CB} return x; }).last();", "seq nat skip sl call {B}", [], []),
    "filter_len":  (["IterFilter", "IterLen"], 1, "[0].iter().filter(|x| { {CB} return true; }).len();", "seq nat skip sl call {B}", [], []),
    "map_next":    (["IterMap", "IterNext"], 1, "[0].iter().map(|x| { {CB} return x; }).next();", "seq nat skip sl call {B}", [], []),
    "list_collect": (["IterMap", "ListCollect"], 1, "List.collect([0].iter().map(|x| { {CB} return x; }));", "seq nat skip sl call {B}", [], []),
    "tuple_collect": (["IterMap", "TupleCollect"], 1, "Tuple.collect([0].iter().map(|x| { {CB} return x; }));", "seq nat skip sl call {B}", [], []),
    # … or by the `for … in` instruction (no native at all around the callback)
    "for_lazy":    (["IterMap"], 1, "for y in [0].iter().map(|x| { {CB} return x; }) { }", "seq nat skip call {B}", [], []),
    # user code run by the interpreter itself
    "interpolate": ([], 1, "let s{I} = \"${S{I}()}\";", "call {B}", ["class S{I} { str() { {CB} return \"s\"; } }"], []),
    "init":        ([], 1, "let o{I} = C{I}();", "call {B}", ["class C{I} { init() { {CB} } }"], []),
    "method":      ([], 1, "M{I}().m();", "call {B}", ["class M{I} { m() { {CB} } }"], []),
    "for_in":      ([], 1, "for y in [0] { {B0} }", "{B}", [], []),
}
# natives of the table that call back but not into code of the program
NOT_USER_CODE = {"MethodName": "calls `name` of the callable a bound method wraps: a native of Fun / Closure / Native"}

SINGLE = [k for k, v in KINDS.items() if v[1] == 1]


def covered_natives():
    out = set()
    for v in KINDS.values():
        out.update(v[0])
    return out


class Render:
    def __init__(self):
        self.defs, self.lets, self.n = [], [], 0

    def fresh(self):
        self.n += 1
        return self.n


def _fill(t, cb, b0, i):
    return t.replace("{CB}", cb).replace("{B0}", b0).replace("{I}", str(i))


def render(node, R):
    t = node[0]
    if t == "skip":
        return ""
    if t == "rec":
        return "f();"
    if t == "seq":
        return " ".join(x for x in (render(c, R) for c in node[1:]) if x)
    if t == "pad":
        i = R.fresh()
        body = render(node[1], R)
        R.defs.append("fn p%d() { d = d + 1; %s }" % (i, body))
        return "p%d();" % i
    if t == "try":
        body = render(node[1], R)
        handler = render(node[2], R)
        return ("try { %s } catch e: Error { k = k + 1; if e.message != \"Stack overflow.\" { bad = bad + 1; } %s }" % (body, handler))
    if t == "nat":
        natives, times, stmt, mod, defs, lets = KINDS[node[1]]
        body = render(node[2], R)
        i = R.fresh()
        cb = "d = d + 1; " + body
        for d_ in defs:
            R.defs.append(_fill(d_, cb, body, i))
        for l_ in lets:
            R.lets.append(_fill(l_, cb, body, i))
        return _fill(stmt, cb, body, i)
    raise ValueError(node)


def model(node):
    t = node[0]
    if t == "skip":
        return "skip"
    if t == "rec":
        return "rec"
    if t == "seq":
        items = [model(c) for c in node[1:]]
        if not items:
            return "skip"
        out = items[-1]
        for x in reversed(items[:-1]):
            out = "seq %s %s" % (x, out)
        return out
    if t == "pad":
        return "call %s" % model(node[1])
    if t == "try":
        return "try %s %s" % (model(node[1]), model(node[2]))
    if t == "nat":
        return KINDS[node[1]][3].replace("{B}", model(node[2]))
    raise ValueError(node)


def count_rec(node):
    if node[0] == "rec":
        return 1
    if node[0] == "nat":
        return KINDS[node[1]][1] * count_rec(node[2])
    return sum(count_rec(c) for c in node[1:] if isinstance(c, tuple))


def program(defn, main, limit):
    """the source; `limit`: the recursive function gives up once the activation counter has passed it (the control run of a
    program — same text, a small limit — never reaches the frame limit)"""
    R = Render()
    body = render(defn, R)
    main_src = render(main, R)
    lines = ["let d = 0; let k = 0; let bad = 0; let LIMIT = %d;" % limit]
    lines += R.defs
    lines.append("fn f() { d = d + 1; if d > LIMIT { return nil; } %s }" % body)
    lines += R.lets
    lines.append(main_src)
    lines.append("print(\"RES end d=${d} k=${k} bad=${bad}\");")
    return "\n".join(lines) + "\n"


def model_line(defn, main):
    return "%s ; %s" % (model(defn), model(main))


# ---------------------------------------------------------------------------------------------
# the family

# what the script does after the catch: natives with callbacks of every sort once more
CONTINUATION = ("seq", ("nat", "each", ("skip",)), ("nat", "map_list", ("skip",)), ("nat", "sort", ("skip",)),
                ("nat", "print", ("skip",)), ("nat", "reduce", ("skip",)), ("pad", ("skip",)))


def pads(n, body):
    for _ in range(n):
        body = ("pad", body)
    return body


def cycle(kind, inner):
    return inner if kind == "plain" else ("nat", kind, inner)


def catch_levels(entry, enclosing):
    """(name, script) — where the overflow raised below `entry` is caught: by the script, by a function, by the callback of
    each enclosing native (which then returns normally)"""
    T = lambda b: ("try", b, ("skip",))
    out = [("script", T(entry)), ("function", ("pad", T(entry))), ("function_outside", T(("pad", entry)))]
    for e in enclosing:
        out.append(("in_" + e, ("nat", e, T(entry))))
    return out


def systematic(cycle_kinds, enclosing_kinds, npads):
    """cases: (name, definition, script)"""
    cases = []
    rec = ("rec",)
    for ck in cycle_kinds:
        for p in range(npads):
            entry = pads(p, rec)
            d0 = cycle(ck, rec)
            for name, main in catch_levels(entry, enclosing_kinds):
                cases.append(("%s/pad%d/%s" % (ck, p, name), d0, ("seq", main, CONTINUATION)))
            # the recursion catches its own overflow: in the function, and in the callback
            T = lambda b: ("try", b, ("skip",))
            cases.append(("%s/pad%d/self_function" % (ck, p), T(d0), ("seq", entry, CONTINUATION)))
            if ck != "plain":
                cases.append(("%s/pad%d/self_callback" % (ck, p), cycle(ck, T(rec)), ("seq", entry, CONTINUATION)))
            # nobody catches: the run ends in the language error
            if p == 0:
                cases.append(("%s/pad%d/uncaught" % (ck, p), d0, entry))
            # a second overflow while the first is being handled, and one after it was handled
            cases.append(("%s/pad%d/again_in_handler" % (ck, p), d0, ("seq", ("try", entry, T(entry)), T(entry), CONTINUATION)))
    return cases


def random_case(rng, cycle_kinds, all_kinds):
    """a random program: one or two natives per level of the recursion, tries at random places, several entries"""
    T = lambda b, h=("skip",): ("try", b, h)

    def wrap(node, kinds, n):
        for _ in range(n):
            r = rng.random()
            if r < 0.55:
                node = ("nat", rng.choice(kinds), node)
            elif r < 0.75:
                node = ("pad", node)
            elif r < 0.9:
                node = T(node)
            else:
                node = ("seq", ("nat", rng.choice(all_kinds), ("skip",)), node)
        return node

    defn = wrap(("rec",), cycle_kinds, rng.randint(0, 3))
    entries = []
    for _ in range(rng.randint(1, 3)):
        e = wrap(("rec",), cycle_kinds, rng.randint(0, 4))
        # the entry is caught somewhere (most of the time)
        if rng.random() < 0.92:
            e = T(e, rng.choice([("skip",), ("skip",), ("nat", rng.choice(all_kinds), ("skip",)), T(pads(rng.randint(0, 2), ("rec",)))]))
            # the kinds that run their callback twice are fine around a `try`
            e = wrap(e, all_kinds, rng.randint(0, 2))
        entries.append(e)
    main = ("seq",) + tuple(entries) + (CONTINUATION,)
    return ("random", defn, main)
