"""C10 — object identity is stable under mutation; any value works as a map key.  DESIGN.md §5 C10.

One *history* (<= 30 statements) is kept as a small AST and rendered three ways from the same data:
  * Laythe source, run by `vharness runbatch` (the implementation);
  * micro-operations for `drv_listfwd` (Lean): the exact Model (forwarding lists, address
    equality, scan_roots) and the Spec machine (lists never relocate) print one result per
    observation;
  * a tiny identity-semantics interpreter in Python (objects are Python objects, `is`), used to keep
    the generated programs well typed and as a second opinion on the Lean Spec.

Rejected operations (round 4): a statement `("try", kind, target, index, [value])` renders
`try { T.insert(I, V); print("accepted"); } catch e: Error { print("rejected"); }` (kind insert / remove /
set / get) with an index of every class the natives tell apart — in range, one past the end, far out,
negative (normalised by `[]`, refused by insert/remove), fractional, not a number — preferably on a list
whose length equals its capacity (the generator tracks capacities for that purpose only), and is followed by
a battery of identity and content observations through the aliases of the target.  The Spec: a rejected
operation prints `rejected` and changes nothing; the Model: the failing branches of the natives
(Model/ListFwd.lean `M.raise`), proved to leave the heap untouched (Props/C10.lean `C10_rejected_*`).

Judgement per observation:  model == spec  => implementation must equal both (else VIOLATION, a new
identity bug inside the envelope);  model != spec => implementation must equal the model (tie) and
the deviation is counted as an instance of known finding D7;  implementation != model anywhere =>
tie failure => search => VIOLATION.
"""
import json
import os
import random

from .. import common

PROP = "C10"
LEVEL = "proof"
DRV = os.path.join(common.LEAN, ".lake", "build", "bin", "drv_listfwd")
D7_ID = "D7-list-growth-splits-aliases"

NL, NG, NB = 6, 3, 2          # locals l0..l5, module variables g0..g2, captured (boxed) locals b0,b1
SL_L, SL_B, SL_C = 2, 8, 10   # absolute stack slots in the main fiber: l_i, b_i, c_i
FX, FRQ, FRS, FV, FC = 1, 2, 3, 4, 5   # slots of the holder fiber: x, rq, rs, v, c

PRELUDE = """let g0 = nil; let g1 = nil; let g2 = nil;
class Obj { init() { self.f0 = nil; self.f1 = nil; } }
fn scrub(a, b, c, d, e, f, g, h) {}
let req = chan(); let resp = chan();
fn holder(x, rq, rs) {
  let v = nil; let c = nil;
  while true {
    %(scrub)s
    c = <- rq;
    if c == 0 { rs <- x; }
    else if c == 1 { x = <- rq; rs <- nil; }
    else if c == 2 { v = <- rq; x.push(v); v = nil; rs <- nil; }
    else { return; }
  }
}
fn main() {
  let l0 = nil; let l1 = nil; let l2 = nil; let l3 = nil; let l4 = nil; let l5 = nil;
  let b0 = nil; let b1 = nil;
  let c0 = || b0; let c1 = || b1;
"""
SCRUB_SRC = "scrub(0, 0, 0, 0, 0, 0, 0, 0);"
PROLOGUE_OPS = ["nil"] * NL + ["emptybox", "nil", "fillbox"] * NB + ["closure %d" % (SL_B + i) for i in range(NB)]


class Invalid(Exception):
    pass


# ---------------------------------------------------------------------------------------------
# identity-semantics values (the Python Spec)


class PList:
    kind = "list"

    def __init__(self, items):
        self.items = list(items)
        # capacity as list.rs computes it (`list!`: max(len, 4); growth (cap * 2).max(needed)).  Only the GENERATOR reads it, to aim
        # rejected operations at lists with no spare room; no judgement depends on it.
        self.cap = max(len(self.items), 4)

    def added(self):
        if len(self.items) > self.cap:
            self.cap = max(self.cap * 2, len(self.items))


class PTuple:
    kind = "tuple"

    def __init__(self, items):
        self.items = list(items)


class PInst:
    kind = "inst"

    def __init__(self):
        self.items = [None, None]


class PMap:
    kind = "map"

    def __init__(self):
        self.entries = []   # [key, value]

    def find(self, k):
        for e in self.entries:
            if same(e[0], k):
                return e
        return None


def same(a, b):
    if isinstance(a, int) and isinstance(b, int):
        return a == b
    return a is b


def kind(v):
    if v is None:
        return "nil"
    if isinstance(v, int):
        return "num"
    return v.kind


def show(v):
    if v is None:
        return "nil"
    if v is True:
        return "true"
    if v is False:
        return "false"
    if isinstance(v, int):
        return str(v)
    return "obj"


def ix_render(ix):
    """index operand of a `try` statement -> (source, micro-op, numeric value or None)"""
    t = ix[0]
    if t == "num":
        return str(ix[1]), "const %d" % ix[1], ix[1]
    if t == "neg" and ix[1] >= 1:
        return "-%d" % ix[1], "cneg %d" % (ix[1] - 1), -ix[1]
    if t == "frac":
        return "%d.5" % ix[1], "cfrac %d" % ix[1], ix[1] + 0.5
    if t == "nil":
        return "nil", "nil", None
    raise Invalid("index operand")


SAY_ACC = ["fn", "fn", "say 1", "drop"]                       # print("accepted");
CATCH_OPS = ["catchb", "fn", "fn", "say 0", "drop", "endc"]   # catch e: Error { print("rejected"); }


class Spec:
    """State of one history under identity semantics + rendering of each statement."""

    def __init__(self, scrub=True):
        self.l = [None] * NL
        self.g = [None] * NG
        self.b = [None] * NB
        self.x = None
        self.launched = False
        self.scrub = scrub
        self.out = []
        self.src = []
        self.ops = list(PROLOGUE_OPS)
        self.nobs = 0
        self.trylog = []    # per `try` statement: (kind, index class, accepted, target was full)

    # -- expressions: returns (value, source, ops) -------------------------------------------
    def ev(self, e):
        t = e[0]
        if t == "l":
            return self.l[e[1]], "l%d" % e[1], ["getl %d" % (SL_L + e[1])]
        if t == "g":
            return self.g[e[1]], "g%d" % e[1], ["getg %d" % e[1]]
        if t == "b":
            return self.b[e[1]], "b%d" % e[1], ["getbox %d" % (SL_B + e[1])]
        if t == "c":
            return self.b[e[1]], "c%d()" % e[1], ["getl %d" % (SL_C + e[1]), "callget"]
        if t == "num":
            return e[1], str(e[1]), ["const %d" % e[1]]
        if t == "nil":
            return None, "nil", ["nil"]
        if t == "idx":
            v, s, o = self.ev(e[1])
            k = e[2]
            if kind(v) in ("list", "tuple"):
                if not 0 <= k < len(v.items):
                    raise Invalid("index")
                return v.items[k], "%s[%d]" % (s, k), o + ["const %d" % k, "call %s 1" % ("lget" if kind(v) == "list" else "tget")]
            if kind(v) == "map":
                ent = v.find(k)
                if ent is None:
                    raise Invalid("key")
                return ent[1], "%s[%d]" % (s, k), o + ["const %d" % k, "call mget 1"]
            raise Invalid("idx on " + kind(v))
        if t == "fld":
            v, s, o = self.ev(e[1])
            if kind(v) != "inst":
                raise Invalid("fld on " + kind(v))
            return v.items[e[2]], "%s.f%d" % (s, e[2]), o + ["getf %d" % e[2]]
        if t == "list":
            parts = [self.ev(x) for x in e[1]]
            return (PList([p[0] for p in parts]), "[" + ", ".join(p[1] for p in parts) + "]",
                    [op for p in parts for op in p[2]] + ["list %d" % len(parts)])
        if t == "tuple":
            parts = [self.ev(x) for x in e[1]]
            if len(parts) < 2:
                raise Invalid("tuple arity")
            return (PTuple([p[0] for p in parts]), "(" + ", ".join(p[1] for p in parts) + ")",
                    [op for p in parts for op in p[2]] + ["tuple %d" % len(parts)])
        if t == "map":
            m = PMap()
            srcs, ops = [], []
            if len(e[1]) > 1:
                raise Invalid("map literal arity")
            for (k, v) in e[1]:
                kv, ks, ko = self.ev(k)
                vv, vs, vo = self.ev(v)
                if kind(kv) == "nil":
                    raise Invalid("nil key")
                m.entries.append([kv, vv])
                srcs.append("%s: %s" % (ks, vs))
                ops += ko + vo
            return m, "{" + ", ".join(srcs) + "}", ops + ["map %d" % len(e[1])]
        if t == "obj":
            return PInst(), "Obj()", ["newinst 2"]
        raise Invalid("expr " + t)

    def emit(self, src, ops):
        if self.scrub:
            self.src.append(SCRUB_SRC)
            self.ops.append("scrub")
        self.src.append(src)
        self.ops += ops

    def observe(self, v, src, ops):
        self.out.append(show(v))
        self.nobs += 1
        self.emit("print(%s);" % src, ["fn"] + ops + ["print", "drop"])

    def _b_cmd(self):
        """the holder fiber receives a command: `c = <- rq;` (+ the comparisons, numbers only)"""
        return ["switch 1", "getl %d" % FRQ, "recv 0", "setl %d" % FC, "drop"]

    def _b_loop(self):
        return (["scrub"] if self.scrub else []) + ["switch 0"]

    # -- statements ---------------------------------------------------------------------------
    def do(self, st):
        t = st[0]
        if t == "set":
            lv, e = st[1], st[2]
            v, s, o = self.ev(e)
            if lv[0] == "l":
                self.l[lv[1]] = v
                self.emit("l%d = %s;" % (lv[1], s), o + ["setl %d" % (SL_L + lv[1]), "drop"])
            elif lv[0] == "g":
                self.g[lv[1]] = v
                self.emit("g%d = %s;" % (lv[1], s), o + ["setg %d" % lv[1], "drop"])
            elif lv[0] == "b":
                self.b[lv[1]] = v
                self.emit("b%d = %s;" % (lv[1], s), o + ["setbox %d" % (SL_B + lv[1]), "drop"])
            elif lv[0] == "fld":
                tv, ts, to = self.ev(lv[1])
                if kind(tv) != "inst":
                    raise Invalid("set fld")
                tv.items[lv[2]] = v
                self.emit("%s.f%d = %s;" % (ts, lv[2], s), to + o + ["setf %d" % lv[2], "drop"])
            elif lv[0] == "idx":
                tv, ts, to = self.ev(lv[1])
                if kind(tv) != "list" or not 0 <= lv[2] < len(tv.items):
                    raise Invalid("set idx")
                tv.items[lv[2]] = v
                self.emit("%s[%d] = %s;" % (ts, lv[2], s), to + o + ["const %d" % lv[2], "call lset 2", "drop"])
            elif lv[0] == "key":
                tv, ts, to = self.ev(lv[1])
                kv, ks, ko = self.ev(lv[2])
                if kind(tv) != "map" or kind(kv) == "nil":
                    raise Invalid("set key")
                ent = tv.find(kv)
                if ent:
                    ent[1] = v
                else:
                    tv.entries.append([kv, v])
                self.emit("%s[%s] = %s;" % (ts, ks, s), to + o + ko + ["call mset 2", "drop"])
            else:
                raise Invalid("lvalue")
        elif t == "push":
            tv, ts, to = self.ev(st[1])
            if kind(tv) != "list" or not 0 <= len(st[2]) <= 2:
                raise Invalid("push")
            parts = [self.ev(x) for x in st[2]]
            for p in parts:
                tv.items.append(p[0])
                tv.added()
            # more than two arguments would leave operands in dead stack slots beyond the reach of `scrub`, where the stack array's own
            # reallocation decides whether a later scan_roots still sees them (not modelled); `x.push()` compiles to Invoke (no bound method)
            self.emit("%s.push(%s);" % (ts, ", ".join(p[1] for p in parts)),
                      to + (["bind"] if parts else []) + [op for p in parts for op in p[2]] + ["call lpush %d" % len(parts), "drop"])
        elif t == "insert":
            tv, ts, to = self.ev(st[1])
            v, s, o = self.ev(st[3])
            if kind(tv) != "list" or not 0 <= st[2] <= len(tv.items):
                raise Invalid("insert")
            tv.items.insert(st[2], v)
            tv.added()
            self.emit("%s.insert(%d, %s);" % (ts, st[2], s), to + ["bind", "const %d" % st[2]] + o + ["call linsert 2", "drop"])
        elif t == "pop":
            tv, ts, to = self.ev(st[1])
            if kind(tv) != "list":
                raise Invalid("pop")
            if tv.items:
                tv.items.pop()
            self.emit("%s.pop();" % ts, to + ["call lpop 0", "drop"])
        elif t == "remove":
            tv, ts, to = self.ev(st[1])
            if kind(tv) != "list" or not 0 <= st[2] < len(tv.items):
                raise Invalid("remove")
            del tv.items[st[2]]
            self.emit("%s.remove(%d);" % (ts, st[2]), to + ["bind", "const %d" % st[2], "call lremove 1", "drop"])
        elif t == "clear":
            tv, ts, to = self.ev(st[1])
            if kind(tv) != "list":
                raise Invalid("clear")
            tv.items = []
            self.emit("%s.clear();" % ts, to + ["call lclear 0", "drop"])
        elif t == "mremove":
            tv, ts, to = self.ev(st[1])
            kv, ks, ko = self.ev(st[2])
            if kind(tv) != "map" or kind(kv) == "nil":
                raise Invalid("mremove")
            tv.entries = [e for e in tv.entries if not same(e[0], kv)]
            body = to + ["bind"] + ko + ["call mremove 1", "drop"]
            self.emit("if %s.has(%s) { %s.remove(%s); }" % (ts, ks, ts, ks),
                      to + ["bind"] + ko + ["call mhas 1", "jf %d" % len(body)] + body)
        elif t == "eq":
            a, sa, oa = self.ev(st[1])
            b, sb, ob = self.ev(st[2])
            self.observe(same(a, b), "%s == %s" % (sa, sb), oa + ob + ["eq"])
        elif t == "has":
            tv, ts, to = self.ev(st[1])
            v, s, o = self.ev(st[2])
            if kind(tv) in ("list", "tuple"):
                r = any(same(x, v) for x in tv.items)
                nat = "lhas" if kind(tv) == "list" else "thas"
            elif kind(tv) == "map":
                if kind(v) == "nil":
                    raise Invalid("nil key")
                r = tv.find(v) is not None
                nat = "mhas"
            else:
                raise Invalid("has")
            self.observe(r, "%s.has(%s)" % (ts, s), to + ["bind"] + o + ["call %s 1" % nat])
        elif t == "index":
            tv, ts, to = self.ev(st[1])
            v, s, o = self.ev(st[2])
            if kind(tv) not in ("list", "tuple"):
                raise Invalid("index")
            r = None
            for i, x in enumerate(tv.items):
                if same(x, v):
                    r = i
                    break
            self.observe(r, "%s.index(%s)" % (ts, s), to + ["bind"] + o + ["call %s 1" % ("lindex" if kind(tv) == "list" else "tindex")])
        elif t == "mget":
            tv, ts, to = self.ev(st[1])
            kv, ks, ko = self.ev(st[2])
            if kind(tv) != "map" or kind(kv) == "nil":
                raise Invalid("mget")
            if any(kind(e[1]) not in ("num", "nil") for e in tv.entries):
                raise Invalid("mget would print an object")
            ent = tv.find(kv)
            self.observe(ent[1] if ent else None, "%s.get(%s)" % (ts, ks), to + ["bind"] + ko + ["call mgetm 1"])
        elif t == "len":
            tv, ts, to = self.ev(st[1])
            if kind(tv) == "list":
                self.observe(len(tv.items), "%s.len()" % ts, to + ["call llen 0"])
            elif kind(tv) == "tuple":
                self.observe(len(tv.items), "%s.len()" % ts, to + ["call tlen 0"])
            elif kind(tv) == "map":
                self.observe(len(tv.entries), "%s.len()" % ts, to + ["call mlen 0"])
            else:
                raise Invalid("len")
        elif t == "show":
            tv, ts, to = self.ev(st[1])
            if kind(tv) != "list" or not 0 <= st[2] < len(tv.items) or kind(tv.items[st[2]]) not in ("num", "nil"):
                raise Invalid("show")
            self.observe(tv.items[st[2]], "%s[%d]" % (ts, st[2]), to + ["const %d" % st[2], "call lget 1"])
        elif t == "try":
            # one operation that may be refused, inside try/catch.  The Spec: an index that is not an integer of the operation's range
            # (insert 0..len, remove 0..len-1, []/[]= -len..len-1) is refused, "rejected" is printed and NOTHING else happens.
            k, ix = st[1], st[3]
            tv, ts, to = self.ev(st[2])
            if k in ("mremove", "mget"):
                # a map asked for a key it may not have: `m.remove(k)` / `m[k]` raise KeyError and change nothing
                kv, ks, ko = self.ev(ix)
                if kind(tv) != "map" or kind(kv) == "nil":
                    raise Invalid("try map")
                ok = tv.find(kv) is not None
                if k == "mremove":
                    if ok:
                        tv.entries = [e for e in tv.entries if not same(e[0], kv)]
                    src, body = "%s.remove(%s);" % (ts, ks), to + ["bind"] + ko + ["call mremove 1", "drop"]
                else:
                    src, body = "%s[%s];" % (ts, ks), to + ko + ["call mget 1", "drop"]
                self.out.append("accepted" if ok else "rejected")
                self.nobs += 1
                self.trylog.append((k, "key", ok, False))
                self.emit('try { %s print("accepted"); } catch e: Error { print("rejected"); }' % src,
                          ["tryb"] + body + SAY_ACC + ["trye %d" % len(CATCH_OPS)] + CATCH_OPS)
                return
            if kind(tv) != "list" or k not in ("insert", "remove", "set", "get"):
                raise Invalid("try")
            ixs, ixop, ixv = ix_render(ix)
            if k in ("insert", "set"):
                v, vs, vo = self.ev(st[4])
            n = len(tv.items)
            whole = isinstance(ixv, int)
            full = n == tv.cap
            if k == "insert":
                ok = whole and 0 <= ixv <= n
                if ok:
                    tv.items.insert(ixv, v)
                    tv.added()
                src, body = "%s.insert(%s, %s);" % (ts, ixs, vs), to + ["bind", ixop] + vo + ["call linsert 2", "drop"]
            elif k == "remove":
                ok = whole and 0 <= ixv < n
                if ok:
                    del tv.items[ixv]
                src, body = "%s.remove(%s);" % (ts, ixs), to + ["bind", ixop, "call lremove 1", "drop"]
            elif k == "set":
                ok = whole and -n <= ixv < n
                if ok:
                    tv.items[ixv] = v
                src, body = "%s[%s] = %s;" % (ts, ixs, vs), to + vo + [ixop, "call lset 2", "drop"]
            else:
                ok = whole and -n <= ixv < n
                src, body = "%s[%s];" % (ts, ixs), to + [ixop, "call lget 1", "drop"]
            self.out.append("accepted" if ok else "rejected")
            self.nobs += 1
            self.trylog.append((k, ix[0], ok, full))
            self.emit('try { %s print("accepted"); } catch e: Error { print("rejected"); }' % src,
                      ["tryb"] + body + SAY_ACC + ["trye %d" % len(CATCH_OPS)] + CATCH_OPS)
        elif t == "launch":
            if self.launched:
                raise Invalid("second launch")
            v, s, o = self.ev(st[1])
            self.launched = True
            self.x = v
            self.emit("launch holder(%s, req, resp);" % s,
                      ["fn"] + o + ["fn", "fn", "launch 3", "switch 1", "nil", "nil"] + self._b_loop())
        elif t == "fget":
            if not self.launched:
                raise Invalid("no fiber")
            self.l[st[1]] = self.x
            self.emit("req <- 0; l%d = <- resp;" % st[1],
                      ["const 0", "fn", "send 0", "drop"] + self._b_cmd() +
                      ["getl %d" % FX, "getl %d" % FRS, "send 1", "drop"] + self._b_loop() +
                      ["fn", "recv 1", "setl %d" % (SL_L + st[1]), "drop"])
        elif t == "fset":
            if not self.launched:
                raise Invalid("no fiber")
            v, s, o = self.ev(st[1])
            self.x = v
            self.emit("req <- 1; req <- %s; <- resp;" % s,
                      ["const 1", "fn", "send 0", "drop"] + self._b_cmd() + ["switch 0"] + o + ["fn", "send 0", "drop"] +
                      ["switch 1", "getl %d" % FRQ, "recv 0", "setl %d" % FX, "drop", "nil", "getl %d" % FRS, "send 1", "drop"] +
                      self._b_loop() + ["fn", "recv 1", "drop"])
        elif t == "fpush":
            if not self.launched or kind(self.x) != "list":
                raise Invalid("no fiber list")
            v, s, o = self.ev(st[1])
            self.x.items.append(v)
            self.x.added()
            self.emit("req <- 2; req <- %s; <- resp;" % s,
                      ["const 2", "fn", "send 0", "drop"] + self._b_cmd() + ["switch 0"] + o + ["fn", "send 0", "drop"] +
                      ["switch 1", "getl %d" % FRQ, "recv 0", "setl %d" % FV, "drop",
                       "getl %d" % FX, "bind", "getl %d" % FV, "call lpush 1", "drop",
                       "nil", "setl %d" % FV, "drop", "nil", "getl %d" % FRS, "send 1", "drop"] +
                      self._b_loop() + ["fn", "recv 1", "drop"])
        else:
            raise Invalid("stmt " + t)

    def program(self):
        body = "".join("  %s\n" % s for s in self.src)
        tail = "  req <- 9;\n" if self.launched else ""
        return PRELUDE % {"scrub": SCRUB_SRC if self.scrub else ""} + body + tail + "}\nmain();\n"


def render(stmts, scrub=True, trylog=None):
    """(source, micro-ops line, python-spec outputs) or raises Invalid."""
    sp = Spec(scrub)
    for st in stmts:
        sp.do(st)
    if trylog is not None:
        trylog.extend(sp.trylog)
    return sp.program(), ";".join(sp.ops), sp.out


# ---------------------------------------------------------------------------------------------
# generator


def paths(sp, depth=2):
    """All readable expressions (up to `depth` selectors) with their Spec values."""
    roots = [(("l", i), sp.l[i]) for i in range(NL)] + [(("g", i), sp.g[i]) for i in range(NG)]
    roots += [(("b", i), sp.b[i]) for i in range(NB)] + [(("c", i), sp.b[i]) for i in range(NB)]
    out = [r for r in roots if r[1] is not None]
    frontier = list(out)
    for _ in range(depth):
        nxt = []
        for e, v in frontier:
            k = kind(v)
            if k in ("list", "tuple"):
                for i, x in enumerate(v.items[:6]):
                    if x is not None:
                        nxt.append((("idx", e, i), x))
            elif k == "inst":
                for j, x in enumerate(v.items):
                    if x is not None:
                        nxt.append((("fld", e, j), x))
            elif k == "map":
                for key, x in v.entries:
                    if isinstance(key, int) and x is not None:
                        nxt.append((("idx", e, key), x))
        out += nxt
        frontier = nxt
    return out


MULTI_P = [0.12]      # extra share of two-argument pushes (the search raises it)
TRY_P = [0.16]        # share of the mutating statements that are operations inside try/catch, most of them refused


def gen_try(rng, sp, add, objs, value_expr, scalar):
    """One possibly-refused operation inside try/catch, aimed at a list with no spare capacity, then observations
    through the aliases of that list (refused or not, the identity of the list must be what it was)."""
    maps = objs(("map",))
    if maps and rng.random() < 0.12:
        # a map asked to remove / read a key: present (alias of a key object or a number) or absent
        e, m = rng.choice(maps)
        keys = [kk for kk, _ in m.entries]
        if keys and rng.random() < 0.5:
            kk = rng.choice(keys)
            ke = ("num", kk) if isinstance(kk, int) else next((x for x, w in paths(sp) if w is kk), None)
        else:
            o = objs()
            ke = rng.choice(o)[0] if o and rng.random() < 0.6 else ("num", rng.randrange(1, 12))
        if ke is not None and add(("try", rng.choice(["mremove", "mremove", "mget"]), e, ke)):
            add(("len", e))
            for kk in keys[:2]:
                ka = ("num", kk) if isinstance(kk, int) else next((x for x, w in paths(sp) if w is kk), None)
                if ka is not None:
                    add(("has", e, ka))
        return
    lists = objs(("list",))
    if not lists:
        return
    fulls = [x for x in lists if len(x[1].items) == x[1].cap]
    if fulls and rng.random() < 0.7:
        e, v = rng.choice(fulls)
    else:
        e, v = rng.choice(lists)
        if rng.random() < 0.6 and v.cap - len(v.items) <= 4:
            while len(v.items) < v.cap:             # fill it up to the capacity boundary first
                if not add(("push", e, [scalar()])):
                    break
    n = len(v.items)
    k = rng.choice(["insert", "insert", "insert", "remove", "remove", "set", "get"])
    r = rng.random()
    if r < 0.42:        # beyond the end: the first refused index, or further out
        ix = ("num", (n + 1 if k == "insert" else n) + rng.choice([0, 0, 0, 1, 5]))
    elif r < 0.56:      # negative: normalised by [] / []= when within -len..-1, refused otherwise and by insert/remove always
        ix = ("neg", max(1, rng.choice([1, 1, n, n + 1, n + 2])))
    elif r < 0.68:
        ix = ("frac", rng.randrange(0, n + 2))
    elif r < 0.76:
        ix = ("nil",)
    else:               # an index of the operation's range: accepted (an accepted insert on a full list relocates inside the try)
        ix = ("num", rng.randrange(n + 1 if k == "insert" else max(n, 1)))
    st = ("try", k, e, ix) + ((value_expr(),) if k in ("insert", "set") else ())
    if not add(st):
        return
    # the battery: ==, len, has/index, map lookups through aliases of the target, wherever they are stored
    al = [x for x, w in paths(sp) if w is v]
    if not al:
        return
    for _ in range(min(3, len(al) - 1)):
        a, b = rng.sample(al, 2)
        add(("eq", a, b))
    add(("len", rng.choice(al)))
    budget = 2
    for x, w in paths(sp):
        if budget and kind(w) in ("list", "tuple") and any(y is v for y in w.items) and rng.random() < 0.5:
            add((rng.choice(["has", "index"]), x, rng.choice(al)))
            budget -= 1
        elif budget and kind(w) == "map" and w.find(v) is not None and rng.random() < 0.7:
            add(("has", x, rng.choice(al)))
            budget -= 1


def gen_history(rng, nstmts, fibers=True):
    """A random well-typed history (list of statements)."""
    sp = Spec(False)
    stmts = []

    def add(st):
        # `Spec.do` evaluates every operand before it changes anything, so a rejected statement leaves no trace
        try:
            sp.do(st)
        except Invalid:
            return False
        stmts.append(st)
        return True

    def objs(kinds=None):
        return [(e, v) for e, v in paths(sp) if kind(v) not in ("num", "nil") and (kinds is None or kind(v) in kinds)]

    def pick_obj(kinds=None, prefer_list=True):
        c = objs(kinds)
        if not c:
            return None
        if prefer_list and kinds is None and rng.random() < 0.75:
            ls = [x for x in c if kind(x[1]) == "list"]
            if ls:
                return rng.choice(ls)
        return rng.choice(c)

    def alias_of(v):
        c = [e for e, w in paths(sp) if w is v]
        return rng.choice(c) if c else None

    def scalar():
        return ("num", rng.randrange(1, 9))

    def value_expr():
        r = rng.random()
        if r < 0.55:
            o = pick_obj()
            if o:
                return o[0]
        return scalar()

    # a few lists to start with; lengths near the initial capacity 4 so that growth happens early
    nlists = rng.choice([1, 2, 2, 3])
    for i in range(nlists):
        n = rng.choice([4, 4, 4, 3, 3, 2, 5, 0, 1])
        add(("set", ("l", i), ("list", [scalar() for _ in range(n)])))
    tries = 0
    while len(stmts) < nstmts and tries < nstmts * 20:
        tries += 1
        r = rng.random()
        if r < 0.34:       # place an alias somewhere
            o = pick_obj()
            if not o:
                continue
            e = o[0]
            w = rng.random()
            if w < 0.16:
                add(("set", ("l", rng.randrange(NL)), e))
            elif w < 0.28:
                add(("set", ("g", rng.randrange(NG)), e))
            elif w < 0.38:
                add(("set", ("b", rng.randrange(NB)), e))
            elif w < 0.50:
                inst = pick_obj(("inst",))
                if inst and rng.random() < 0.6:
                    add(("set", ("fld", inst[0], rng.randrange(2)), e))
                else:
                    i = rng.randrange(NL)
                    if add(("set", ("l", i), ("obj",))):
                        add(("set", ("fld", ("l", i), rng.randrange(2)), e))
            elif w < 0.64:
                wrap = rng.random()
                lit = ("list", [e]) if wrap < 0.4 else ("list", [("list", [e])]) if wrap < 0.65 else \
                    ("tuple", [e, scalar()]) if wrap < 0.85 else ("list", [scalar(), e, scalar()])
                dst = rng.choice([("l", rng.randrange(NL)), ("g", rng.randrange(NG)), ("b", rng.randrange(NB))])
                add(("set", dst, lit))
            elif w < 0.74:
                t = pick_obj(("list",))
                if t:
                    if t[1].items and rng.random() < 0.4:
                        add(("set", ("idx", t[0], rng.randrange(len(t[1].items))), e))
                    else:
                        add(("push", t[0], [e]))
            elif w < 0.90:
                m = pick_obj(("map",))
                if m and rng.random() < 0.7:
                    if rng.random() < 0.6:
                        add(("set", ("key", m[0], e), scalar()))
                    else:
                        add(("set", ("key", m[0], scalar()), e))
                else:
                    dst = rng.choice([("l", rng.randrange(NL)), ("g", rng.randrange(NG))])
                    if rng.random() < 0.6:
                        add(("set", dst, ("map", [(e, scalar())])))
                    else:
                        add(("set", dst, ("map", [(scalar(), e)])))
            elif fibers:
                if not sp.launched:
                    add(("launch", e))
                elif rng.random() < 0.5:
                    add(("fset", e))
                else:
                    add(("fget", rng.randrange(NL)))
        elif r < 0.66:     # mutate through some alias
            t = pick_obj(("list",))
            if not t:
                continue
            e, v = t
            if rng.random() < TRY_P[0]:
                gen_try(rng, sp, add, objs, value_expr, scalar)
                continue
            w = rng.random()
            n = len(v.items)
            if w < 0.62:
                if fibers and sp.launched and sp.x is v and rng.random() < 0.5:
                    add(("fpush", value_expr()))
                else:
                    # `MULTI_P`: share of two-argument pushes (the search raises it); longer ones are outside what `Spec.do` renders
                    # (until round 4 this branch asked for 9-14 arguments, which `Spec.do` refused: it never produced anything);
                    # now and then a push of nothing (changes nothing, also on a full list)
                    npush = 2 if rng.random() < MULTI_P[0] else rng.choice([1, 1, 1, 2]) if rng.random() < 0.96 else 0
                    add(("push", e, [value_expr() for _ in range(npush)]))
            elif w < 0.74:
                add(("insert", e, rng.randrange(n + 1), value_expr()))
            elif w < 0.82 and (n or rng.random() < 0.25):      # now and then a pop of an empty list (answers nil, changes nothing)
                add(("pop", e))
            elif w < 0.89 and n:
                add(("remove", e, rng.randrange(n)))
            elif w < 0.92:
                add(("clear", e))
            elif w < 0.96 and n:
                add(("set", ("idx", e, rng.randrange(n)), value_expr()))
            else:
                m = pick_obj(("map",))
                if m and m[1].entries:
                    k = rng.choice(m[1].entries)[0]
                    ke = ("num", k) if isinstance(k, int) else alias_of(k)
                    if ke:
                        add(("mremove", m[0], ke))
        else:              # observe
            add_observation(rng, sp, add, pick_obj, alias_of)
    # closing battery: every object is compared with itself through two aliases, keys are looked up
    seen = []
    for e, v in objs():
        if not any(v is s for s in seen):
            seen.append(v)
    rng.shuffle(seen)
    for v in seen[:4]:
        al = [e for e, w in paths(sp) if w is v]
        if len(al) >= 2 and len(stmts) < nstmts + 8:
            a, b = rng.sample(al, 2)
            add(("eq", a, b))
    for e, v in objs(("map",))[:2]:
        for key, val in v.entries[:2]:
            ke = ("num", key) if isinstance(key, int) else alias_of(key)
            if ke and len(stmts) < nstmts + 8:
                add(("has", e, ke))
    return stmts


def add_observation(rng, sp, add, pick_obj, alias_of):
    w = rng.random()
    if w < 0.40:
        a = pick_obj()
        if not a:
            return
        if rng.random() < 0.7:
            b = alias_of(a[1])
        else:
            o = pick_obj()
            b = o[0] if o else None
        if b:
            add(("eq", a[0], b))
    elif w < 0.62:
        t = pick_obj(("list", "tuple"), prefer_list=False)
        if not t:
            return
        cands = [x for x in t[1].items if kind(x) not in ("num", "nil")]
        if cands and rng.random() < 0.8:
            q = alias_of(rng.choice(cands))
        else:
            o = pick_obj()
            q = o[0] if o else None
        if q:
            add((rng.choice(["has", "index"]), t[0], q))
    elif w < 0.84:
        m = pick_obj(("map",))
        if not m:
            return
        keys = [e[0] for e in m[1].entries if not isinstance(e[0], int)]
        if keys and rng.random() < 0.8:
            q = alias_of(rng.choice(keys))
        else:
            o = pick_obj()
            q = o[0] if o else None
        if q:
            add((rng.choice(["has", "mget", "has"]), m[0], q))
    elif w < 0.93:
        t = pick_obj(("list", "map", "tuple"), prefer_list=False)
        if t:
            add(("len", t[0]))
    else:
        t = pick_obj(("list",))
        if t and t[1].items:
            add(("show", t[0], rng.randrange(len(t[1].items))))


# ---------------------------------------------------------------------------------------------
# running and judging


def parse_model(line):
    """`MODEL a,b|SPEC a,b|grows=.. scans=.. stale=.. halted=.. raises=.. e10=1,0` -> dict"""
    if not line.startswith("MODEL "):
        return None
    p = line.split("|")
    if len(p) != 3:
        return None
    lst = lambda s: [x for x in s.split(",") if x != ""]
    info = {}
    for kv in p[2].split():
        k, _, v = kv.partition("=")
        info[k] = v
    return {"model": lst(p[0][6:]), "spec": lst(p[1][5:]), "grows": int(info.get("grows", 0)), "scans": int(info.get("scans", 0)),
            "stale": int(info.get("stale", 0)), "halted": info.get("halted") == "1", "raises": int(info.get("raises", 0)),
            "e10": lst(info.get("e10", ""))}


def run_cases(cases, workdir, tag, gc=None):
    """cases: list of (stmts, scrub).  Returns list of result dicts.  `gc`: collection schedule for the
    implementation runs (e.g. "every:2": a full collection at every second allocation)."""
    os.makedirs(workdir, exist_ok=True)
    rendered = []
    for i, (stmts, scrub) in enumerate(cases):
        tl = []
        src, ops, pyspec = render(stmts, scrub, tl)
        path = os.path.join(workdir, "%s_%d.lay" % (tag, i))
        with open(path, "w") as f:
            f.write(src)
        rendered.append((path, src, ops, pyspec, tl))
    rc, mo, err = common.run_lines([DRV], [r[2] for r in rendered], timeout=1200)
    impl = common.run_batch([("--gc %s --full 1 %s" % (gc, r[0])) if gc else r[0] for r in rendered])
    for r in rendered:          # the sources are kept in the results; no need to leave 10^5 files behind
        try:
            os.unlink(r[0])
        except OSError:
            pass
    res = []
    for i, (path, src, ops, pyspec, tl) in enumerate(rendered):
        m = parse_model(mo[i]) if i < len(mo) else None
        im = impl[i] or {"status": "MISSING", "stdout": "", "stderr": ""}
        res.append({"stmts": cases[i][0], "scrub": cases[i][1], "source": src, "ops": ops, "pyspec": pyspec, "trylog": tl,
                    "driver": mo[i] if i < len(mo) else "<missing>", "m": m,
                    "status": im.get("status"), "impl": [l for l in im.get("stdout", "").split("\n") if l != ""],
                    "stderr": im.get("stderr", "")[-400:]})
    return res


def judge(r, exact_outside=True):
    """Returns (verdict, detail, d7_instances). verdict in ok | spec | tie | internal."""
    m = r["m"]
    if m is None:
        return "internal", "driver output unparsable: %s" % r["driver"][:200], 0
    if m["spec"] != r["pyspec"]:
        return "internal", "Lean Spec machine and Python Spec disagree: %s vs %s" % (m["spec"], r["pyspec"]), 0
    model, spec, impl = m["model"], m["spec"], r["impl"]
    e10 = m["e10"]
    d7 = 0
    r["inexact_outside"] = 0
    for i in range(len(spec)):
        mi = model[i] if i < len(model) else "<none>"
        ii = impl[i] if i < len(impl) else "<none:%s>" % r["status"]
        clean = i < len(e10) and e10[i] == "1"     # no stale reference anywhere when the observation was made
        if not exact_outside and not clean:
            # stream without `scrub`: once stale references exist the dead part of the stack can matter;
            # such observations are only counted
            d7 += mi != spec[i]
            r["inexact_outside"] += ii != mi
            continue
        if mi == spec[i]:
            if ii != spec[i]:
                r["fail_obs"] = i
                return "spec", "observation %d: Spec and Model say %s, implementation printed %s" % (i, spec[i], ii), d7
        else:
            d7 += 1
            if ii != mi:
                r["fail_obs"] = i
                return "tie", "observation %d (outside E10): Model predicts %s (Spec %s), implementation printed %s" % (i, mi, spec[i], ii), d7
            if mi in ("KeyError", "IndexError", "TypeError"):
                break
    if r["status"] != "Ok:0" and not m["halted"]:
        return "spec", "program ended with %s %s" % (r["status"], r["stderr"][-200:]), d7
    if len(impl) != len(model) and not m["halted"]:
        return "tie", "implementation printed %d observations, model %d" % (len(impl), len(model)), d7
    return "ok", "", d7


def shrink(stmts, scrub, fails):
    """Greedy delta-debugging on the statement list; candidates must stay well typed."""
    cur = list(stmts)
    changed = True
    while changed:
        changed = False
        i = 0
        while i < len(cur):
            cand = cur[:i] + cur[i + 1:]
            try:
                render(cand, scrub)
                ok = fails(cand)
            except (Invalid, AttributeError, TypeError, IndexError, KeyError):     # a candidate that is no longer well typed
                ok = False
            if ok:
                cur = cand
                changed = True
            else:
                i += 1
    return cur


def to_json(stmts):
    return json.loads(json.dumps(stmts))


def from_json(x):
    if isinstance(x, list):
        if x and isinstance(x[0], str):
            # an AST node: tag followed by fields; lists of nodes stay lists
            return tuple([x[0]] + [from_json(y) for y in x[1:]])
        return [from_json(y) for y in x]
    return x


def workdir(ctx_seed, name):
    return os.path.join(common.VERIF, "work", "C10", "%s_%s" % (name, ctx_seed))


def report(ctx, r, verdict, detail, label):
    """Shrink and file a failing case."""
    scrub = r["scrub"]
    wd = workdir(ctx.seed, "shrink")

    def fails(cand):
        rr = run_cases([(cand, scrub)], wd, "s")[0]
        v, _, _ = judge(rr)
        return v == verdict

    small = shrink(r["stmts"], scrub, fails)
    rr = run_cases([(small, scrub)], wd, "final")[0]
    v2, d2, _ = judge(rr)
    if v2 != verdict:
        rr, d2 = r, detail
    payload = {"engine": "listfwd", "seed": ctx.seed, "stream": label, "what": d2 or detail, "stmts": to_json(rr["stmts"]), "scrub": scrub,
               "source": rr["source"], "ops": rr["ops"], "impl": rr["impl"], "impl_status": rr["status"], "impl_stderr": rr["stderr"],
               "model": rr["m"]["model"] if rr["m"] else None, "spec": rr["m"]["spec"] if rr["m"] else None,
               "replay": "./check C10 --replay <this file>"}
    return payload


def stream(ctx, label, n, nstmts, scrub, fibers=True, exact_outside=True, seed_salt=0, gc=None):
    rng = random.Random(ctx.seed * 1000003 + 10 + seed_salt)
    cases = [(gen_history(rng, rng.randint(8, nstmts), fibers), scrub) for _ in range(n)]
    res = run_cases(cases, workdir(ctx.seed, label), label, gc)
    st = {"histories": len(res), "observations": 0, "histories_with_growth": 0, "grows": 0, "scans": 0,
          "histories_leaving_E10": 0, "observations_inside_E10": 0, "d7_instances": 0, "histories_with_d7": 0,
          "stmts": 0, "with_fiber": 0, "ended_stale": 0, "model_impl_mismatch_outside_E10_not_judged": 0,
          "try_statements": 0, "refused_operations": 0, "refused_on_full_list": 0, "histories_with_refusal_on_full_list": 0,
          "accepted_in_try": 0, "accepted_insert_in_try_on_full_list": 0, "errors_raised_in_model": 0}
    kinds = {}
    first = None
    for r in res:
        v, detail, d7 = judge(r, exact_outside)
        m = r["m"] or {"model": [], "spec": [], "grows": 0, "scans": 0, "e10": [], "stale": 0, "raises": 0}
        st["observations"] += len(m["spec"])
        st["grows"] += m["grows"]
        st["scans"] += m["scans"]
        st["histories_with_growth"] += m["grows"] > 0
        st["histories_leaving_E10"] += "0" in m["e10"]
        st["observations_inside_E10"] += m["e10"].count("1")
        st["d7_instances"] += d7
        st["histories_with_d7"] += d7 > 0
        st["stmts"] += len(r["stmts"])
        st["with_fiber"] += any(s[0] == "launch" for s in r["stmts"])
        st["ended_stale"] += m["stale"] > 0
        st["model_impl_mismatch_outside_E10_not_judged"] += r.get("inexact_outside", 0)
        tl = r.get("trylog", [])
        st["try_statements"] += len(tl)
        st["refused_operations"] += sum(1 for t in tl if not t[2])
        st["refused_on_full_list"] += sum(1 for t in tl if not t[2] and t[3])
        st["histories_with_refusal_on_full_list"] += any(not t[2] and t[3] for t in tl)
        st["accepted_in_try"] += sum(1 for t in tl if t[2])
        st["accepted_insert_in_try_on_full_list"] += sum(1 for t in tl if t[2] and t[3] and t[0] == "insert")
        st["errors_raised_in_model"] += m.get("raises", 0)
        for t in tl:
            key = "try_%s_%s_%s%s" % (t[0], t[1], "accepted" if t[2] else "refused", "_full" if t[3] else "")
            kinds[key] = kinds.get(key, 0) + 1
        for s in r["stmts"]:
            kinds[s[0]] = kinds.get(s[0], 0) + 1
            if s[0] == "set":       # where values (mostly aliases) are stored
                k = {"l": "local", "g": "module_variable", "b": "captured_variable", "fld": "instance_field",
                     "idx": "list_element", "key": "map_entry"}[s[1][0]]
                kinds["store_" + k] = kinds.get("store_" + k, 0) + 1
                if s[2][0] in ("list", "tuple", "map"):
                    kinds["store_nested_literal"] = kinds.get("store_nested_literal", 0) + 1
                if (s[1][0] == "key" and s[1][2][0] != "num") or (s[2][0] == "map" and s[2][1] and s[2][1][0][0][0] != "num"):
                    kinds["object_map_key"] = kinds.get("object_map_key", 0) + 1
            if s[0] in ("eq", "has", "index", "mget") and "c" in json.dumps(s):
                kinds["observed_through_closure"] = kinds.get("observed_through_closure", 0) + ('["c",' in json.dumps(s))
        ctx.count_case(r["ops"], nontrivial=m["grows"] > 0 and len(m["spec"]) > 0)
        if v != "ok" and first is None:
            first = (r, v, detail)
    ctx.stream_stat(label, **st)
    ctx.stream_stat(label + "_stmt_kinds", **kinds)
    ctx.cov["traces_validated_against_impl"] += len(res)
    if res:
        r = res[0]
        tail = r["source"].split("let c0 = || b0; let c1 = || b1;\n")[-1]
        ctx.sample({"stream": label, "source_tail": "".join(l + "\n" for l in tail.split("\n") if "scrub(" not in l)[:900],
                    "impl": r["impl"], "model": r["m"] and r["m"]["model"], "spec": r["m"] and r["m"]["spec"]})
    return first, st


OBSERVING = ("eq", "has", "index", "mget", "len", "show")      # statements that print and change nothing in the Spec
PRINTING = OBSERVING + ("try",)


def widen(stmts, fail_obs, limit=160):
    """Histories derived from one on which implementation and Model disagree where the Model itself leaves the Spec (a tie failure
    in D7 territory): the state-changing statements up to the disagreeing observation, followed by ONE observation — every pair of
    aliases of every object compared, every container / map asked for every alias.  Where the implementation has drifted from the
    Model, one of these usually is an observation on which Model and Spec agree and the implementation does not."""
    upto, seen = len(stmts), 0
    for i, st in enumerate(stmts):
        if st[0] in PRINTING:
            if seen == fail_obs:
                upto = i + 1
                break
            seen += 1
    base = [st for st in stmts[:upto] if st[0] not in OBSERVING]
    sp = Spec(False)
    try:
        for st in base:
            sp.do(st)
    except Invalid:
        return []
    ps = paths(sp)
    vals = []
    for e, v in ps:
        if kind(v) not in ("num", "nil") and not any(v is w for w in vals):
            vals.append(v)
    vals.sort(key=lambda v: kind(v) != "list")
    out = []
    for v in vals:
        al = [e for e, w in ps if w is v][:7]
        for i in range(len(al)):
            for j in range(i + 1, len(al)):
                out.append(base + [("eq", al[i], al[j])])
        for e, w in ps:
            if kind(w) in ("list", "tuple") and any(x is v for x in w.items):
                out += [base + [(k, e, a)] for a in al[:3] for k in ("has", "index")]
            elif kind(w) == "map" and w.find(v) is not None:
                out += [base + [("has", e, a)] for a in al[:4]]
    ok = []
    for c in out[:limit * 2]:
        try:
            render(c, True)
            ok.append(c)
        except Invalid:
            pass
    return ok[:limit]


def load_corpus():
    corpus = os.path.join(common.VERIF, "corpus", PROP)
    pre = []
    if os.path.isdir(corpus) and not os.environ.get("C10_NO_CORPUS"):     # C10_NO_CORPUS=1: show that the generated streams alone catch a change
        for f in sorted(os.listdir(corpus)):
            j = json.load(open(os.path.join(corpus, f)))
            pre.append((from_json(j["stmts"]), j.get("scrub", True)))
    return pre


def search_spec(ctx, budget, ties=(), first=()):
    """Spec-judged search (the property itself): histories whose *Model* prediction is Spec-conformant
    but the implementation is not.  First the corpus (`first`) and random histories; then, if those only produced disagreements between
    implementation and Model outside E10 (tie failures), the neighbourhood of those (`widen`)."""
    rng = random.Random(ctx.seed * 7919 + 101)
    cases = list(first) + [(gen_history(rng, rng.randint(8, 26)), True) for _ in range(budget // 2)]
    MULTI_P[0] = 0.6
    try:
        cases += [(gen_history(rng, rng.randint(6, 16), fibers=False), True) for _ in range(budget - budget // 2)]
    finally:
        MULTI_P[0] = 0.12
    res = run_cases(cases, workdir(ctx.seed, "search"), "search")
    ties = list(ties)
    for r in res:
        v, detail, _ = judge(r)
        if v == "spec":
            ctx.stream_stat("search", histories=len(res))
            return r, detail
        if v == "tie":
            ties.append(r)
    ties.sort(key=lambda r: len(r["stmts"]))
    wide = []
    for r in ties[:24]:
        wide += [(c, True) for c in widen(r["stmts"], r.get("fail_obs", 10 ** 6))]
    ctx.stream_stat("search", histories=len(res), tie_failures=len(ties), widened=len(wide))
    if wide:
        for r in run_cases(wide, workdir(ctx.seed, "search_widen"), "widen"):
            v, detail, _ = judge(r)
            if v == "spec":
                return r, detail
    return None


def replay_known(ctx):
    """Replay D7's committed witness; it is reported as KNOWN-FINDING while it still reproduces."""
    for f in common.load_findings(PROP):
        wpath = os.path.join(common.VERIF, f["witness"])
        out = common.run_batch([wpath])[0] or {}
        still = out.get("stdout", "") == "found\nfalse\n" and "KeyError" in out.get("stderr", "")
        ctx.stream_stat("known_" + f["id"], reproduces=int(still))
        if still:
            ctx.known(f["id"], f["what"])
        else:
            ctx.cov.setdefault("notes", []).append("known finding %s no longer reproduces: stdout=%r status=%s" %
                                                   (f["id"], out.get("stdout"), out.get("status")))


def run(ctx):
    proved = ctx.prove("LaytheVerif.Props.C10", extra_targets=("drv_listfwd",))
    ok_c, out_c = common.cargo_build()
    if not ok_c:
        ctx.violation("harness_build", {"kind": "harness-build-failed", "broken": "cargo build of /verif/harness against /repo",
                                        "output": out_c[-3000:]}, no_input=True)
        return
    ctx.cov["rule"] = ("random well-typed mutation histories (8-30 statements: push (0-2 values)/insert/pop (also of an empty list)/remove/clear/"
                       "index and field assignment, map set/remove, ==, has, index, map get/has, len; operations inside try/catch — insert, remove, "
                       "[]=, [] with an index in range, one past the end, far out, negative, fractional or nil, 70% of them aimed at a list whose "
                       "length equals its capacity — each followed by ==/len/has/index/map lookups through the aliases of the target) with aliases in locals, module variables, instance fields, "
                       "nested lists/tuples/maps (values and keys), captured variables/closures and a second fiber (launch argument, "
                       "channel); non-trivial = at least one list relocation and one observation; distinct by hash of the micro-op rendering")
    if not proved:
        what, detail = ctx.broken
        common.lake_build(["drv_listfwd"])      # the driver only needs the model, not the theorems
        found = search_spec(ctx, ctx.n(16000, 80000), first=load_corpus())
        if found:
            r, d = found
            p = report(ctx, r, "spec", d, "search")
            p["kind"] = "implementation-vs-spec"
            p["broken_obligation"] = what
            p["found_by"] = "search after broken proof obligation"
            ctx.cov["impl_vs_spec_failures"] += 1
            ctx.violation("spec", p)
        else:
            ctx.violation("proof", {"kind": "proof-obligation-failed", "broken": what, "detail": detail}, no_input=True)
        # one root cause, one VIOLATION line: the streams would only find the same thing again
        replay_known(ctx)
        return
    # corpus first
    pre = load_corpus()
    if pre:
        for r in run_cases(pre, workdir(ctx.seed, "corpus"), "corpus"):
            v, detail, _ = judge(r)
            if v == "spec":
                ctx.cov["impl_vs_spec_failures"] += 1
                p = report(ctx, r, v, detail, "corpus")
                p["kind"] = "implementation-vs-spec"
                ctx.violation("spec", p)
                replay_known(ctx)
                return
            # a tie failure on a corpus case is handled by the streams below (they run the search)
    plans = [("histories", ctx.n(8000, 120000), 26, True, True, True, 0, None),
             ("histories_nofiber", ctx.n(2500, 40000), 22, True, False, True, 1, None),
             ("histories_noscrub", ctx.n(4000, 60000), 26, False, True, False, 2, None),
             ("histories_gc_every2", ctx.n(600, 10000), 26, True, True, True, 3, "every:2")]
    for label, n, nst, scrub, fibers, exact, salt, gc in plans:
        first, st = stream(ctx, label, n, nst, scrub, fibers, exact, salt, gc)
        if first:
            r, v, detail = first
            if v == "spec":
                ctx.cov["impl_vs_spec_failures"] += 1
                p = report(ctx, r, v, detail, label)
                p["kind"] = "implementation-vs-spec"
                ctx.violation("spec", p)
            elif v == "internal":
                ctx.violation("internal", {"kind": "check-inconsistent", "broken": "generator / Lean Spec machine / Python Spec disagree",
                                           "what": detail, "source": r["source"], "ops": r["ops"]}, no_input=True)
            else:
                ctx.cov["model_vs_impl_disagreements"] += 1
                found = search_spec(ctx, ctx.n(16000, 80000), ties=[r] if v == "tie" else [])
                if found:
                    r2, d2 = found
                    p = report(ctx, r2, "spec", d2, "search")
                    p["kind"] = "implementation-vs-spec"
                    p["found_by"] = "search after tie failure in stream " + label
                    ctx.violation("spec", p)
                else:
                    p = report(ctx, r, v, detail, label)
                    p["kind"] = "model-vs-implementation"
                    p["broken"] = "correspondence stream %s (Model/ListFwd.lean vs list.rs / fiber scan_roots / natives)" % label
                    ctx.violation("tie", p, no_input=True)
            break
    replay_known(ctx)
    ctx.assumptions += [
        "the machine model (Model/ListFwd.lean) is hand-written from list.rs, raw_shared_vector.rs, value.rs, Fiber::scan_roots and the natives; "
        "its agreement with the implementation is checked observation by observation on the generated histories, not proved",
        "the micro-operation rendering of a statement mirrors the compiler's stack discipline (checked by the same streams, inside and outside E10); "
        "in the `histories` streams a call `scrub(0,…)` before every statement overwrites the dead part of the stack; the `histories_noscrub` stream "
        "omits it and is compared exactly only where the Model predicts Spec-conformant results",
        "garbage collection does not move or reuse reachable objects (C05; one stream runs with a full collection at every second allocation); "
        "number keys, NaN and -0 are C11/D8, not exercised here",
        "a raised error unwinds to the `try` of the same statement (Model: `M.raise`, stack top back at the handler's depth); what error construction "
        "leaves in the dead slots above (error class, message, instance: none of them reachable by the history) is modelled as `undef`; errors are "
        "raised on the main fiber only; which class of error is raised (IndexError / TypeError) is C11's matter and not compared",
        "lists are created by literals (capacity max(len, 4)); the growth rule is the repaired one, (cap * 2).max(needed) (ca8f885), which the model "
        "carries for every capacity incl. 0, but the history generator does not create capacity-0 lists (`[].iter().list()`): those are exercised by C11",
    ]


def replay(path):
    r = json.load(open(path))
    common.cargo_build()
    common.lake_build(["drv_listfwd"])
    if "stmts" not in r:
        print("no concrete input recorded:", r.get("broken") or r.get("kind"))
        return 1
    rr = run_cases([(from_json(r["stmts"]), r.get("scrub", True))], workdir("replay", "replay"), "r")[0]
    print(rr["source"].split("let c0 = || b0; let c1 = || b1;\n")[-1])
    m = rr["m"] or {}
    print("spec :", m.get("spec"))
    print("model:", m.get("model"))
    print("impl :", rr["impl"], rr["status"])
    v, detail, d7 = judge(rr)
    print("verdict:", v, detail, "(D7 instances: %d)" % d7)
    return 0 if v == "ok" else 1
