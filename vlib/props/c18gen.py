"""C18 — generator of call-chain programs with randomised line layout.

A case is a *plan* (JSON-able dict, the unit of shrinking / replay):

  {"frames": [ {"kind": ..., "params": n, "lib": bool, "handler": {...}|None, "fill": [...]} , ...],
   "final": {...}, "layout": {"seed": s, "p_tok": x, "p_stmt": y, "p_blank": z, "p_comment": w}}

frame 0 is the main script; frame i+1 is entered from frame i through the link kind of frame i+1.
`render(plan)` returns (files, description) where files = {"main.lay": text[, "lib.lay": text]} and
description is the token string understood by `drv_lines expect|judge` (Lean: Driver/LinesMain.lean):
the generator knows the true lines (span lo..hi and the documented anchor token) of every call and
raise site because it lays the tokens out itself.

Documented anchor rule (laythe_vm/src/compiler/mod.rs, peephole.rs):
  call `f(a, b)`            -> the closing parenthesis            (`call.end()`)
  `x.m()`  / `super.m()`    -> the method name (zero-argument calls are fused into Invoke /
                               SuperInvoke, which keep the line of GetPropByName / GetSuper)
  `x.m(a)` / `super.m(a)`   -> the closing parenthesis
  `raise e`                 -> the last token of the raised expression (`raise.end()`)
  `a + b`                   -> the last token of `b`;   `x.p` -> `p`;   `x[i]` -> the last token of `i`
  `for v in it`             -> the last token of `it` (IterNext / IterCurrent)
  a catch clause that declines the error runs ContinueUnwind on the line of its closing brace (the frame's own ip
  stays there; no report shows it since print_error reads the ips saved by pause_unwind — repaired D181).

Shapes that cross natives (nested interpreter loops) are all in scope: errors and exit() inside the callbacks of
each/map/reduce/any/all/filter/for-in/call()/print->str()/List.sort (comparator), a try in the very frame that
drives a lazy iterator, and modules: a second module with a callback, a module imported in the middle of the
script (`impmod`, its script frame runs on the import fiber), and a module that does not compile (`import_bad`,
through `import m;` or `import m: {f};`, from the script or from an imported module).
"""
import random
from urllib.parse import quote

# natives that keep a stack frame (`.with_stack()` in laythe_lib) — verified against the source text
# by c18.check_native_table()
STACK_NATIVES = {"each": ("iter.rs", "ITER_EACH"), "reduce": ("iter.rs", "ITER_REDUCE"), "any": ("iter.rs", "ITER_ANY"),
                 "all": ("iter.rs", "ITER_ALL"), "call": ("fun.rs", "FUN_CALL"), "print": ("../misc.rs", "PRINT"),
                 "[]": ("list.rs", "LIST_INDEX_GET"), "sort": ("list.rs", "LIST_SORT")}
STACKLESS_NATIVES = {"list": ("iter.rs", "ITER_LIST"), "next": ("iter.rs", "ITER_NEXT")}

LINK_KINDS = ["fn", "fn", "fn", "method", "method", "init", "static", "super", "lamlet", "lamlet", "each", "maplist",
              "reduce", "any", "all", "filterlist", "forin", "call", "printstr", "libfn", "sort", "sort"]
# links that run the next frame in a nested interpreter loop (a native calls back)
NATIVE_CALLBACK_KINDS = {"each", "maplist", "reduce", "any", "all", "filterlist", "forin", "call", "printstr", "sort"}
STACKLESS_CALLBACK_KINDS = {"maplist", "filterlist", "forin"}
LAMBDA_PARAMS = {"each": 1, "maplist": 1, "reduce": 2, "any": 1, "all": 1, "filterlist": 1, "forin": 1, "sort": 2}
NATIVES_OF = {"each": ["each"], "reduce": ["reduce"], "any": ["any"], "all": ["all"], "call": ["call"],
              "printstr": ["print"], "maplist": [], "filterlist": [], "forin": [], "sort": ["sort"]}
# frames whose body is the top level of a module (an `import` statement is only allowed there)
MODULE_KINDS = ("script", "impmod")

ERR_CLASSES = {  # class -> ancestor chain
    "Error": ["Error"], "MyErr": ["MyErr", "Error"], "SubErr": ["SubErr", "MyErr", "Error"],
    "InitErr": ["InitErr", "Error"], "OtherErr": ["OtherErr", "Error"],
    "RuntimeError": ["RuntimeError", "Error"], "IndexError": ["IndexError", "Error"],
    "PropertyError": ["PropertyError", "Error"], "TypeError": ["TypeError", "Error"],
    "NoMsgErr": ["NoMsgErr", "Error"],
}
# NoMsgErr never calls super.init: its message stays nil and is reported as `nil`
USER_ERR_DECLS = ["class MyErr : Error {}", "class SubErr : MyErr {}",
                  "class InitErr : Error { init(message) { super.init(message); } }", "class OtherErr : Error {}",
                  "class NoMsgErr : Error { init() { } }"]

FINAL_KINDS = ["raise", "raise", "raise", "raisesub", "raisesub", "add_nil", "undef_prop", "not_callable", "index",
               "raise_nonerror", "sort_nonnum", "exit", "exit", "finish"]
RUNTIME_FINALS = {
    "add_nil": ("RuntimeError", "Operands must be two numbers or two strings."),
    "undef_prop": ("PropertyError", "Undefined property foo on class Nil."),
    "not_callable": ("RuntimeError", "Nil is not callable."),
    "index": ("IndexError", "Index out of bounds. list was length 1 but attempted to index with 5."),
    "raise_nonerror": ("RuntimeError", "Can only raise an instance of Error"),
    # raised by the native List.sort itself (on top of the frame: `native:0 in sort()`) after its comparator returned nil
    "sort_nonnum": ("TypeError", "comparator must return a number."),
}
NATIVE_ON_TOP = {"index": "[]", "sort_nonnum": "sort"}
EXIT_CODES = [0, 1, 2, 3, 7, 42, 100, 255, 256, 257, 1000, 65535]
# modules that do not compile (parser, resolver and compiler diagnostics)
BAD_MODULES = ["export fn f() {\n  return 1 +;\n}\n", "export let f = ;\n", "export fn f() { return zzz_undefined; }\n",
               "export fn f() { break; }\n", "export let f = 1;\nlet f = 2;\n"]
N_FILLERS = 7


# ---------------------------------------------------------------------------------------------
# plans


def gen_plan(rng, max_depth=8):
    if rng.random() < 0.06:
        return gen_module_plan(rng)
    depth = rng.choice([0, 1, 1, 2, 2, 3, 3, 4, 5, 6, 7, 8])
    depth = min(depth, max_depth)
    frames = [{"kind": "script", "params": 0, "lib": False}]
    in_lib = False
    while len(frames) <= depth:
        prev = frames[-1]
        if in_lib:
            # inside the library module: plain functions, or leave through the callback parameter
            kind = rng.choice(["fn", "fn", "cb"])
            if kind == "cb":
                frames.append({"kind": "cb", "params": 0, "lib": False})
                in_lib = False
            else:
                frames.append({"kind": "fn", "params": 0, "lib": True})
            continue
        kind = rng.choice(LINK_KINDS)
        if kind == "super" and prev["kind"] not in ("method", "super"):
            kind = "method"
        if kind == "libfn":
            if any(f.get("lib") for f in frames):
                kind = "fn"       # one library segment per program
            else:
                frames.append({"kind": "libfn", "params": 0, "lib": True})
                in_lib = True
                continue
        params = LAMBDA_PARAMS.get(kind)
        if params is None:
            params = 0 if kind in ("printstr",) else rng.choice([0, 0, 1, 2])
        frames.append({"kind": kind, "params": params, "lib": False})
    fix_lib(frames)
    # final action
    fk = rng.choice(FINAL_KINDS)
    final = {"kind": fk}
    if fk == "raise":
        final.update(cls="Error", msg=rng.choice(["boom", "bad thing happened", "E1"]))
    elif fk == "raisesub":
        final.update(cls=rng.choice(["MyErr", "SubErr", "InitErr", "NoMsgErr"]), msg=rng.choice(["sub boom", "oops"]))
        if final["cls"] == "NoMsgErr":
            final["msg"] = "nil"
        if frames[-1]["lib"]:
            final.update(kind="raise", cls="Error")
    elif fk == "exit":
        final.update(code=rng.choice(EXIT_CODES + [None]))
    return finish_plan(rng, frames, final)


def finish_plan(rng, frames, final):
    # handlers
    for i, f in enumerate(frames):
        f["handler"] = None
        f["handler2"] = None     # a second try nested inside the first one, same frame
        f["fill"] = [rng.randrange(N_FILLERS) for _ in range(rng.choice([0, 0, 1, 2]))]
        if rng.random() < 0.38:
            f["handler"] = gen_handler(rng, i, final)
            if rng.random() < 0.3:
                f["handler2"] = gen_handler(rng, i, final)
                if "msg" in f["handler2"]:
                    f["handler2"]["msg"] = "inner outer %d" % i
    plan = {"frames": frames, "final": final,
            "layout": {"seed": rng.randrange(1 << 30), "p_tok": rng.choice([0.0, 0.0, 0.05, 0.2, 0.5, 0.9]),
                       "p_stmt": rng.choice([0.3, 0.8, 1.0, 1.0]), "p_blank": rng.choice([0.0, 0.1, 0.3]),
                       "p_comment": rng.choice([0.0, 0.05, 0.2])}}
    return sanitize(plan)


def gen_module_plan(rng):
    """The innermost frame is the top level of a module: the script itself, or a module it imports in the middle
    of the script (`impmod`: that module's script frame runs on the import fiber).  Ends with the import of a
    module that does not compile, with exit(), or normally."""
    frames = [{"kind": "script", "params": 0, "lib": False}]
    if rng.random() < 0.5:
        frames.append({"kind": "impmod", "params": 0, "lib": False})
    fk = rng.choice(["import_bad", "import_bad", "import_bad", "exit", "finish"])
    final = {"kind": fk}
    if fk == "import_bad":
        final.update(sym=rng.random() < 0.4, bad=rng.randrange(len(BAD_MODULES)))
    elif fk == "exit":
        final.update(code=rng.choice(EXIT_CODES + [None]))
    return finish_plan(rng, frames, final)


def fix_lib(frames):
    """library segment bookkeeping: lib frames take the callback parameter iff the chain leaves the library again"""
    lib_idx = [i for i, f in enumerate(frames) if f["lib"]]
    if lib_idx:
        leaves = lib_idx[-1] + 1 < len(frames)
        for i in lib_idx:
            frames[i]["params"] = 1 if leaves else 0
            frames[i]["cbparam"] = leaves


def normalize(plan):
    """Re-validate a (mutated) plan; returns the sanitized plan or None when its shape is impossible."""
    import copy
    plan = copy.deepcopy(plan)
    frames = plan["frames"]
    if not frames or frames[0]["kind"] != "script":
        return None
    in_lib = False
    seen_lib = False
    for j, f in enumerate(frames):
        if j == 0:
            continue
        k = f["kind"]
        if k == "libfn":
            if in_lib or seen_lib:
                return None
            in_lib = seen_lib = True
            f["lib"] = True
        elif k == "cb":
            if not in_lib:
                return None
            in_lib = False
            f["lib"] = False
            f["params"] = 0
        elif in_lib:
            if k != "fn":
                return None
            f["lib"] = True
        elif k == "impmod":
            if j != 1 or len(frames) != 2:
                return None
            f["lib"] = False
            f["params"] = 0
        else:
            f["lib"] = False
            f.pop("cbparam", None)
            if k == "super" and frames[j - 1]["kind"] not in ("method", "super"):
                return None
            if k in LAMBDA_PARAMS:
                f["params"] = LAMBDA_PARAMS[k]
            if k == "printstr":
                f["params"] = 0
    fix_lib(frames)
    fin = plan["final"]
    if fin["kind"] == "raisesub" and frames[-1]["lib"]:
        fin.update(kind="raise", cls="Error")
    if fin["kind"] == "import_bad" and frames[-1]["kind"] not in MODULE_KINDS:
        return None
    if frames[-1]["kind"] == "impmod" and fin["kind"] not in ("import_bad", "exit", "finish"):
        return None      # an error raised on the import fiber does not reach the importing frames (fibers: out of this stream)
    for f in frames:
        f.setdefault("handler", None)
        f.setdefault("handler2", None)
        f.setdefault("fill", [])
    return sanitize(plan)


def gen_handler(rng, i, final):
    filt = rng.choice([None, None, "Error", "Error", "exact", "super", "IndexError", "OtherErr", "TypeError"])
    act = rng.choice(["cont", "cont", "cont", "exit", "wrap", "wrap", "wrapnoinner", "wrapsub", "rethrow"])
    h = {"filter": filt, "action": act, "printcls": rng.random() < 0.5}
    if act == "exit":
        h["code"] = rng.choice(EXIT_CODES)
    if act in ("wrap", "wrapnoinner", "wrapsub"):
        h["msg"] = "outer %d" % i
        h["cls"] = "MyErr" if act == "wrapsub" else "Error"
    return h


def err_chain_of_final(final):
    k = final["kind"]
    if k in ("raise", "raisesub"):
        return ERR_CLASSES[final["cls"]], final["msg"]
    if k in RUNTIME_FINALS:
        cls, msg = RUNTIME_FINALS[k]
        return (ERR_CLASSES[cls] if cls != "?" else ["?", "Error"]), msg
    return None, None


def resolve_filter(filt, chain):
    """concrete class name of a handler filter for an error with ancestor chain `chain`"""
    if filt == "exact":
        return chain[0] if chain[0] != "?" else "Error"
    if filt == "super":
        return chain[1] if len(chain) > 1 else chain[0]
    return filt


def handlers_of(f):
    """the try blocks of a frame, outermost first"""
    return [h for h in (f.get("handler"), f.get("handler2") if f.get("handler") else None) if h]


def flat_handlers(frames):
    """(frame index, handler index in the frame, handler), innermost first"""
    out = []
    for c in range(len(frames) - 1, -1, -1):
        hs = handlers_of(frames[c])
        for t in range(len(hs) - 1, -1, -1):
            out.append((c, t, hs[t]))
    return out


def walk(plan, stop_at=None):
    """Follow the error through the handlers.  Returns a summary dict: outcome in {finish, exit, cont, uncaught},
    exit_frames, declined_before_uncaught, sensitive_cls_use, arriving = (chain, msg) of the error that arrives at
    handler `stop_at` = (c, t) (None if it never does)."""
    frames, final = plan["frames"], plan["final"]
    res = {"outcome": None, "exit_frames": [], "declined_before_uncaught": None, "sensitive_cls_use": False, "arriving": None}
    chain, msg = err_chain_of_final(final)
    if final["kind"] == "exit":
        res["exit_frames"].append(len(frames) - 1)
        res["outcome"] = "exit"
        return res
    if chain is None:
        res["outcome"] = final["kind"]
        return res
    declined = []
    for c, t, h in flat_handlers(frames):
        if stop_at == (c, t):
            res["arriving"] = (chain, msg)
        f = resolve_filter(h["filter"], chain)
        if f is None or f in chain:
            a = h["action"]
            if a == "cont":
                res["outcome"] = "cont"
                return res
            if a == "exit":
                res["exit_frames"].append(c)
                res["outcome"] = "exit"
                return res
            if a in ("wrap", "wrapnoinner", "wrapsub"):
                chain, msg = ERR_CLASSES[h["cls"]], h["msg"]
            declined = []
        else:
            declined.append((c, t))
    res["outcome"] = "uncaught"
    if declined:
        res["declined_before_uncaught"] = declined[-1]
        res["declined_list"] = declined
    return res


def final_outcome(plan):
    return walk(plan)["outcome"]


def sanitize(plan):
    """Keep the plan well formed.  No shape is avoided: an unhandled error that passed declining catch clauses
    (the repaired D181) is generated like every other outcome."""
    frames, final = plan["frames"], plan["final"]
    n = len(frames)
    for j, f in enumerate(frames):
        # an `import` statement must stay at module level: no try around the site of a frame that imports
        if (j + 1 < n and frames[j + 1]["kind"] == "impmod") or (j + 1 == n and final["kind"] == "import_bad"):
            f["handler"] = f["handler2"] = None
    for j, f in enumerate(frames):
        if not f.get("handler"):
            f["handler2"] = None
        for h in handlers_of(f):
            if f["lib"] or f["kind"] == "impmod":
                # the other module does not see the main module's error classes
                if h["filter"] in ("exact", "super", "OtherErr"):
                    h["filter"] = "Error"
                if h["action"] == "wrapsub":
                    h["action"], h["cls"] = "wrap", "Error"
            if h["action"] in ("wrap", "wrapnoinner", "wrapsub") and not h.get("msg"):
                h["msg"] = "outer %d" % j
                h.setdefault("cls", "Error")
    return plan


# ---------------------------------------------------------------------------------------------
# tokens and layout


class Tok:
    __slots__ = ("text", "tags", "stmt")

    def __init__(self, text, tags=(), stmt=False):
        self.text = text
        self.tags = list(tags)
        self.stmt = stmt      # a statement starts here (preferred line break)


def toks(src, *tagged):
    """Split `src` on spaces into tokens; `tagged` = (index or token text, tag) pairs."""
    ts = [Tok(t) for t in src.split(" ") if t]
    for where, tag in tagged:
        if isinstance(where, int):
            ts[where].tags.append(tag)
        else:
            hit = [t for t in ts if t.text == where]
            hit[-1 if tag[-1] in ("hi", "anchor") else 0].tags.append(tag)
    return ts


def stmt(ts):
    if ts:
        ts[0].stmt = True
    return ts


def layout(tokens, lay):
    rng = random.Random(lay["seed"])
    lines = [[]]
    where = {}
    depth = 0

    def newline():
        lines.append([])

    for i, t in enumerate(tokens):
        if i > 0:
            p = lay["p_stmt"] if t.stmt else lay["p_tok"]
            if rng.random() < p:
                newline()
                if t.stmt:
                    while rng.random() < lay["p_blank"]:
                        newline()
                    if rng.random() < lay["p_comment"]:
                        lines[-1].append("// " + rng.choice(["note", "a comment ( with ) tokens ;", "raise Error(\"no\");"]))
                        newline()
        if t.text == "}":
            depth = max(0, depth - 1)
        if not lines[-1]:
            lines[-1].append("  " * depth + t.text if rng.random() < 0.8 else t.text)
        else:
            lines[-1].append(t.text)
        if t.text == "{":
            depth += 1
        for tag in t.tags:
            where[tag] = len(lines)
    text = "\n".join(" ".join(l) for l in lines)
    if rng.random() < 0.7:
        text += "\n"
    return text, where


# ---------------------------------------------------------------------------------------------
# rendering a plan into Laythe source


FILLERS = [
    "let {v} = 1 + 2 ;",
    "let {v} = [ 1 , 2 , 3 ] ; {v} . len ( ) ;",
    "if true {{ let {v} = 2 ; }}",
    "while false {{ }}",
    "let {v} = \"s\" + \"t\" ;",
    "let {v} = ( 1 , 2 ) ;",
    "print ( ) ;",          # writes an empty line
]
PRINTING_FILLERS = {6: ""}


class Renderer:
    def __init__(self, plan):
        self.plan = plan
        self.frames = plan["frames"]
        self.final = plan["final"]
        self.n = len(self.frames)
        self.vcount = 0
        self.decls = {False: [], True: []}   # top-level declarations per file (main / lib), each a token list
        self.names = [None] * self.n
        self.files = [0] * self.n
        self.natives = [[] for _ in range(self.n)]
        self.after = [[] for _ in range(self.n)]
        self.uses_user_errs = False
        self.mod_body = None      # token list of mod.lay (link kind impmod)
        self.bad_module = None    # text of bad.lay (final import_bad)
        self.file_names = ["main.lay"] + (["lib.lay"] if any(f["lib"] for f in self.frames) else [])

    def fresh(self):
        self.vcount += 1
        return "v%d" % self.vcount

    def marker(self, i):
        return "m%d" % i

    def args(self, n, cb=None):
        a = ["%d" % (k + 1) for k in range(n)]
        if cb is not None:
            a = [cb]
        out = []
        for k, x in enumerate(a):
            if k:
                out.append(",")
            out.append(x)
        return " ".join(out)

    def params(self, f, names=("a", "b")):
        if f.get("cbparam"):
            return "cb"
        return " , ".join(names[:f["params"]])

    # -- the statement in frame i that enters frame i+1 (also declares frame i+1) --------------
    def link(self, i, let_name):
        """Returns token list of the site statement in frame i entering frame i+1."""
        j = i + 1
        f = self.frames[j]
        kind = f["kind"]
        body = lambda ln: self.body(j, ln)
        S = lambda role: ("s", i, role)
        p = f["params"]
        self.files[j] = 1 if f["lib"] else 0
        if kind == "impmod":
            self.names[j] = "script"
            self.file_names.append("mod.lay")
            self.files[j] = len(self.file_names) - 1
            self.mod_body = body(None)
            ts = toks("import self . mod ;")
            ts[0].tags.append(S("lo"))
            ts[-2].tags += [S("hi"), S("anchor")]
            return ts
        if kind in ("fn", "libfn", "cb", "call"):
            name = "f%d" % j
            self.names[j] = name
            export = "export " if kind == "libfn" else ""
            decl = toks("%sfn %s ( %s ) {" % (export, name, self.params(f))) + body(None) + toks("}")
            self.decls[f["lib"]].append(decl)
            # what is passed down when the callee lives in the library and the chain leaves it again
            cbarg = None
            if f.get("cbparam"):
                nxt = [k for k in range(j + 1, self.n) if not self.frames[k]["lib"]][0]
                cbarg = "cb" if self.frames[i]["lib"] else "f%d" % nxt
            if kind == "libfn":
                a = self.args(0, cbarg) if cbarg else ""
                ts = toks("lib . %s ( %s ) ;" % (name, a))
                ts[0].tags.append(S("lo"))
                ts[-2].tags.append(S("hi"))
                (ts[-2] if a else ts[2]).tags.append(S("anchor"))
                return ts
            if kind == "cb":
                ts = toks("cb ( ) ;")
                ts[0].tags.append(S("lo"))
                ts[-2].tags += [S("hi"), S("anchor")]
                return ts
            if kind == "call":
                self.natives[i] = ["call"]
                a = self.args(p)
                ts = toks("%s . call ( %s ) ;" % (name, a))
                ts[0].tags.append(S("lo"))
                ts[-2].tags.append(S("hi"))
                (ts[-2] if a else ts[2]).tags.append(S("anchor"))
                return ts
            a = self.args(p, cbarg)
            ts = toks("%s ( %s ) ;" % (name, a))
            ts[0].tags.append(S("lo"))
            ts[-2].tags += [S("hi"), S("anchor")]
            return ts
        if kind in ("method", "static", "init", "super"):
            cname = "K%d" % j
            mname = {"method": "m%d" % j, "static": "s%d" % j, "init": "init", "super": "b%d" % j}[kind]
            self.names[j] = mname
            # the class of frame j inherits from the class of frame j+1 when frame j+1 is entered by `super.`
            base = ""
            if j + 1 < self.n and self.frames[j + 1]["kind"] == "super":
                base = ": K%d " % (j + 1)
            pre = "static " if kind == "static" else ""
            decl = toks("class %s %s{ %s%s ( %s ) {" % (cname, base, pre, mname, self.params(f))) + body(None) + toks("} }")
            self.decls[False].append(decl)
            a = self.args(p)
            if kind == "method":
                ts = toks("%s ( ) . %s ( %s ) ;" % (cname, mname, a))
                ts[0].tags.append(S("lo"))
                ts[-2].tags.append(S("hi"))
                (ts[-2] if a else ts[4]).tags.append(S("anchor"))
            elif kind == "static":
                ts = toks("%s . %s ( %s ) ;" % (cname, mname, a))
                ts[0].tags.append(S("lo"))
                ts[-2].tags.append(S("hi"))
                (ts[-2] if a else ts[2]).tags.append(S("anchor"))
            elif kind == "init":
                ts = toks("%s ( %s ) ;" % (cname, a))
                ts[0].tags.append(S("lo"))
                ts[-2].tags += [S("hi"), S("anchor")]
            else:
                ts = toks("super . %s ( %s ) ;" % (mname, a))
                ts[0].tags.append(S("lo"))
                ts[-2].tags.append(S("hi"))
                (ts[-2] if a else ts[2]).tags.append(S("anchor"))
            return ts
        if kind == "lamlet":
            name = "g%d" % j
            self.names[j] = name
            lam = (toks("| %s | {" % self.params(f)) if p else toks("|| {")) + self.body(j, name) + toks("}")
            ts = toks("let %s =" % name) + lam + toks(";")
            call = stmt(toks("%s ( %s ) ;" % (name, self.args(p))))
            call[0].tags.append(S("lo"))
            call[-2].tags += [S("hi"), S("anchor")]
            return ts + call
        if kind == "printstr":
            cname = "S%d" % j
            self.names[j] = "str"
            self.natives[i] = ["print"]
            self.after[i] = ["s%d" % j]
            decl = toks("class %s { str ( ) {" % cname) + body(None) + stmt(toks("return \"s%d\" ;" % j)) + toks("} }")
            self.decls[False].append(decl)
            ts = toks("print ( %s ( ) ) ;" % cname)
            ts[0].tags.append(S("lo"))
            ts[-2].tags += [S("hi"), S("anchor")]
            return ts
        # lambdas handed to natives
        self.names[j] = let_name or "lambda"
        self.natives[i] = list(NATIVES_OF[kind])
        pn = {1: "x", 2: "a , x"}[p]
        lam = toks("| %s | {" % pn) + self.body(j, let_name) + toks("}")
        if kind in ("each", "any", "all"):
            ts = toks("[ 0 ] . iter ( ) . %s (" % kind) + lam + toks(") ;")
            ts[0].tags.append(S("lo"))
            ts[-2].tags += [S("hi"), S("anchor")]
        elif kind == "reduce":
            ts = toks("[ 0 ] . iter ( ) . reduce ( 0 ,") + lam + toks(") ;")
            ts[0].tags.append(S("lo"))
            ts[-2].tags += [S("hi"), S("anchor")]
        elif kind == "sort":
            # two elements: the comparator is called exactly once; it must answer a number when it returns
            lam = lam[:-1] + stmt(toks("return 0 ;")) + lam[-1:]
            ts = toks("[ 2 , 1 ] . sort (") + lam + toks(") ;")
            ts[0].tags.append(S("lo"))
            ts[-2].tags += [S("hi"), S("anchor")]
        elif kind in ("maplist", "filterlist"):
            ts = toks("[ 0 ] . iter ( ) . %s (" % ("map" if kind == "maplist" else "filter")) + lam + toks(") . list ( ) ;")
            ts[0].tags.append(S("lo"))
            ts[-2].tags.append(S("hi"))
            ts[-4].tags.append(S("anchor"))
        elif kind == "forin":
            ts = toks("for q in [ 0 ] . iter ( ) . map (") + lam + toks(") { }")
            ts[3].tags.append(S("lo"))
            ts[-3].tags += [S("hi"), S("anchor")]
        else:
            raise ValueError(kind)
        return ts

    def final_stmt(self, i):
        S = lambda role: ("s", i, role)
        fin = self.final
        k = fin["kind"]
        if k in ("raise", "raisesub"):
            if fin["cls"] != "Error":
                self.uses_user_errs = True
            if fin["cls"] == "NoMsgErr":
                ts = toks("raise NoMsgErr ( ) ;")
            else:
                ts = toks("raise %s ( \"%s\" ) ;" % (fin["cls"], fin["msg"].replace(" ", "\x00")))
            ts[0].tags.append(S("lo"))
            ts[-2].tags += [S("hi"), S("anchor")]
        elif k == "import_bad":
            self.bad_module = BAD_MODULES[fin.get("bad", 0) % len(BAD_MODULES)]
            ts = toks("import self . bad : { f } ;" if fin.get("sym") else "import self . bad ;")
            ts[0].tags.append(S("lo"))
            ts[-2].tags += [S("hi"), S("anchor")]
        elif k == "add_nil":
            ts = toks("1 + nil ;")
            ts[0].tags.append(S("lo"))
            ts[2].tags += [S("hi"), S("anchor")]
        elif k == "undef_prop":
            ts = toks("nil . foo ;")
            ts[0].tags.append(S("lo"))
            ts[2].tags += [S("hi"), S("anchor")]
        elif k == "not_callable":
            v = self.fresh()
            ts = toks("let %s = nil ;" % v) + stmt(toks("%s ( ) ;" % v))
            ts[-4].tags.append(S("lo"))
            ts[-2].tags += [S("hi"), S("anchor")]
        elif k == "index":
            ts = toks("[ 1 ] [ 5 ] ;")
            ts[0].tags.append(S("lo"))
            ts[-2].tags.append(S("hi"))
            ts[4].tags.append(S("anchor"))
        elif k == "sort_nonnum":
            ts = toks("[ 2 , 1 ] . sort ( | a , x | nil ) ;")
            ts[0].tags.append(S("lo"))
            ts[-2].tags += [S("hi"), S("anchor")]
        elif k == "raise_nonerror":
            ts = toks("raise 5 ;")
            ts[0].tags.append(S("lo"))
            ts[1].tags += [S("hi"), S("anchor")]
        elif k == "exit":
            ts = toks("exit ( %s ) ;" % ("" if fin.get("code") is None else fin["code"]))
            ts[0].tags.append(S("lo"))
            ts[-2].tags += [S("hi"), S("anchor")]
        else:
            ts = []
        for t in ts:
            t.text = t.text.replace("\x00", " ")
        return ts

    def catch_clause(self, i, t, h):
        A = lambda role: ("a", i, t, role)
        m = self.marker(i) + ("i" * t)
        h["_tag"] = m
        arriving = walk(self.plan, stop_at=(i, t))["arriving"]
        chain = arriving[0] if arriving else None
        filt = resolve_filter(h["filter"], chain) if chain else h["filter"]
        if filt in ("exact", "super"):
            filt = "Error"
        if filt in ("MyErr", "SubErr", "InitErr", "OtherErr"):
            self.uses_user_errs = True
        h["_filter"] = filt
        ts = toks("catch e %s{" % (": %s " % filt if filt else ""))
        ts += stmt([Tok("print"), Tok("("), Tok("\"H %s\"" % m), Tok(","), Tok("e"), Tok("."), Tok("message"), Tok(")"), Tok(";")])
        if h["printcls"]:
            ts += stmt(toks("print ( \"cls\" , e . cls ( ) . name ( ) ) ;"))
        ts += stmt(toks("print ( \"bt\" , e . backTrace . len ( ) ) ;"))
        ts += stmt(toks("for l in e . backTrace { print ( l ) ; }"))
        x = self.fresh()
        ts += stmt(toks("let %s = e . inner ;" % x))
        ts += stmt(toks("while %s != nil {" % x))
        ts += stmt([Tok("print"), Tok("("), Tok("\"inner\""), Tok(","), Tok(x), Tok("."), Tok("message"), Tok(")"), Tok(";")])
        ts += stmt(toks("print ( \"bt\" , %s . backTrace . len ( ) ) ;" % x))
        ts += stmt(toks("for l in %s . backTrace { print ( l ) ; }" % x))
        ts += stmt(toks("%s = %s . inner ; }" % (x, x)))
        ts += stmt([Tok("print"), Tok("("), Tok("\"inner nil\""), Tok(")"), Tok(";")])
        a = h["action"]
        if a == "exit":
            ts += stmt(toks("exit ( %d ) ;" % h["code"]))
        elif a in ("wrap", "wrapnoinner", "wrapsub"):
            if h["cls"] != "Error":
                self.uses_user_errs = True
            inner = "" if a == "wrapnoinner" else " , e"
            r = [Tok("raise", [A("lo")]), Tok(h["cls"]), Tok("("), Tok("\"%s\"" % h["msg"])] + \
                ([Tok(","), Tok("e")] if inner else []) + [Tok(")", [A("hi"), A("anchor")]), Tok(";")]
            ts += stmt(r)
        elif a == "rethrow":
            ts += stmt([Tok("raise", [A("lo")]), Tok("e", [A("hi"), A("anchor")]), Tok(";")])
        ts.append(Tok("}", [("h", i, t, "cont")]))
        return ts

    def body(self, i, let_name):
        """Token list of the statements of frame i."""
        f = self.frames[i]
        m = self.marker(i)
        ts = stmt([Tok("print"), Tok("("), Tok("\"in %s\"" % m), Tok(")"), Tok(";")])
        for k in f.get("fill", []):
            ts += stmt(toks(FILLERS[k].format(v=self.fresh())))
        site = stmt(self.link(i, let_name)) if i + 1 < self.n else stmt(self.final_stmt(i))
        hs = handlers_of(f)
        for t in range(len(hs) - 1, -1, -1):
            site = stmt(toks("try {")) + site + toks("}") + self.catch_clause(i, t, hs[t])
        ts += site
        ts += stmt([Tok("print"), Tok("("), Tok("\"ret %s\"" % m), Tok(")"), Tok(";")])
        return ts

    def render(self):
        self.names[0] = "script"
        script = self.body(0, None)
        uses_lib = any(f["lib"] for f in self.frames)
        main = []
        if uses_lib:
            main += stmt(toks("import self . lib ;"))
        if self.uses_user_errs:
            for d in USER_ERR_DECLS:
                main += stmt(toks(d.replace("(", " ( ").replace(")", " ) ").replace(";", " ;").replace(".", " . ")))
        for d in self.decls[False]:
            main += stmt(d)
        main += script
        lay = self.plan["layout"]
        files = {}
        text, where = layout(main, lay)
        files["main.lay"] = text
        where_by_file = {0: where}
        if uses_lib:
            lib = []
            for d in self.decls[True]:
                lib += stmt(d)
            lay2 = dict(lay)
            lay2["seed"] = lay["seed"] ^ 0x5A5A
            text2, where2 = layout(lib, lay2)
            files["lib.lay"] = text2
            where_by_file[1] = where2
        if self.mod_body is not None:
            lay3 = dict(lay)
            lay3["seed"] = lay["seed"] ^ 0x3C3C
            text3, where3 = layout(self.mod_body, lay3)
            files["mod.lay"] = text3
            where_by_file[self.file_names.index("mod.lay")] = where3
        if self.bad_module is not None:
            files["bad.lay"] = self.bad_module
        return files, self.describe(where_by_file)

    def describe(self, where_by_file):
        q = lambda s: quote(s, safe="")
        out = ["files", str(len(self.file_names))] + [q("@/" + n) for n in self.file_names]
        out += ["frames", str(self.n)]
        for i, f in enumerate(self.frames):
            w = where_by_file[self.files[i]]
            site = [w.get(("s", i, r), 0) for r in ("lo", "hi", "anchor")]
            out += ["F", q(self.marker(i)), q(self.names[i]), str(self.files[i])] + [str(x) for x in site]
            out += [str(len(self.natives[i]))] + [q(x) for x in self.natives[i]]
            out += [str(len(self.after[i]))] + [q(x) for x in self.after[i]]
            # does the call to the next frame run it in a nested interpreter loop (a native calls back)?
            out.append("1" if i + 1 < self.n and self.frames[i + 1]["kind"] in NATIVE_CALLBACK_KINDS else "0")
            pre = [PRINTING_FILLERS[k] for k in f.get("fill", []) if k in PRINTING_FILLERS]
            out += [str(len(pre))] + ["E" + q(x) for x in pre]
            hs = handlers_of(f)
            out += ["H", str(len(hs))]
            for t, h in enumerate(hs):
                out += [q(h["_tag"]), q(h["_filter"]) if h["_filter"] else "-", str(w[("h", i, t, "cont")]), "1" if h["printcls"] else "0"]
                a = h["action"]
                if a == "cont":
                    out.append("C")
                elif a == "exit":
                    out += ["X", str(h["code"])]
                elif a == "rethrow":
                    out += ["R"] + [str(w[("a", i, t, r)]) for r in ("lo", "hi", "anchor")]
                else:
                    out += ["W", q(",".join(ERR_CLASSES[h["cls"]])), q(h["msg"])] + \
                           [str(w[("a", i, t, r)]) for r in ("lo", "hi", "anchor")] + ["0" if a == "wrapnoinner" else "1"]
        fin = self.final
        chain, msg = err_chain_of_final(fin)
        if chain:
            top = [NATIVE_ON_TOP[fin["kind"]]] if fin["kind"] in NATIVE_ON_TOP else []
            out += ["raise", q(",".join(chain)), q(msg), str(len(top))] + [q(x) for x in top]
        elif fin["kind"] == "exit":
            out += ["exit", "-" if fin.get("code") is None else str(fin["code"])]
        elif fin["kind"] == "import_bad":
            out.append("importfail")
        else:
            out.append("finish")
        return " ".join(out)


def render(plan):
    import copy
    return Renderer(copy.deepcopy(plan)).render()


def features(plan):
    """Counters for the evidence."""
    fr = plan["frames"]
    d = {"depth_%d" % (len(fr) - 1): 1, "final_" + plan["final"]["kind"]: 1, "outcome_" + final_outcome(plan): 1}
    for f in fr[1:]:
        d["link_" + f["kind"]] = d.get("link_" + f["kind"], 0) + 1
    for f in fr:
        if len(handlers_of(f)) == 2:
            d["nested_try_same_frame"] = d.get("nested_try_same_frame", 0) + 1
        for h in handlers_of(f):
            d["handler"] = d.get("handler", 0) + 1
            d["action_" + h["action"]] = d.get("action_" + h["action"], 0) + 1
            d["filter_%s" % h["filter"]] = d.get("filter_%s" % h["filter"], 0) + 1
    if any(f.get("lib") for f in fr):
        d["second_module"] = 1
    # the shapes of the repaired findings (D181–D185, D1) — in scope, counted for the evidence
    sim = walk(plan)
    dl = sim.get("declined_list")
    if dl:
        d["uncaught_after_declined_catch"] = 1
        d["uncaught_after_%d_declined" % min(len(dl), 3)] = 1
        if len({c for c, _ in dl}) < len(dl):
            d["uncaught_after_two_declined_in_one_frame"] = 1
        if any(fr[j]["kind"] in NATIVE_CALLBACK_KINDS for c, _ in dl for j in range(c + 1, len(fr))):
            d["uncaught_declined_below_native_callback"] = 1
    raises = err_chain_of_final(plan["final"])[0] is not None
    for c in sim["exit_frames"]:
        k = sum(1 for j in range(1, c + 1) if fr[j]["kind"] in NATIVE_CALLBACK_KINDS)
        if k:
            d["exit_under_native_callback"] = 1
            d["exit_under_%d_natives" % min(k, 3)] = 1
    if raises:
        for j, f in enumerate(fr[:-1]):
            if handlers_of(f) and fr[j + 1]["kind"] in STACKLESS_CALLBACK_KINDS:
                d["try_in_frame_driving_lazy_iterator"] = d.get("try_in_frame_driving_lazy_iterator", 0) + 1
            if handlers_of(f) and f["params"]:
                d["try_in_frame_with_parameters"] = d.get("try_in_frame_with_parameters", 0) + 1
        if any(f["kind"] == "sort" for f in fr[1:]) or plan["final"]["kind"] == "sort_nonnum":
            d["error_crosses_sort"] = 1
    if plan["final"]["kind"] == "import_bad":
        d["import_bad_symbol_form" if plan["final"].get("sym") else "import_bad_module_form"] = 1
        if fr[-1]["kind"] == "impmod":
            d["import_bad_from_imported_module"] = 1
    lay = plan["layout"]
    d["layout_ptok_%s" % lay["p_tok"]] = 1
    return d
