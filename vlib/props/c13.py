"""C13 — inline caches are transparent.  DESIGN.md §5 C13."""
import json
import os
import random

from .. import common, sched_stream

PROP = "C13"
LEVEL = "proof"


def site_program(rng):
    """A program with shared property/invoke/super sites reached by a random history of receiver
    classes (field, method, field shadowing a method, neither, non-instances, classes created and
    dropped in a loop).  Expected output follows from the slow-path rules, computed here."""
    ncls = rng.randint(2, 6)
    lines, shapes = [], []
    for c in range(ncls):
        shape = rng.choice(["field", "method", "shadow", "none", "method", "field"])
        shapes.append(shape)
        parent = ""
        if c > 0 and rng.random() < 0.4 and shapes[c - 1] in ("method", "none"):
            parent = " : K%d" % (c - 1)
        body = ["class K%d%s {" % (c, parent), "  init() {"]
        if parent:
            body.append("    super.init();")
        if shape == "field":
            body.append("    self.f = %d;" % (100 + c))
        if shape == "shadow":
            body.append("    self.f = || %d;" % (300 + c))
        body.append("    self.g = %d;" % (500 + c))
        body.append("  }")
        if shape in ("method", "shadow"):
            body.append("  f() { return %d; }" % (200 + c))
        if parent:
            body.append("  h() { return super.h() + 1; }")
        else:
            body.append("  h() { return %d; }" % (700 + c))
        body.append("}")
        lines += body
        shapes[c] = (shape, parent)
    lines.append("fn getf(o) { return o.f; }")
    lines.append("fn callf(o) { return o.f(); }")
    lines.append("fn setg(o, v) { o.g = v; return o.g; }")
    lines.append("fn callh(o) { return o.h(); }")
    lines.append("fn show(x) { if x == nil { print(\"nil\"); } else { print(x); } }")
    # a class declaration evaluated many times with different super classes: its super sites are
    # shared by all the resulting classes (call and bound-read forms)
    lines.append("fn mk(base) {")
    lines.append("  class D : base {")
    lines.append("    h() { return super.h() + 1000; }")
    lines.append("    hm() { let m = super.h; return m() + 2000; }")
    lines.append("    gg() { return self.g; }")
    lines.append("  }")
    lines.append("  return D;")
    lines.append("}")
    lines.append("fn callhm(o) { return o.hm(); }")
    exp = []

    def has_method_f(c):
        while True:
            shape, parent = shapes[c]
            if shape in ("method", "shadow"):
                return 200 + c
            if not parent:
                return None
            c -= 1

    def hval(c):
        shape, parent = shapes[c]
        if not parent:
            return 700 + c
        return hval(c - 1) + 1

    n = rng.randint(6, 24)
    for i in range(n):
        c = rng.randrange(ncls)
        shape, parent = shapes[c]
        kind = rng.choice(["get", "call", "set", "h", "call", "get", "mk", "mk"])
        if kind == "mk":
            form = rng.choice(["h", "hm", "gg", "hh"])
            if form == "h":
                lines.append("show(callh(mk(K%d)()));" % c)
                exp.append(str(hval(c) + 1000))
            elif form == "hm":
                lines.append("show(callhm(mk(K%d)()));" % c)
                exp.append(str(hval(c) + 2000))
            elif form == "hh":
                lines.append("show(callh(mk(mk(K%d))()));" % c)
                exp.append(str(hval(c) + 2000))
            else:
                lines.append("show(mk(K%d)().gg());" % c)
                exp.append(str(500 + c))
            continue
        if kind == "get":
            if shape == "field":
                lines.append("show(getf(K%d()));" % c)
                exp.append(str(100 + c))
            elif shape == "shadow":
                lines.append("show(getf(K%d())());" % c)
                exp.append(str(300 + c))
            elif has_method_f(c) is not None:
                lines.append("show(getf(K%d())());" % c)
                exp.append(str(has_method_f(c)))
            else:
                lines.append("try { show(getf(K%d())); } catch e: Error { print(\"err\"); }" % c)
                exp.append("err")
        elif kind == "call":
            if shape == "shadow":
                lines.append("show(callf(K%d()));" % c)
                exp.append(str(300 + c))
            elif shape == "field":
                lines.append("try { show(callf(K%d())); } catch e: Error { print(\"err\"); }" % c)
                exp.append("err")
            elif has_method_f(c) is not None:
                lines.append("show(callf(K%d()));" % c)
                exp.append(str(has_method_f(c)))
            else:
                lines.append("try { show(callf(K%d())); } catch e: Error { print(\"err\"); }" % c)
                exp.append("err")
        elif kind == "set":
            v = rng.randint(0, 99)
            lines.append("show(setg(K%d(), %d));" % (c, v))
            exp.append(str(v))
        else:
            lines.append("show(callh(K%d()));" % c)
            exp.append(str(hval(c)))
        if rng.random() < 0.15:
            # non-instance receivers at the same sites
            lines.append("try { show(callf(%s)); } catch e: Error { print(\"err\"); }" % rng.choice(["1", "nil", '"s"', "[1]"]))
            exp.append("err")
        if rng.random() < 0.1:
            lines.append("try { show(setg(%s, 1)); } catch e: Error { print(\"err\"); }" % rng.choice(["1", "nil", '"s"']))
            exp.append("err")
    # class churn through the same sites: classes created and dropped at run time
    k = rng.randint(3, 30)
    lines.append("let acc = 0;")
    lines.append("for i in %d.times() {" % k)
    lines.append("  class T { init() { self.f = i; self.g = i; } h() { return i * 2; } }")
    lines.append("  let o = T();")
    lines.append("  acc = acc + getf(o) + setg(o, i + 1) + callh(o);")
    lines.append("  let junk = [\"j${i}\", [i], {\"k\": i}];")
    lines.append("}")
    lines.append("print(acc);")
    exp.append(str(sum(i + (i + 1) + 2 * i for i in range(k))))
    return "\n".join(lines) + "\n", "\n".join(exp) + "\n"


def run(ctx):
    proved = ctx.prove("LaytheVerif.Props.C13Heap")
    ok_c, out_c = common.cargo_build()
    if not ok_c:
        ctx.violation("harness_build", {"kind": "harness-build-failed", "broken": "cargo build of /verif/harness against /repo",
                                        "output": out_c[-3000:]}, no_input=True)
        return
    ctx.cov["rule"] = ("(a) site-history programs: shared get/set/invoke/super sites reached by random histories over 2-6 classes (field, method, field "
                       "shadowing a method, neither, inherited, non-instances) plus classes created and dropped in a loop; expected output from the "
                       "slow-path rules; each run with caches on, forced off (hook), and under collection schedules incl. full collections at every "
                       "allocation (address reuse); (b) generated programs and fixtures: caches on vs off must agree; non-trivial = program with a "
                       "polymorphic site")
    if not proved:
        what, detail = ctx.broken
        ctx.violation("proof", {"kind": "proof-obligation-failed", "broken": what, "detail": detail}, no_input=True)
    rng = random.Random(ctx.seed * 911 + 13)
    d = os.path.join(common.VERIF, "work", "c13_%s" % ctx.tier)
    os.makedirs(d, exist_ok=True)
    progs = []
    for k in range(ctx.n(300, 20000)):
        src, exp = site_program(rng)
        f = os.path.join(d, "s%d.lay" % k)
        open(f, "w").write(src)
        progs.append((f, src, exp))
    # minimised past failures first
    cdir = os.path.join(common.VERIF, "corpus", "C13")
    for fn in sorted(os.listdir(cdir)) if os.path.isdir(cdir) else []:
        if fn.endswith(".lay") and os.path.exists(os.path.join(cdir, fn[:-4] + ".exp")):
            progs.append((os.path.join(cdir, fn), open(os.path.join(cdir, fn)).read(), open(os.path.join(cdir, fn[:-4] + ".exp")).read()))
    modes = ["", "--caches-off", "--gc every:1 --full 1", "--gc every:3 --full 1", "--caches-off --gc every:2"]
    if not ctx.quick():
        modes += ["--gc every:2 --full 1", "--gc coin:1/3:%d --full 1" % ctx.seed, "--gc every:5"]
    for mode in modes:
        runs = common.run_batch(["%s --steps 400000 %s" % (mode, f) for f, _, _ in progs])
        for (f, src, exp), r in zip(progs, runs):
            ctx.count_case((src, mode), nontrivial=True)
            if r["status"] != "Ok:0" or r["stdout"] != exp:
                ctx.cov["impl_vs_spec_failures"] += 1
                ctx.violation("sites", {"kind": "implementation-vs-spec",
                                        "what": "a property/invoke/super site did not behave like the slow-path lookup",
                                        "mode": mode or "default", "program": src, "expected": exp, "status": r["status"],
                                        "stdout": r["stdout"], "stderr": r["stderr"][-600:]})
                return
        ctx.stream_stat("sites", programs=len(progs), runs=len(progs))
    ctx.sample({"program": progs[0][1][:1500], "expected": progs[0][2]})
    files = sched_stream.write_generated(ctx, ctx.n(120, 3000), "gen") + sched_stream.fixture_programs(ctx.n(260, None))
    if not sched_stream.compare_modes(ctx, "cache_off", files, ["--caches-off"], steps=300000, what="inline caches being enabled"):
        return
    ctx.assumptions += [
        "class tables are frozen once the class expression finished (C03 declareClass theorems) — the World of the model",
        "class addresses identify classes for as long as a slot caches them: the caches are traced as roots (D16 repair, 077cf99), so a cached class is not collected and its address not reused; C13_witness_address_reuse shows what happens otherwise, and the class-factory/class-churn part of the site stream under full collections at every allocation searches for it (that is how D16 was found)",
        "slot numbering is per module: a module is compiled once (files, imports) or, for the REPL's module, entry by entry with the ids continuing after those already handed out and the vectors grown in place (D13 repaired) — that the ids of a whole session are distinct and in range is C19's (C19_cache_ids_consecutive, C19_cache_slots_disjoint, C19_cache_slots_in_range), tied to the code by C19's sessions stream",
    ]


def replay(path):
    r = json.load(open(path))
    common.cargo_build()
    tmp = os.path.join(common.VERIF, "work", "c13_replay.lay")
    os.makedirs(os.path.dirname(tmp), exist_ok=True)
    open(tmp, "w").write(r.get("program", ""))
    if "expected" in r:
        mode = r.get("mode", "")
        a = common.run_batch(["%s --steps 400000 %s" % ("" if mode == "default" else mode, tmp)])[0]
        print(a["status"], a["stdout"])
        return 1 if (a["status"] != "Ok:0" or a["stdout"] != r["expected"]) else 0
    a = common.run_batch(["--steps 300000 " + tmp])[0]
    b = common.run_batch(["--caches-off --steps 300000 " + tmp])[0]
    print(a["status"], "|", b["status"])
    return 1 if sched_stream.canon(a) != sched_stream.canon(b) else 0
