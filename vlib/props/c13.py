"""C13 — inline caches are transparent.  DESIGN.md §5 C13."""
import json
import os
import random

from .. import common, sched_stream

PROP = "C13"
LEVEL = "proof"


def site_program(rng):
    """A program with shared property/invoke/super sites reached by a random history of receiver
    classes (field, method, field shadowing a method, neither, non-instances, classes created and
    dropped in a loop).  Expected output follows from the slow-path rules, computed here.
    Returns {"prelude": [lines], "events": [(line, expected output line)]}; every event is
    independent of the others (fresh receivers), so any subset is a program with known output."""
    ncls = rng.randint(2, 6)
    lines, shapes = [], []
    for c in range(ncls):
        shape = rng.choice(["field", "method", "shadow", "none", "method", "field"])
        shapes.append(shape)
        parent = ""
        if c > 0 and rng.random() < 0.4 and shapes[c - 1] in ("method", "none"):
            parent = " : K%d" % (c - 1)
        body = ["class K%d%s {" % (c, parent), "  init() {"]
        if parent:
            body.append("    super.init();")
        if shape == "field":
            body.append("    self.f = %d;" % (100 + c))
        if shape == "shadow":
            body.append("    self.f = || %d;" % (300 + c))
        body.append("    self.g = %d;" % (500 + c))
        body.append("  }")
        if shape in ("method", "shadow"):
            body.append("  f() { return %d; }" % (200 + c))
        if parent:
            body.append("  h() { return super.h() + 1; }")
        else:
            body.append("  h() { return %d; }" % (700 + c))
        body.append("}")
        lines += body
        shapes[c] = (shape, parent)
    lines.append("fn getf(o) { return o.f; }")
    lines.append("fn callf(o) { return o.f(); }")
    # round 5 (seed C13_r5): the callable held by a shadowing field belongs to the instance, not to the class
    lines.append("fn withf(o, v) { o.f = || v; return o; }")
    lines.append("fn setg(o, v) { o.g = v; return o.g; }")
    # the same write as an expression whose value is used: what the site leaves on the stack is observed
    lines.append("fn setv(o, v) { return o.g = v; }")
    lines.append("fn addv(o, v) { return o.g += v; }")
    lines.append("fn chain(a, b, v) { let r = a.g = b.g = v; return r + a.g + b.g; }")
    lines.append("fn callh(o) { return o.h(); }")
    lines.append("fn show(x) { if x == nil { print(\"nil\"); } else { print(x); } }")
    # a class declaration evaluated many times with different super classes: its super sites are
    # shared by all the resulting classes (call and bound-read forms)
    lines.append("fn mk(base) {")
    lines.append("  class D : base {")
    lines.append("    h() { return super.h() + 1000; }")
    lines.append("    hm() { let m = super.h; return m() + 2000; }")
    lines.append("    gg() { return self.g; }")
    lines.append("    sg(v) { return 3000 + (self.g = v); }")
    lines.append("  }")
    lines.append("  return D;")
    lines.append("}")
    lines.append("fn callhm(o) { return o.hm(); }")
    events = []

    def has_method_f(c):
        while True:
            shape, parent = shapes[c]
            if shape in ("method", "shadow"):
                return 200 + c
            if not parent:
                return None
            c -= 1

    def hval(c):
        shape, parent = shapes[c]
        if not parent:
            return 700 + c
        return hval(c - 1) + 1

    def ev(line, exp):
        events.append((line, str(exp)))

    n = rng.randint(6, 24)
    c = 0
    for i in range(n):
        # a site hits when the class it saw last arrives again: repeat the previous class half of the time
        if i == 0 or rng.random() < 0.5:
            c = rng.randrange(ncls)
        shape, parent = shapes[c]
        kind = rng.choice(["get", "call", "set", "h", "call", "get", "mk", "mk", "setv", "addv", "chain", "setv"])
        if shape in ("shadow", "field") and kind in ("call", "get") and rng.random() < 0.5:
            v = rng.randint(900, 999)
            if kind == "call":
                ev("show(callf(withf(K%d(), %d)));" % (c, v), v)
            else:
                ev("show(getf(withf(K%d(), %d))());" % (c, v), v)
            continue
        if kind == "mk":
            form = rng.choice(["h", "hm", "gg", "hh", "sg"])
            if form == "h":
                ev("show(callh(mk(K%d)()));" % c, hval(c) + 1000)
            elif form == "hm":
                ev("show(callhm(mk(K%d)()));" % c, hval(c) + 2000)
            elif form == "hh":
                ev("show(callh(mk(mk(K%d))()));" % c, hval(c) + 2000)
            elif form == "sg":
                v = rng.randint(0, 99)
                ev("show(mk(K%d)().sg(%d));" % (c, v), 3000 + v)
            else:
                ev("show(mk(K%d)().gg());" % c, 500 + c)
            continue
        if kind == "get":
            if shape == "field":
                ev("show(getf(K%d()));" % c, 100 + c)
            elif shape == "shadow":
                ev("show(getf(K%d())());" % c, 300 + c)
            elif has_method_f(c) is not None:
                ev("show(getf(K%d())());" % c, has_method_f(c))
            else:
                ev("try { show(getf(K%d())); } catch e: Error { print(\"err\"); }" % c, "err")
        elif kind == "call":
            if shape == "shadow":
                ev("show(callf(K%d()));" % c, 300 + c)
            elif shape == "field":
                ev("try { show(callf(K%d())); } catch e: Error { print(\"err\"); }" % c, "err")
            elif has_method_f(c) is not None:
                ev("show(callf(K%d()));" % c, has_method_f(c))
            else:
                ev("try { show(callf(K%d())); } catch e: Error { print(\"err\"); }" % c, "err")
        elif kind == "set":
            v = rng.randint(0, 99)
            ev("show(setg(K%d(), %d));" % (c, v), v)
        elif kind == "setv":
            v = rng.randint(0, 99)
            ev("show(setv(K%d(), %d));" % (c, v), v)
        elif kind == "addv":
            v = rng.randint(0, 99)
            ev("show(addv(K%d(), %d));" % (c, v), 500 + c + v)
        elif kind == "chain":
            v = rng.randint(0, 99)
            c2 = c if rng.random() < 0.6 else rng.randrange(ncls)
            ev("show(chain(K%d(), K%d(), %d));" % (c, c2, v), 3 * v)
        else:
            ev("show(callh(K%d()));" % c, hval(c))
        if rng.random() < 0.15:
            # non-instance receivers at the same sites
            ev("try { show(callf(%s)); } catch e: Error { print(\"err\"); }" % rng.choice(["1", "nil", '"s"', "[1]"]), "err")
        if rng.random() < 0.1:
            ev("try { show(%s(%s, 1)); } catch e: Error { print(\"err\"); }" % (rng.choice(["setg", "setv", "addv"]), rng.choice(["1", "nil", '"s"'])), "err")
    # class churn through the same sites: classes created and dropped at run time
    k = rng.randint(3, 30)
    ev("let acc = 0; for i in %d.times() { class T { init() { self.f = i; self.g = i; } h() { return i * 2; } } let o = T(); "
       "acc = acc + getf(o) + setg(o, i + 1) + callh(o) + setv(o, i + 2) + setv(o, i + 3) + addv(o, 4); "
       "let junk = [\"j${i}\", [i], {\"k\": i}]; } print(acc);" % k,
       sum(i + (i + 1) + 2 * i + (i + 2) + (i + 3) + (i + 7) for i in range(k)))
    return {"kind": "sites", "prelude": lines, "events": events}


def render_sites(prog, events=None):
    events = prog["events"] if events is None else events
    return "\n".join(prog["prelude"] + [l for l, _ in events]) + "\n", "".join(e + "\n" for _, e in events)


# ------------------------------------------------------------------------------------------------
# write-expression site histories.  A property write is an expression; its value is the assigned
# value on the first execution of the site (fill) and on every later one (hit).  The programs keep a
# pool of long-lived instances, send them through shared write sites of every syntactic form whose
# value is used, and print both the value of each write expression and, at the end, every field.

class _Err(Exception):
    pass


def _vsrc(v):
    if v is None:
        return "nil"
    if isinstance(v, bool):
        return "true" if v else "false"
    if isinstance(v, str):
        return '"%s"' % v
    return str(v)


def _vout(v):
    if v is None:
        return "nil"
    if isinstance(v, bool):
        return "true" if v else "false"
    return str(v)


W_FIELDS = ["a", "b", "c"]
# name -> (declaration, number of receivers, needs a numeric value)
W_SITES = {
    "wa": ("fn wa(o, v) { return o.a = v; }", 1, False),                       # plain, returned
    "wb": ("fn wb(o, v) { return o.b = v; }", 1, False),
    "wc": ("let wc = |o, v| o.c = v;", 1, False),                              # lambda body
    "inca": ("fn inca(o, v) { return o.a += v; }", 1, True),                   # compound, returned
    "arb": ("fn arb(o, v) { return 1000 + (o.b += v); }", 1, True),            # compound inside arithmetic
    "ch": ("fn ch(p, q, v) { return p.a = q.b = v; }", 2, False),              # chained
    "arg": ("fn arg(o, v) { return ident(o.c = v); }", 1, False),              # call argument
    "loc": ("fn loc(o, v) { let t = o.b = v; return t; }", 1, False),          # initialiser of a local
    "two": ("fn two(o, v) { return (o.a = v) + (o.b = v + 1); }", 1, True),    # two writes in one expression
    "lst": ("fn lst(o, v) { let l = [o.c = v, o.a = v]; return l[0]; }", 1, False),  # list elements
    "st": ("fn st(o, v) { o.a = v; return o.a; }", 1, False),                  # statement form (value dropped)
}


def _w_classes(rng):
    ncls = rng.randint(2, 5)
    classes = []
    for c in range(ncls):
        parent = rng.randrange(c) if c > 0 and rng.random() < 0.45 else None
        inherited = list(classes[parent]["fields"]) if parent is not None else []
        own = [f for f in rng.sample(W_FIELDS, rng.randint(1, 3)) if f not in inherited]
        if parent is not None and rng.random() < 0.25:
            own = []
        fields = inherited + own
        meths = {}
        for f in fields:
            if rng.random() < 0.5:
                meths["set" + f] = ("set", f)
            if rng.random() < 0.35:
                meths["inc" + f] = ("inc", f)
        # a method named like a field the class does not have: writes never look at methods
        for f in W_FIELDS:
            if f not in fields and rng.random() < 0.25:
                meths[f] = ("const", f)
        classes.append({"parent": parent, "own": own, "fields": fields, "meths": meths,
                        "init": {f: 10 * c + k for k, f in enumerate(own)}})
    return classes


def _w_class_src(c, cl):
    out = ["class W%d%s {" % (c, "" if cl["parent"] is None else " : W%d" % cl["parent"])]
    if cl["own"] or cl["parent"] is None:
        out.append("  init() {")
        if cl["parent"] is not None:
            out.append("    super.init();")
        for f in cl["own"]:
            out.append("    self.%s = %d;" % (f, cl["init"][f]))
        out.append("  }")
    for name, (kind, f) in sorted(cl["meths"].items()):
        if kind == "set":
            out.append("  %s(v) { return self.%s = v; }" % (name, f))
        elif kind == "inc":
            out.append("  %s(v) { return self.%s += v; }" % (name, f))
        else:
            out.append("  %s() { return 1; }" % name)
    out.append("}")
    return out


def write_program(rng):
    """{"kind": "writes", "classes", "pool": [class index per long-lived instance], "events": [...]}.
    The expected output is computed by `render_writes` (a monitor applying the slow-path rules), for
    any sub-list of the events."""
    classes = _w_classes(rng)
    pool = [rng.randrange(len(classes)) for _ in range(rng.randint(2, 6))]
    # make sure some class has two instances: a hit with another instance of the same class
    pool.append(rng.choice(pool))
    sites = rng.sample(sorted(W_SITES), rng.randint(3, len(W_SITES)))
    events, last = [], {}

    def pick(site):
        """an instance index; repeats the class this site saw last more often than not (hits)"""
        if site in last and rng.random() < 0.6:
            same = [k for k, c in enumerate(pool) if c == last[site]]
            k = rng.choice(same)
        else:
            k = rng.randrange(len(pool))
        last[site] = pool[k]
        return k

    def value(numeric):
        r = rng.random()
        if numeric or r < 0.8:
            return rng.randint(0, 99)
        return rng.choice(["s%d" % rng.randint(0, 9), None, True, False])

    for _ in range(rng.randint(8, 30)):
        r = rng.random()
        if r < 0.62:
            site = rng.choice(sites)
            _, nrecv, numeric = W_SITES[site]
            recv = [("p", pick(site if j == 0 else site + "#2")) for j in range(nrecv)]
            if rng.random() < 0.06:
                recv[rng.randrange(nrecv)] = ("lit", rng.choice(["1", "nil", '"s"', "[1]", "true"]))
            events.append({"k": "call", "site": site, "recv": recv, "v": value(numeric)})
        elif r < 0.74:
            # a method whose body writes through `self` (by name when the class has an explicit superclass)
            k = rng.randrange(len(pool))
            ms = _w_methods(classes, pool[k])
            ms = [m for m, (kind, _) in sorted(ms.items()) if kind != "const"]
            if ms:
                events.append({"k": "meth", "obj": k, "m": rng.choice(ms), "v": rng.randint(0, 99)})
        elif r < 0.80:
            events.append({"k": "loop_call", "site": rng.choice(sites), "obj": rng.randrange(len(pool)), "n": rng.randint(2, 5)})
        elif r < 0.86:
            events.append({"k": "loop_show", "obj": rng.randrange(len(pool)), "f": rng.choice(W_FIELDS), "n": rng.randint(2, 5)})
        elif r < 0.91:
            events.append({"k": "loop_chain", "p": rng.randrange(len(pool)), "q": rng.randrange(len(pool)),
                           "f": rng.choice(W_FIELDS), "g": rng.choice(W_FIELDS), "n": rng.randint(2, 5)})
        elif r < 0.96:
            events.append({"k": "loop_sum", "obj": rng.randrange(len(pool)), "f": rng.choice(W_FIELDS), "n": rng.randint(2, 5)})
        else:
            events.append({"k": "churn", "n": rng.randint(2, 8), "sites": [s for s in sites if s in ("wa", "wb", "inca", "st")]})
    return {"kind": "writes", "classes": classes, "pool": pool, "events": events}


def _w_methods(classes, c):
    ms = {}
    chain = []
    while c is not None:
        chain.append(c)
        c = classes[c]["parent"]
    for c in reversed(chain):
        ms.update(classes[c]["meths"])
    return ms


def render_writes(prog, events=None, stats=None):
    """Source and expected output of the program made of `events` (default: all).  The monitor: an
    instance is a dict of its class's fields; `o.f = v` on an instance whose class has field f stores v
    and evaluates to v, otherwise raises (caught and printed as `err`); `o.f += v` reads, adds, writes.
    `stats`, if given, receives how many write-site executions were first/hit/refill according to the
    per-site entry rule (fill on a miss that finds the field) — distribution counters only."""
    classes, pool = prog["classes"], prog["pool"]
    events = prog["events"] if events is None else events
    lines = []
    for c, cl in enumerate(classes):
        lines += _w_class_src(c, cl)
    lines.append("fn show(x) { if x == nil { print(\"nil\"); } else { print(x); } }")
    lines.append("fn ident(x) { return x; }")
    for name in sorted(W_SITES):
        lines.append(W_SITES[name][0])
    objs = []
    for k, c in enumerate(pool):
        lines.append("let p%d = W%d();" % (k, c))
        o = {"cls": c, "fields": {}}
        cc, chain = c, []
        while cc is not None:
            chain.append(cc)
            cc = classes[cc]["parent"]
        for cc in reversed(chain):
            o["fields"].update(classes[cc]["init"])
        objs.append(o)
    exp = []
    entry = {}

    def note(site, o):
        if stats is None:
            return
        key = o["cls"] if isinstance(o["cls"], int) else id(o)
        if site not in entry:
            stats["first"] = stats.get("first", 0) + 1
        elif entry[site] == key:
            stats["hit"] = stats.get("hit", 0) + 1
        else:
            stats["refill"] = stats.get("refill", 0) + 1
        entry[site] = key

    def wr(site, o, f, v):
        if o is None or f not in o["fields"]:
            if stats is not None:
                stats["error"] = stats.get("error", 0) + 1
            raise _Err()
        note(site, o)
        o["fields"][f] = v
        return v

    def rd(o, f):
        if o is None or f not in o["fields"]:
            raise _Err()
        return o["fields"][f]

    def add(x, v):
        if isinstance(x, bool) or not isinstance(x, int):
            raise _Err()
        return x + v

    def call(site, os_, v):
        o = os_[0]
        if site == "wa":
            return wr(site, o, "a", v)
        if site == "wb":
            return wr(site, o, "b", v)
        if site == "wc":
            return wr(site, o, "c", v)
        if site == "inca":
            return wr(site, o, "a", add(rd(o, "a"), v))
        if site == "arb":
            return 1000 + wr(site, o, "b", add(rd(o, "b"), v))
        if site == "ch":
            return wr("ch.a", o, "a", wr("ch.b", os_[1], "b", v))
        if site == "arg":
            return wr(site, o, "c", v)
        if site == "loc":
            return wr(site, o, "b", v)
        if site == "two":
            x = wr("two.a", o, "a", v)
            return x + wr("two.b", o, "b", v + 1)
        if site == "lst":
            x = wr("lst.c", o, "c", v)
            wr("lst.a", o, "a", v)
            return x
        if site == "st":
            wr(site, o, "a", v)
            return rd(o, "a")
        raise AssertionError(site)

    def guarded(line, f):
        """the statement inside try/catch; expected output: what `f` yields, `err` appended if it raises"""
        lines.append("try { %s } catch e: Error { print(\"err\"); }" % line)
        out = []
        try:
            f(out)
        except _Err:
            out.append("err")
        exp.extend(out)

    uid = 0
    for e in events:
        uid += 1
        if e["k"] == "call":
            os_ = [objs[k] if t == "p" else None for t, k in e["recv"]]
            args = ", ".join(("p%d" % k) if t == "p" else k for t, k in e["recv"])
            guarded("show(%s(%s, %s));" % (e["site"], args, _vsrc(e["v"])),
                    lambda out, e=e, os_=os_: out.append(_vout(call(e["site"], os_, e["v"]))))
        elif e["k"] == "meth":
            o = objs[e["obj"]]
            kind, f = _w_methods(classes, o["cls"])[e["m"]]
            # the site inside the method body is shared by every class that inherits the method
            site = "m.%s" % e["m"]
            if kind == "set":
                guarded("show(p%d.%s(%d));" % (e["obj"], e["m"], e["v"]),
                        lambda out, o=o, f=f, e=e, site=site: out.append(_vout(wr(site, o, f, e["v"]))))
            else:
                guarded("show(p%d.%s(%d));" % (e["obj"], e["m"], e["v"]),
                        lambda out, o=o, f=f, e=e, site=site: out.append(_vout(wr(site, o, f, add(rd(o, f), e["v"])))))
        elif e["k"] == "loop_call":
            site = e["site"]
            nrecv = W_SITES[site][1]
            o = objs[e["obj"]]

            def run_loop(out, site=site, o=o, n=e["n"], nrecv=nrecv):
                for i in range(n):
                    out.append(_vout(call(site, [o] * nrecv, i + 3)))
            guarded("for i in %d.times() { show(%s(%s, i + 3)); }" % (e["n"], site, ", ".join(["p%d" % e["obj"]] * nrecv)), run_loop)
        elif e["k"] == "loop_show":
            o = objs[e["obj"]]

            def run_loop(out, o=o, f=e["f"], n=e["n"], site="top%d" % uid):
                for i in range(n):
                    out.append(_vout(wr(site, o, f, i + 5)))
            guarded("for i in %d.times() { show(p%d.%s = i + 5); }" % (e["n"], e["obj"], e["f"]), run_loop)
        elif e["k"] == "loop_chain":
            p, q = objs[e["p"]], objs[e["q"]]

            def run_loop(out, p=p, q=q, f=e["f"], g=e["g"], n=e["n"], site="top%d" % uid):
                for i in range(n):
                    wr(site + ".p", p, f, wr(site + ".q", q, g, i * 10))
            guarded("for i in %d.times() { p%d.%s = p%d.%s = i * 10; }" % (e["n"], e["p"], e["f"], e["q"], e["g"]), run_loop)
        elif e["k"] == "loop_sum":
            o = objs[e["obj"]]

            def run_loop(out, o=o, f=e["f"], n=e["n"], site="top%d" % uid):
                t = 0
                for i in range(n):
                    t = t + wr(site, o, f, add(rd(o, f), 2))
                out.append(_vout(t))
            guarded("let t = 0; for i in %d.times() { t = t + (p%d.%s += 2); } show(t);" % (e["n"], e["obj"], e["f"]), run_loop)
        elif e["k"] == "churn":
            # classes created and dropped at run time through the shared write sites: a fill, then a hit, per class
            terms, tot = [], 0
            for i in range(e["n"]):
                o = {"cls": ("T", uid, i), "fields": {"b": 0, "a": i}}
                for s_ in e["sites"]:
                    tot += call(s_, [o], i + 1) + call(s_, [o], i + 2)
                tot += wr("top%d" % uid, o, "b", i)
            for s_ in e["sites"]:
                terms.append("%s(o, i + 1) + %s(o, i + 2)" % (s_, s_))
            terms.append("(o.b = i)")
            lines.append("let acc%d = 0; for i in %d.times() { class T { init() { self.b = 0; self.a = i; } } let o = T(); acc%d = acc%d + %s; "
                         "let junk = [\"j${i}\", [i]]; } show(acc%d);" % (uid, e["n"], uid, uid, " + ".join(terms), uid))
            exp.append(_vout(tot))
    # every field of every long-lived instance, read at sites of their own
    for k, o in enumerate(objs):
        for f in sorted(o["fields"]):
            lines.append("show(p%d.%s);" % (k, f))
            exp.append(_vout(o["fields"][f]))
    return "\n".join(lines) + "\n", "".join(x + "\n" for x in exp)


RENDER = {"sites": render_sites, "writes": render_writes}


def _fails(prog, events, mode, tmp):
    src, exp = RENDER[prog["kind"]](prog, events)
    open(tmp, "w").write(src)
    r = common.run_batch(["%s --steps 400000 %s" % (mode, tmp)])[0]
    return (r["status"] != "Ok:0" or r["stdout"] != exp), src, exp, r


def shrink(prog, mode, tmp, budget=250):
    """Delta-debugging over the event list (the expected output is recomputed for every candidate)."""
    events = list(prog["events"])
    n = 2
    runs = 0
    while len(events) >= 2 and runs < budget:
        chunk = max(1, len(events) // n)
        reduced = False
        for i in range(0, len(events), chunk):
            cand = events[:i] + events[i + chunk:]
            runs += 1
            if cand and _fails(prog, cand, mode, tmp)[0]:
                events, n, reduced = cand, max(n - 1, 2), True
                break
        if not reduced:
            if chunk == 1:
                break
            n = min(len(events), n * 2)
    return events


def run(ctx):
    proved = ctx.prove("LaytheVerif.Props.C13Heap")
    ok_c, out_c = common.cargo_build()
    if not ok_c:
        ctx.violation("harness_build", {"kind": "harness-build-failed", "broken": "cargo build of /verif/harness against /repo",
                                        "output": out_c[-3000:]}, no_input=True)
        return
    ctx.cov["rule"] = ("(a) site-history programs: shared get/set/invoke/super sites reached by random histories over 2-6 classes (field, method, field "
                       "shadowing a method — also with a different callable per instance —, neither, inherited, non-instances) plus classes created and dropped in a loop; (a') write-expression "
                       "histories: long-lived instances of 2-5 classes (field subsets in different orders, inheritance) sent through shared write sites "
                       "of every syntactic form whose value is used (returned, lambda body, compound, inside arithmetic, chained, call argument, local "
                       "initialiser, list element, self-writes in methods, top-level loops), the value of every write expression and every field printed; "
                       "expected output from the slow-path rules; each run with caches on, forced off (hook), and under collection schedules incl. full "
                       "collections at every allocation (address reuse); (b) generated programs and fixtures: caches on vs off must agree; non-trivial = "
                       "program with a polymorphic site")
    broken = None
    if not proved:
        # a proof obligation no longer holds (or the source no longer reads as the model's statements): search for a
        # concrete failing input with a bigger budget; only if none is found report the obligation itself
        broken = ctx.broken
    concrete = _streams(ctx, boost=3 if (broken and ctx.quick()) else 1, broken=broken)
    if broken and not concrete:
        what, detail = broken
        ctx.violation("proof", {"kind": "proof-obligation-failed", "broken": what, "detail": detail}, no_input=True)
    ctx.assumptions += [
        "class tables are frozen once the class expression finished (C03 declareClass theorems) — the World of the model",
        "class addresses identify classes for as long as a slot caches them: the caches are traced as roots (D16 repair, 077cf99), so a cached class is not collected and its address not reused; C13_witness_address_reuse shows what happens otherwise, and the class-factory/class-churn part of the site stream under full collections at every allocation searches for it (that is how D16 was found)",
        "slot numbering is per module: a module is compiled once (files, imports) or, for the REPL's module, entry by entry with the ids continuing after those already handed out and the vectors grown in place (D13 repaired) — that the ids of a whole session are distinct and in range is C19's (C19_cache_ids_consecutive, C19_cache_slots_disjoint, C19_cache_slots_in_range), tied to the code by C19's sessions stream",
        "the operand-stack statements of op_set_prop_by_name / op_get_prop_by_name are read from the Rust text path by path (Gen.CacheSites.paths) and interpreted by the model's SOp machine; the other statements of the four ops are pinned as text (C13_paths_eq_gen)",
    ]


def _streams(ctx, boost=1, broken=None):
    """Runs the streams; returns True iff a concrete failing input was reported."""
    rng = random.Random(ctx.seed * 911 + 13)
    d = os.path.join(common.VERIF, "work", "c13_%s" % ctx.tier)
    os.makedirs(d, exist_ok=True)
    progs = []      # (file, source, expected, structured program or None)
    wstats = {}
    for k in range(ctx.n(300, 20000) * boost):
        prog = site_program(rng)
        src, exp = render_sites(prog)
        f = os.path.join(d, "s%d.lay" % k)
        open(f, "w").write(src)
        progs.append((f, src, exp, prog))
    for k in range(ctx.n(300, 20000) * boost):
        prog = write_program(rng)
        src, exp = render_writes(prog, stats=wstats)
        f = os.path.join(d, "w%d.lay" % k)
        open(f, "w").write(src)
        progs.append((f, src, exp, prog))
    # minimised past failures first
    cdir = os.path.join(common.VERIF, "corpus", "C13")
    corpus = []
    if not os.environ.get("C13_NO_CORPUS"):
        for fn in sorted(os.listdir(cdir)) if os.path.isdir(cdir) else []:
            if fn.endswith(".lay") and os.path.exists(os.path.join(cdir, fn[:-4] + ".exp")):
                corpus.append((os.path.join(cdir, fn), open(os.path.join(cdir, fn)).read(), open(os.path.join(cdir, fn[:-4] + ".exp")).read(), None))
    progs = corpus + progs
    modes = ["", "--caches-off", "--gc every:1 --full 1", "--gc every:3 --full 1", "--caches-off --gc every:2"]
    if not ctx.quick():
        modes += ["--gc every:2 --full 1", "--gc coin:1/3:%d --full 1" % ctx.seed, "--gc every:5"]
    for mode in modes:
        runs = common.run_batch(["%s --steps 400000 %s" % (mode, f) for f, _, _, _ in progs])
        for (f, src, exp, prog), r in zip(progs, runs):
            ctx.count_case((src, mode), nontrivial=True)
            if r["status"] != "Ok:0" or r["stdout"] != exp:
                ctx.cov["impl_vs_spec_failures"] += 1
                payload = {"kind": "implementation-vs-spec",
                           "what": "a property/invoke/super site did not behave like the slow-path lookup",
                           "mode": mode or "default", "found_in": os.path.basename(f)}
                if prog is not None:
                    tmp = os.path.join(d, "shrink.lay")
                    events = shrink(prog, mode, tmp)
                    still, src2, exp2, r2 = _fails(prog, events, mode, tmp)
                    if still:
                        src, exp, r = src2, exp2, r2
                        payload["events_before_shrinking"] = len(prog["events"])
                        payload["events"] = len(events)
                payload.update({"program": src, "expected": exp, "status": r["status"], "stdout": r["stdout"], "stderr": r["stderr"][-600:]})
                if broken:
                    payload["proof_obligation_broken_too"] = broken[0]
                    payload["proof_detail"] = broken[1][-1500:]
                ctx.violation("sites", payload)
                return True
        ctx.stream_stat("sites", programs=len(progs), runs=len(progs))
    ctx.stream_stat("sites", site_programs=sum(1 for p in progs if p[3] and p[3]["kind"] == "sites"),
                    write_programs=sum(1 for p in progs if p[3] and p[3]["kind"] == "writes"), corpus=len(corpus),
                    write_site_executions_first=wstats.get("first", 0), write_site_executions_hit=wstats.get("hit", 0),
                    write_site_executions_refill=wstats.get("refill", 0), write_site_executions_error=wstats.get("error", 0))
    ctx.sample({"program": progs[len(corpus)][1][:1500], "expected": progs[len(corpus)][2]})
    wfirst = next(p for p in progs if p[3] and p[3]["kind"] == "writes")
    ctx.sample({"program": wfirst[1][:2500], "expected": wfirst[2]})
    files = sched_stream.write_generated(ctx, ctx.n(120, 3000), "gen") + sched_stream.fixture_programs(ctx.n(260, None))
    n_before = len(ctx.violations)
    if not sched_stream.compare_modes(ctx, "cache_off", files, ["--caches-off"], steps=300000, what="inline caches being enabled"):
        return len(ctx.violations) > n_before
    return False


def replay(path):
    r = json.load(open(path))
    common.cargo_build()
    tmp = os.path.join(common.VERIF, "work", "c13_replay.lay")
    os.makedirs(os.path.dirname(tmp), exist_ok=True)
    open(tmp, "w").write(r.get("program", ""))
    if "expected" in r:
        mode = r.get("mode", "")
        a = common.run_batch(["%s --steps 400000 %s" % ("" if mode == "default" else mode, tmp)])[0]
        print(a["status"], a["stdout"])
        return 1 if (a["status"] != "Ok:0" or a["stdout"] != r["expected"]) else 0
    a = common.run_batch(["--steps 300000 " + tmp])[0]
    b = common.run_batch(["--caches-off --steps 300000 " + tmp])[0]
    print(a["status"], "|", b["status"])
    return 1 if sched_stream.canon(a) != sched_stream.canon(b) else 0
