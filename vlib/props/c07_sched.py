"""Fiber-level FIFO stream for C07 (to be called from the C07 check): `stream_sched(ctx, n)`.

Generated fiber/channel networks (the C08 generator) are run on the implementation only; a tiny Spec
monitor judges the *program output*: per channel, the values received (in the order the receives
completed, over all receivers) must be a prefix-respecting, duplicate-free selection of the values
sent — each value at most once, nothing invented, and the values of any single sender in the order
that sender sent them (senders are sequential; send values are unique per network).  `nil` may only
be received from a channel some fiber closes.  Networks carrying a C08 known-finding signature
(D4/D5/D17/D18: spurious deadlock / host panic) are still monitored — a truncated run delivers a
prefix, which the monitor accepts — so no exclusion is needed here.

The theorems behind it: `C07_retry_once`, `C07_sched_fifo` (lean/LaytheVerif/Props/C07Sched.lean).
"""
import random

from .. import common
from . import c08


def channel_map(net):
    """(template, parameter) -> set of global channels it can denote (over all launch sites)."""
    nb = len(net["bodies"])
    envs = {0: [set([i]) for i in range(len(net["caps"]))]}
    changed = True
    rounds = 0
    while changed and rounds < 20:
        changed = False
        rounds += 1
        for t in range(nb):
            if t not in envs:
                continue
            for o in net["bodies"][t]:
                if o[0] == "L" and o[1] < nb:
                    new = [set(envs[t][a]) if a < len(envs[t]) else set() for a in o[2]]
                    old = envs.get(o[1])
                    if old is None:
                        envs[o[1]] = new
                        changed = True
                    else:
                        for k in range(min(len(old), len(new))):
                            if not new[k] <= old[k]:
                                old[k] |= new[k]
                                changed = True
    return envs


def spec_monitor(net, kind, events):
    """None if the output respects per-channel FIFO / exactly-once, else a message."""
    envs = channel_map(net)
    sent_by = {}        # value -> (template, index in that template's sends, possible channels)
    closes = set()
    for t, body in enumerate(net["bodies"]):
        k = 0
        for o in body:
            if o[0] == "s":
                chans = envs.get(t, [])[o[1]] if t in envs and o[1] < len(envs[t]) else set()
                sent_by[o[2]] = (t, k, chans)
                k += 1
            elif o[0] == "c" and t in envs and o[1] < len(envs[t]):
                closes |= envs[t][o[1]]
    # how many fibers run each template
    mult = {0: 1}
    order = [0]
    while order:
        t = order.pop()
        for o in net["bodies"][t]:
            if o[0] == "L" and o[1] < len(net["bodies"]):
                mult[o[1]] = mult.get(o[1], 0) + mult[t] if o[1] != t else mult.get(o[1], 0)
                order.append(o[1])
    multi = any(m > 1 for m in mult.values())
    if multi:
        # templates launched more than once: only multiplicities can be judged from the labels
        got = {}
        for ev in (events.split() if events != "-" else []):
            if ev.startswith("g") and not ev.endswith(":nil"):
                v = int(ev.split(":")[1])
                got[v] = got.get(v, 0) + 1
        for v, k in got.items():
            if v not in sent_by:
                return "value %d received, which no fiber sends (invented value)" % v
            if k > mult.get(sent_by[v][0], 1):
                return "value %d received %d times, sent at most %d times" % (v, k, mult.get(sent_by[v][0], 1))
        return None
    seen = set()
    last_idx = {}       # sender template -> index of its last received send (per possible channel set)
    recv_pos = {}       # receiver template -> how many receives it has printed
    for ev in (events.split() if events != "-" else []):
        if not ev.startswith("g"):
            continue
        t, v = ev[1:].split(":")
        t = int(t)
        k = recv_pos.get(t, 0)
        recv_pos[t] = k + 1
        rops = [o for o in net["bodies"][t] if o[0] == "r"] if t < len(net["bodies"]) else []
        if k >= len(rops):
            return "fiber f%d printed more receives than its body has" % t
        rch = envs.get(t, [])[rops[k][1]] if t in envs and rops[k][1] < len(envs[t]) else set()
        if v == "nil":
            if not (rch & closes):
                return "f%d received nil from a channel nobody closes" % t
            continue
        v = int(v)
        if v not in sent_by:
            return "f%d received %d, which no fiber sends (invented value)" % (t, v)
        if v in seen:
            return "value %d was received twice (duplicated)" % v
        seen.add(v)
        st, si, sch = sent_by[v]
        if not (sch & rch):
            return "f%d received %d from a channel it was not sent on" % (t, v)
        # one sender's values on one channel arrive in the order sent (when templates are launched once)
        key = (st, frozenset(sch))
        if len(sch) == 1:
            if key in last_idx and last_idx[key] > si:
                return "values of sender f%d were received out of order (%d)" % (st, v)
            last_idx[key] = si
    return None


def stream_sched(ctx, n, label="sched_fifo"):
    """Run `n` generated networks on the implementation and judge the output with `spec_monitor`.
    Returns True iff no failure; on failure calls ctx.violation with the shrunk network."""
    rng = random.Random(ctx.seed * 7907 + 23)
    nets = [c08.gen_net(rng) for _ in range(n)]
    work = c08.Work()
    try:
        impl = c08.run_impl(nets, work)
        bad = None
        recvd = 0
        for net, (kind, events) in zip(nets, impl):
            recvd += sum(1 for e in events.split() if e.startswith("g") and not e.endswith(":nil"))
            msg = spec_monitor(net, kind, events)
            if kind.endswith("+garbage"):
                msg = msg or "unexpected output lines"
            ctx.count_case("fifo:" + c08.net_text(net), events.count("g") >= 2)
            if msg and bad is None:
                bad = (net, kind, events, msg)
        ctx.stream_stat(label, networks=len(nets), values_received=recvd)
        ctx.cov["traces_validated_against_impl"] += len(nets)
        if bad is None:
            return True
        net, kind, events, msg = bad

        def fails(cand):
            k, e = c08.run_impl([cand], work)[0]
            return spec_monitor(cand, k, e) is not None
        small = c08.shrink(net, fails)
        k, e = c08.run_impl([small], work)[0]
        ctx.cov["impl_vs_spec_failures"] += 1
        ctx.violation("sched_fifo", {"engine": "sched", "kind": "implementation-vs-spec", "seed": ctx.seed,
                                     "what": spec_monitor(small, k, e) or msg, "net": c08.net_text(small), "mode": small["mode"],
                                     "program": c08.render(small), "impl": {"outcome": k, "events": e},
                                     "replay": "./check C08 --replay <this file>"})
        return False
    finally:
        work.close()
