"""Fiber-level FIFO stream for C07 (to be called from the C07 check): `stream_sched(ctx, n)`.

Generated fiber/channel networks (the C08 generator) are run on the implementation only; a tiny Spec
monitor judges the *program output*: per channel, the values received (in the order the receives
completed, over all receivers) must be a prefix-respecting, duplicate-free selection of the values
sent — each value at most once, nothing invented, and the values of any single sender in the order
that sender sent them (senders are sequential; send values are unique per network).  `nil` may only
be received from a channel some fiber closes.  Networks carrying a C08 known-finding signature
(D4/D5/D17/D18: spurious deadlock / host panic) are still monitored — a truncated run delivers a
prefix, which the monitor accepts — so no exclusion is needed here.

The theorems behind it: `C07_retry_once`, `C07_sched_fifo` (lean/LaytheVerif/Props/C07Sched.lean).
"""
import random

from .. import common
from . import c08


def channel_map(net):
    """(template, parameter) -> set of global channels it can denote (over all launch sites)."""
    nb = len(net["bodies"])
    envs = {0: [set([i]) for i in range(len(net["caps"]))]}
    changed = True
    rounds = 0
    while changed and rounds < 20:
        changed = False
        rounds += 1
        for t in range(nb):
            if t not in envs:
                continue
            for o in net["bodies"][t]:
                if o[0] == "L" and o[1] < nb:
                    new = [set(envs[t][a]) if a < len(envs[t]) else set() for a in o[2]]
                    old = envs.get(o[1])
                    if old is None:
                        envs[o[1]] = new
                        changed = True
                    else:
                        for k in range(min(len(old), len(new))):
                            if not new[k] <= old[k]:
                                old[k] |= new[k]
                                changed = True
    return envs


def spec_monitor(net, kind, events):
    """None if the output respects per-channel FIFO / exactly-once, else a message."""
    envs = channel_map(net)
    sent_by = {}        # value -> (template, index in that template's sends, possible channels)
    closes = set()
    for t, body in enumerate(net["bodies"]):
        k = 0
        for o in body:
            if o[0] == "s":
                chans = envs.get(t, [])[o[1]] if t in envs and o[1] < len(envs[t]) else set()
                sent_by[o[2]] = (t, k, chans)
                k += 1
            elif o[0] == "c" and t in envs and o[1] < len(envs[t]):
                closes |= envs[t][o[1]]
    # how many fibers run each template
    mult = {0: 1}
    order = [0]
    while order:
        t = order.pop()
        for o in net["bodies"][t]:
            if o[0] == "L" and o[1] < len(net["bodies"]):
                mult[o[1]] = mult.get(o[1], 0) + mult[t] if o[1] != t else mult.get(o[1], 0)
                order.append(o[1])
    multi = any(m > 1 for m in mult.values())
    if multi:
        # templates launched more than once: only multiplicities can be judged from the labels
        got = {}
        for ev in (events.split() if events != "-" else []):
            if ev.startswith("g") and not ev.endswith(":nil"):
                v = int(ev.split(":")[1])
                got[v] = got.get(v, 0) + 1
        for v, k in got.items():
            if v not in sent_by:
                return "value %d received, which no fiber sends (invented value)" % v
            if k > mult.get(sent_by[v][0], 1):
                return "value %d received %d times, sent at most %d times" % (v, k, mult.get(sent_by[v][0], 1))
        return None
    seen = set()
    last_idx = {}       # sender template -> index of its last received send (per possible channel set)
    recv_pos = {}       # receiver template -> how many receives it has printed
    for ev in (events.split() if events != "-" else []):
        if not ev.startswith("g"):
            continue
        t, v = ev[1:].split(":")
        t = int(t)
        k = recv_pos.get(t, 0)
        recv_pos[t] = k + 1
        rops = [o for o in net["bodies"][t] if o[0] == "r"] if t < len(net["bodies"]) else []
        if k >= len(rops):
            return "fiber f%d printed more receives than its body has" % t
        rch = envs.get(t, [])[rops[k][1]] if t in envs and rops[k][1] < len(envs[t]) else set()
        if v == "nil":
            if not (rch & closes):
                return "f%d received nil from a channel nobody closes" % t
            continue
        v = int(v)
        if v not in sent_by:
            return "f%d received %d, which no fiber sends (invented value)" % (t, v)
        if v in seen:
            return "value %d was received twice (duplicated)" % v
        seen.add(v)
        st, si, sch = sent_by[v]
        if not (sch & rch):
            return "f%d received %d from a channel it was not sent on" % (t, v)
        # one sender's values on one channel arrive in the order sent (when templates are launched once)
        key = (st, frozenset(sch))
        if len(sch) == 1:
            if key in last_idx and last_idx[key] > si:
                return "values of sender f%d were received out of order (%d)" % (st, v)
            last_idx[key] = si
    return None


def gen_net_rdv(rng):
    """Networks biased towards rendezvous hazards.  A global sequence of messages is drawn first and every fiber's body is
    its projection, so the network has a run without deadlock; mostly synchronous channels, a long main body, children that
    complete early (their completion wakes a parked parent through the parent bias), launches in the middle of bodies."""
    nch = rng.randint(2, 3)
    caps = [None if rng.random() < 0.75 else 1 for _ in range(nch)]
    nt = rng.randint(3, 6)
    parent = [None] + [0 if rng.random() < 0.8 else rng.randrange(0, t) for t in range(1, nt)]
    idle = [False] + [rng.random() < 0.3 for _ in range(1, nt)]
    live = [t for t in range(nt) if not idle[t]]
    if len(live) < 2:
        idle[1] = False
        live = [0, 1] if nt > 1 else [0]
    bodies = [[] for _ in range(nt)]
    first_at = {}           # template -> number of ops its parent has when the template is first needed
    v = 0
    for _ in range(rng.randint(3, 12)):
        g = rng.randrange(nch)
        s, r = rng.choice(live), rng.choice(live)
        if rng.random() < 0.5:
            if rng.random() < 0.5:
                r = 0
            else:
                s = 0
        if s == r:
            continue
        for t in (s, r):
            u = t
            while u != 0 and u not in first_at:
                first_at[u] = len(bodies[parent[u]])
                u = parent[u]
        v += 1
        bodies[s].append(["s", g, v])
        bodies[r].append(["r", g])
    for t in range(1, nt):
        if idle[t] and rng.random() < 0.5:
            bodies[t] = [["p", 90 + rng.randrange(9)]]
    # launches: not later than the point where the child is first needed (children needed by nobody: anywhere)
    ins = {}
    for t in range(1, nt):
        p = parent[t]
        hi = first_at.get(t, len(bodies[p]))
        ins.setdefault(p, []).append((rng.randint(0, hi), t))
    for p, lst in ins.items():
        for pos, t in sorted(lst, reverse=True):
            bodies[p].insert(pos, ["L", t, list(range(nch))])
    bodies[0].append(["p", 99])
    net = {"caps": caps, "bodies": bodies, "arity": [nch] * nt, "mode": "args"}
    assert c08.well_formed(net), net
    return net


def _premature(mstats):
    """does the exact scheduler model's run contain the ghost event `premature-ack` (a fiber parked after a synchronous
    deposit is activated while the value is still queued: finding D26)?  The model's signature names one finding only
    (a host panic later in the same run takes precedence), the statistics field counts the event itself."""
    kv = dict(x.split("=") for x in mstats.split() if "=" in x)
    return int(kv.get("premature", 0)) > 0


def rendezvous_monitor(net, kind, events):
    """"A synchronous sender does not proceed until its value has been taken", judged on the program output alone:
    every event a fiber prints after a send on a synchronous channel (its later receives and prints; for the main
    fiber also the final `print 99` / a normal exit) must come after the `got` line of that value, and a value the
    same fiber sends later must not be received before it.  A receiver prints `got` straight after the receive,
    before any other fiber can run.  Only judged where the labels are unambiguous: every template launched once, the
    send's parameter denotes synchronous channels only, and nobody closes them (a close releases parked senders by
    design).  Returns None or a message."""
    envs = channel_map(net)
    nb = len(net["bodies"])
    count = {}
    for body in net["bodies"]:
        for o in body:
            if o[0] == "L" and o[1] < nb:
                count[o[1]] = count.get(o[1], 0) + 1
    if any(c > 1 for c in count.values()):
        return None
    closes = set()
    for t, body in enumerate(net["bodies"]):
        for o in body:
            if o[0] == "c" and t in envs and o[1] < len(envs[t]):
                closes |= envs[t][o[1]]
    sync = set(i for i, c in enumerate(net["caps"]) if c is None)
    evs = events.split() if events != "-" else []
    got_at = {}
    for idx, ev in enumerate(evs):
        if ev.startswith("g") and not ev.endswith(":nil"):
            try:
                got_at.setdefault(int(ev.split(":")[1]), idx)
            except ValueError:
                return None
    # walk each template's body alongside its own events
    for t, body in enumerate(net["bodies"]):
        if t not in envs:
            continue
        mine = [(idx, ev) for idx, ev in enumerate(evs) if ev[0] in "gp" and ev[1:].split(":")[0] == str(t)]
        k = 0
        owed = []       # synchronous values this fiber has sent so far (must be taken before it is seen again)
        for o in body:
            if o[0] == "s":
                chans = envs[t][o[1]] if o[1] < len(envs[t]) else set()
                # a later value of this fiber that was received proves the fiber got past the earlier sends
                if o[2] in got_at:
                    for v in owed:
                        if v not in got_at or got_at[v] > got_at[o[2]]:
                            return ("f%d's later value %d was received although its synchronous send of %d had not been taken "
                                    "(the sender proceeded early)" % (t, o[2], v))
                if chans and chans <= sync and not (chans & closes):
                    owed.append(o[2])
            elif o[0] in ("r", "p"):
                if k >= len(mine):
                    break
                idx, ev = mine[k]
                k += 1
                for v in owed:
                    if v not in got_at or got_at[v] > idx:
                        return ("f%d printed `%s` after its synchronous send of %d, which %s (the sender proceeded before its value was taken)"
                                % (t, ev, v, "nobody had received yet" if v in got_at else "was never received"))
    return None


def stream_sched(ctx, n, label="sched_fifo"):
    """Run `n` generated networks on the implementation and judge the output with `spec_monitor`.
    Returns True iff no failure; on failure calls ctx.violation with the shrunk network."""
    rng = random.Random(ctx.seed * 7907 + 23)
    # the C08 generator plus twice as many from the rendezvous-biased generator (corpus first)
    nets = [c08.gen_net(rng) for _ in range(n)] + [gen_net_rdv(rng) for _ in range(2 * n)]
    cdir = common.os.path.join(common.VERIF, "corpus", "C07_sched")
    if common.os.path.isdir(cdir):
        pre = []
        for f in sorted(common.os.listdir(cdir)):
            if f.endswith(".json"):
                c = common.json.load(open(common.os.path.join(cdir, f)))
                pre.append(c08.parse_net_text(c["net"], c.get("mode", "args")))
        nets = pre + nets
    work = c08.Work()
    try:
        impl = c08.run_impl(nets, work)
        bad = None
        recvd = 0
        rdv_judged = rdv_known = 0
        model = None
        for k_, (net, (kind, events)) in enumerate(zip(nets, impl)):
            recvd += sum(1 for e in events.split() if e.startswith("g") and not e.endswith(":nil"))
            msg = spec_monitor(net, kind, events)
            if msg is None:
                rmsg = rendezvous_monitor(net, kind, events)
                rdv_judged += 1
                if rmsg:
                    # the unchanged code breaks this clause in one recorded way (D26-stale-wakeup, properties C07+C08): the exact
                    # scheduler model reproduces it and marks the network with the D26 signature
                    if model is None:
                        model = c08.run_model(nets)
                    mk, me, _, _, sig, mstats = model[k_]
                    if _premature(mstats) and (mk, me) == (kind, events):
                        rdv_known += 1
                    else:
                        msg = rmsg
            if kind.endswith("+garbage"):
                msg = msg or "unexpected output lines"
            ctx.count_case("fifo:" + c08.net_text(net), events.count("g") >= 2)
            if msg and bad is None:
                bad = (net, kind, events, msg)
        ctx.stream_stat(label, networks=len(nets), values_received=recvd, rendezvous_judged=rdv_judged, rendezvous_known_D26=rdv_known)
        if rdv_known:
            ctx.known("D26-stale-wakeup-sync-sender-proceeds", "%d generated network(s) on which a synchronous sender proceeds before its value is taken, "
                      "each reproduced exactly by the scheduler model under its D26 signature (stale receive-waiter entry); owner C08" % rdv_known)
        ctx.cov["traces_validated_against_impl"] += len(nets)
        if bad is None:
            return True
        net, kind, events, msg = bad

        def verdict(cand):
            k, e = c08.run_impl([cand], work)[0]
            m1 = spec_monitor(cand, k, e)
            if m1:
                return m1
            m2 = rendezvous_monitor(cand, k, e)
            if m2:
                mk, me, _, _, sig, mstats = c08.run_model([cand])[0]
                if _premature(mstats) and (mk, me) == (k, e):
                    return None
            return m2

        def fails(cand):
            return verdict(cand) is not None
        small = c08.shrink(net, fails)
        k, e = c08.run_impl([small], work)[0]
        ctx.cov["impl_vs_spec_failures"] += 1
        ctx.violation("sched_fifo", {"engine": "sched", "kind": "implementation-vs-spec", "seed": ctx.seed,
                                     "what": verdict(small) or msg, "net": c08.net_text(small), "mode": small["mode"],
                                     "program": c08.render(small), "impl": {"outcome": k, "events": e},
                                     "replay": "./check C08 --replay <this file>"})
        return False
    finally:
        work.close()
