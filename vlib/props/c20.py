"""C20 — garbage is reclaimed and heap accounting is exact after a full collection.  DESIGN.md §5 C20."""
import json
import os

from .. import alloc_stream, common, sched_stream

PROP = "C20"
LEVEL = "proof"


def loop_program(n, live):
    return ("let keep = [];\nfor i in %d.times() { keep.push(\"k${i}\"); }\n"
            "let total = 0;\nfor i in %d.times() {\n  let t = [i, \"g${i}\", {\"a\": i}];\n  total = total + t.len();\n}\nprint(total);\nprint(keep.len());\n" % (live, n))


def judge_stats(r):
    """accounting rules on one run record (stats after a forced full collection)"""
    st = r["stats_after_full"]
    problems = []
    if st["bytes_allocated"] != st["heap_bytes"] + st["obj_heap_bytes"] + st["nursery_bytes"]:
        problems.append("bytes_allocated=%d but owned objects total %d" % (st["bytes_allocated"], st["heap_bytes"] + st["obj_heap_bytes"] + st["nursery_bytes"]))
    if st["nursery_len"] != 0:
        problems.append("nursery not empty after a full collection")
    if st["next_gc"] != 2 * st["bytes_allocated"]:
        problems.append("next_gc=%d is not twice bytes_allocated=%d" % (st["next_gc"], st["bytes_allocated"]))
    if st.get("string_objects") is not None and st["string_objects"] != st["intern_len"]:
        problems.append("the allocator owns %d string objects but the intern table has %d entries after a full collection" % (st["string_objects"], st["intern_len"]))
    bs = r.get("block_sizes")
    if bs:
        # independent of the allocator's own size(): what the global allocator handed out for each owned block
        if bs["wrong"] or bs["unknown"]:
            problems.append("%d of %d owned blocks are accounted with a size other than the one they were obtained with (first: %s); %d unknown to the global allocator"
                            % (bs["wrong"], bs["blocks"], bs["first"], bs["unknown"]))
        if bs["real_total"] != st["bytes_allocated"]:
            problems.append("bytes_allocated=%d but the owned blocks were obtained with %d bytes in total" % (st["bytes_allocated"], bs["real_total"]))
    en = r.get("stats_end")
    if en and en["gc_count"] > 0 and en["bytes_allocated"] < en["heap_bytes"] + en["obj_heap_bytes"]:
        problems.append("bytes_allocated below the owned total at the end of the run")
    return problems


def grown_program(rng):
    """lists that outgrow their block several times while the old blocks are still referenced from
    module variables, fields, map values, captured variables and other lists"""
    n = rng.choice([5, 9, 17, 33, 70, 150])
    holder = rng.choice(["let h = [a];", "let h = {\"k\": a};", "class H { init(v) { self.v = v; } }\nlet h = H(a);",
                         "let h = || a;", "let h = (a, nil);", "let h = [[a]];"])
    return ("let a = %s;\n%s\nlet b = a;\nfor i in %d.times() { a.push(i); }\n"
            "let junk = [];\nfor i in %d.times() { junk = [i, \"j${i}\"]; }\nprint(a.len());\nprint(b.len());\n"
            % (rng.choice(["[]", "[1]", "[1, 2, 3, 4]"]), holder, n, rng.randint(10, 60)))


def run(ctx):
    proved = ctx.prove("LaytheVerif.Props.C20")
    oks = [common.cargo_build(), common.cargo_build(bin="vh_alloc"), common.cargo_build(bin="vh_runchk")]
    if not all(o for o, _ in oks):
        ctx.violation("harness_build", {"kind": "harness-build-failed", "broken": "cargo build of /verif/harness against /repo",
                                        "output": "".join(x for _, x in oks)[-3000:]}, no_input=True)
        return
    ctx.cov["rule"] = ("(a) allocator histories with forced nursery/full collections judged by an accounting monitor (bytes = sum of owned sizes after "
                       "every collection, owned = reachable and intern = live strings after a full one, next_gc = 2x, every release with the layout of "
                       "its allocation); (b) real programs run under the layout-checking allocator with stats taken after a forced full collection; "
                       "(c) steady-state loops: the retained size after n and 2n garbage-producing iterations must be equal and next_gc stay bounded; "
                       "non-trivial = history/program with at least one collection")
    if not proved:
        what, detail = ctx.broken
        ok = alloc_stream.run_stream(ctx, ctx.n(600, 4000), 150, "C20")
        if ok:
            ctx.violation("proof", {"kind": "proof-obligation-failed", "broken": what, "detail": detail}, no_input=True)
        return
    if not alloc_stream.run_stream(ctx, ctx.n(200, 5000), ctx.n(120, 300), "C20"):
        return
    # (b) programs under the layout-checking allocator, stats after a forced full collection
    files = sched_stream.write_generated(ctx, ctx.n(80, 1500), "gen") + sched_stream.write_zoo(ctx, ctx.n(60, 1500)) + sched_stream.fixture_programs(ctx.n(200, None))
    import random
    rng = random.Random(ctx.seed * 77 + 20)
    gd = os.path.join(common.VERIF, "work", "c20_grown_%s" % ctx.tier)
    os.makedirs(gd, exist_ok=True)
    for k in range(ctx.n(40, 600)):
        f = os.path.join(gd, "g%d.lay" % k)
        open(f, "w").write(grown_program(rng))
        files.append(f)
    reqs = ["--stats --gc every:%d --steps 300000 %s" % (3 + (i % 5), f) for i, f in enumerate(files)]
    # crash-isolated shards; the mismatch counter of the checking allocator is per process, so it is compared per shard
    recs = common.run_batch(reqs, bin="vh_runchk", timeout=3000)
    checked = 0
    crashed = 0
    for r in recs:
        if r["status"].startswith("CRASH"):
            crashed += 1        # host crashes are C16's subject; here they only cost coverage (counted in the evidence)
            continue
        mis = int(r.get("layout_mismatches", 0))
        if mis != 0:
            ctx.cov["impl_vs_spec_failures"] += 1
            ctx.violation("layout", {"kind": "implementation-vs-spec", "what": "a block was released with a size/alignment other than the one it was obtained with",
                                     "file": r["file"], "program": open(r["file"]).read()[:20000], "run": "vh_runchk: --stats --gc every:3 <program>"})
            return
        st = r.get("stats_after_full")
        if not st:
            continue
        checked += 1
        ctx.count_case(r["file"], nontrivial=st["gc_count"] > 1)
        problems = judge_stats(r)
        en = r.get("stats_end")
        if problems:
            ctx.cov["impl_vs_spec_failures"] += 1
            ctx.violation("stats", {"kind": "implementation-vs-spec", "what": "; ".join(problems), "file": r["file"],
                                    "program": open(r["file"]).read()[:20000], "stats_after_full": st, "stats_end": en})
            return
    ctx.stream_stat("programs", programs=len(files), with_stats=checked, records=len(recs), host_crashes=crashed)
    # (c) steady state
    d = os.path.join(common.VERIF, "work", "c20_loops")
    os.makedirs(d, exist_ok=True)
    loops = []
    for live in (5, 50):
        for n in (ctx.n(2000, 20000), ctx.n(4000, 40000)):
            f = os.path.join(d, "loop_%d_%d.lay" % (live, n))
            open(f, "w").write(loop_program(n, live))
            loops.append((live, n, f))
    runs = common.run_batch(["--stats --steps 0 %s" % f for _, _, f in loops])
    by_live = {}
    for (live, n, f), r in zip(loops, runs):
        if r["status"] != "Ok:0" or "stats_after_full" not in r:
            ctx.violation("loops", {"kind": "implementation-vs-spec", "what": "steady-state loop did not finish normally: " + r["status"], "program": open(f).read()})
            return
        by_live.setdefault(live, []).append((n, r))
    for live, rs in by_live.items():
        (n1, r1), (n2, r2) = sorted(rs, key=lambda x: x[0])
        b1, b2 = r1["stats_after_full"]["bytes_allocated"], r2["stats_after_full"]["bytes_allocated"]
        ctx.count_case(("loop", live), nontrivial=True)
        bound = max(2 * 1024 * 1024, 2 * 10 * 2 * b2) + 65536
        if b1 != b2 or r2["stats_end"]["next_gc"] > bound:
            ctx.cov["impl_vs_spec_failures"] += 1
            ctx.violation("steady_state", {"kind": "implementation-vs-spec",
                                           "what": "retained size or threshold grows with the amount of garbage created: live bytes %d after %d iterations, %d after %d; next_gc=%d (bound %d)" % (
                                               b1, n1, b2, n2, r2["stats_end"]["next_gc"], bound),
                                           "program": loop_program(n2, live)})
            return
    ctx.stream_stat("loops", programs=len(loops))
    ctx.sample({"loop": loop_program(100, 5), "stats_after_full": runs[0].get("stats_after_full")})
    ctx.assumptions += [
        "the allocator model is hand-written; agreement is checked on the alloc stream",
        "the layout check trusts the harness' GlobalAlloc wrapper (records size/align per live block)",
        "the bounded-heap corollary is checked on steady-state loops, not proved",
    ]


def replay(path):
    r = json.load(open(path))
    common.cargo_build()
    if "ops" in r:
        common.cargo_build(bin="vh_alloc")
        rc, out, err = common.run_lines([common.harness_path(bin="vh_alloc")], r["ops"] + ["collect full", "stats", "layout"])
        for o, x in zip(r["ops"] + ["collect full", "stats", "layout"], out):
            print("%-24s %s" % (o, x))
        return 1
    if "program" in r:
        tmp = os.path.join(common.VERIF, "work", "c20_replay.lay")
        os.makedirs(os.path.dirname(tmp), exist_ok=True)
        open(tmp, "w").write(r["program"])
        common.cargo_build(bin="vh_runchk")
        bad = 0
        for k in (3, 4, 5, 6, 7):
            a = common.run_batch(["--stats --gc every:%d --steps 300000 %s" % (k, tmp)], bin="vh_runchk")[0]
            probs = judge_stats(a) if a.get("stats_after_full") else ["no stats: " + a["status"]]
            if int(a.get("layout_mismatches", 0)):
                probs.append("%s blocks released with a layout other than the one they were obtained with" % a["layout_mismatches"])
            print("every:%d" % k, a["status"], a.get("stats_after_full"), a.get("block_sizes"), probs)
            bad += bool(probs)
        return 1 if bad else 0
    return 0
