"""C20 — garbage is reclaimed and heap accounting is exact after a full collection.  DESIGN.md §5 C20."""
import json
import os

from .. import alloc_stream, common, sched_stream, zoo

PROP = "C20"
LEVEL = "proof"


def loop_program(n, live):
    return ("let keep = [];\nfor i in %d.times() { keep.push(\"k${i}\"); }\n"
            "let total = 0;\nfor i in %d.times() {\n  let t = [i, \"g${i}\", {\"a\": i}];\n  total = total + t.len();\n}\nprint(total);\nprint(keep.len());\n" % (live, n))


def judge_stats(r):
    """accounting rules on one run record (stats after a forced full collection)"""
    st = r["stats_after_full"]
    problems = []
    if st["bytes_allocated"] != st["heap_bytes"] + st["obj_heap_bytes"] + st["nursery_bytes"]:
        problems.append("bytes_allocated=%d but owned objects total %d" % (st["bytes_allocated"], st["heap_bytes"] + st["obj_heap_bytes"] + st["nursery_bytes"]))
    if st["nursery_len"] != 0:
        problems.append("nursery not empty after a full collection")
    if st["next_gc"] != 2 * st["bytes_allocated"]:
        problems.append("next_gc=%d is not twice bytes_allocated=%d" % (st["next_gc"], st["bytes_allocated"]))
    if st.get("string_objects") is not None and st["string_objects"] != st["intern_len"]:
        problems.append("the allocator owns %d string objects but the intern table has %d entries after a full collection" % (st["string_objects"], st["intern_len"]))
    bs = r.get("block_sizes")
    if bs:
        # independent of the allocator's own size(): what the global allocator handed out for each owned block
        if bs["wrong"] or bs["unknown"]:
            problems.append("%d of %d owned blocks are accounted with a size other than the one they were obtained with (first: %s); %d unknown to the global allocator"
                            % (bs["wrong"], bs["blocks"], bs["first"], bs["unknown"]))
        if bs["real_total"] != st["bytes_allocated"]:
            problems.append("bytes_allocated=%d but the owned blocks were obtained with %d bytes in total" % (st["bytes_allocated"], bs["real_total"]))
    en = r.get("stats_end")
    if en and en["gc_count"] > 0 and en["bytes_allocated"] < en["heap_bytes"] + en["obj_heap_bytes"]:
        problems.append("bytes_allocated below the owned total at the end of the run")
    return problems


def judge_leaks(r):
    """the clause "garbage is reclaimed": every block the allocator lets go of is handed back to the system.
    Judged from the checking global allocator's own table of live blocks (harness/src/chkalloc.rs, leakchk.rs),
    never from the allocator's figures: (1) blocks owned before the forced full collection and not owned after it
    must not be live any more; (2) after the vm is dropped none of the blocks it owned may be live; (3) what the
    system allocator holds after the vm and everything the run created are gone equals what it held before the run
    (a non-zero difference is measured again on a second run in the same process, so one-time initialisations of
    the process do not count)."""
    problems = []
    a = r.get("released_by_full")
    if a and a["unreleased"]:
        problems.append("the forced full collection dropped %d of the %d blocks the allocator owned; %d of them were never handed back to the system allocator (first: %s)"
                        % (a["dropped"], a["owned_before"], a["unreleased"], a["first"]))
    b = r.get("released_by_teardown")
    if b and b["unreleased"]:
        problems.append("%d of the %d blocks the allocator owned when the vm was dropped were never handed back to the system allocator (first: %s)"
                        % (b["unreleased"], b["owned"], b["first"]))
    g = r.get("global_leak")
    if g and g["judged"] and (g["blocks"] or g["bytes"]):
        problems.append("after the vm and everything the run created were dropped the system allocator holds %d blocks / %d bytes more than immediately before the run "
                        "(second run in the same process: %s; sizes of some of these blocks: %s)" % (g["blocks"], g["bytes"], g["rerun"], g["sizes"]))
    return problems


def leak_probe(src, opts, tag="probe"):
    """run one program text under vh_runchk with the given option words; returns (record, leak problems)"""
    d = os.path.join(common.VERIF, "work", "c20_leak")
    os.makedirs(d, exist_ok=True)
    f = os.path.join(d, "%s.lay" % tag)
    open(f, "w").write(src)
    r = common.run_batch(["%s %s" % (opts, f)], bin="vh_runchk", timeout=600)[0]
    return r, judge_leaks(r)


def shrink_leak(src, opts, budget=160):
    """delta-debugging over the lines of a leaking program: keep a candidate while it still leaks"""
    lines = src.split("\n")
    n = 2
    probes = 0
    while len(lines) >= 2 and probes < budget:
        size = max(1, len(lines) // n)
        removed = False
        for i in range(0, len(lines), size):
            cand = lines[:i] + lines[i + size:]
            probes += 1
            if cand and leak_probe("\n".join(cand), opts, "shrink")[1]:
                lines = cand
                n = max(2, n - 1)
                removed = True
                break
            if probes >= budget:
                break
        if not removed:
            if size == 1:
                break
            n = min(len(lines), n * 2)
    return "\n".join(lines)


def corpus_cases():
    """minimised past failures (corpus/C20/*.json: {"program", "opts"}); C20_NO_CORPUS=1 leaves them out"""
    d = os.path.join(common.VERIF, "corpus", PROP)
    if os.environ.get("C20_NO_CORPUS") or not os.path.isdir(d):
        return []
    out = []
    for fn in sorted(os.listdir(d)):
        if fn.endswith(".json"):
            c = json.load(open(os.path.join(d, fn)))
            if "program" in c:
                out.append((fn, c["program"], c.get("opts", "--stats --gc every:3 --steps 300000")))
    return out


# Kind/size-class of owned blocks (harness/src/leakchk.rs) that the stream is expected to create AND see released by a
# collection; the evidence lists the ones it did not reach
EXPECTED_CLASSES = ["List/0", "List/small", "List/big", "ListStub/0", "ListStub/small", "ListStub/big", "Tuple/0", "Tuple/small", "Tuple/big",
                    "Map/0", "Map/small", "Map/big", "String/small", "String/big", "Instance/0", "Instance/small", "Instance/big",
                    "Closure/0", "Closure/small", "Closure/big", "Channel/fixed", "Class/fixed", "Enumerator/fixed", "Method/fixed",
                    "LyBox/fixed", "Boxed/fixed"]


def grown_program(rng):
    """lists that outgrow their block several times while the old blocks are still referenced from
    module variables, fields, map values, captured variables and other lists"""
    n = rng.choice([5, 9, 17, 33, 70, 150])
    holder = rng.choice(["let h = [a];", "let h = {\"k\": a};", "class H { init(v) { self.v = v; } }\nlet h = H(a);",
                         "let h = || a;", "let h = (a, nil);", "let h = [[a]];"])
    # half of the programs do all this inside a function: the moved list, its stubs and the holder are garbage afterwards
    shape = ("let a = %s;\n%s\nlet b = a;\nfor i in %d.times() { a.push(i); }\n"
             "let junk = [];\nfor i in %d.times() { junk = [i, \"j${i}\"]; }\nprint(a.len());\nprint(b.len());\n")
    if rng.random() < 0.5:
        shape = ("fn body() {\n" + shape + "}\nbody();\nbody();\nlet junk2 = [];\nfor i in 12.times() { junk2 = [i, \"q${i}\"]; }\n")
    return (shape
            % (rng.choice(["[]", "[1]", "[1, 2, 3, 4]", "[].iter().into(List.collect)", "List.collect(0.times())", "[7, 8].iter().take(0).list()",
                           "[1, 2, 3].slice(1, 1)", "{}.iter().into(List.collect)", "[3].iter().filter(|x| x > 5).into(List.collect)"]),
               holder, n, rng.randint(10, 60)))


def program_stream(ctx, mult=1, broken=None):
    """stream (b); `mult` > 1: the search for a concrete input after a broken proof obligation.  False after a reported violation."""
    # (b) programs under the checking global allocator: layouts of releases, stats after a forced full collection, and the
    # leak oracle (every block the allocator lets go of is handed back to the system allocator)
    files = sched_stream.write_generated(ctx, ctx.n(80, 1500) * mult, "gen") + sched_stream.write_zoo(ctx, ctx.n(60, 1500) * mult) + sched_stream.fixture_programs(ctx.n(200, None))
    import random
    rng = random.Random(ctx.seed * 77 + 20)
    gd = os.path.join(common.VERIF, "work", "c20_grown_%s" % ctx.tier)
    os.makedirs(gd, exist_ok=True)
    own = []          # programs that are also run with no collection before the forced one (all their garbage is dropped by it)
    for k in range(ctx.n(40, 600) * mult):
        f = os.path.join(gd, "g%d.lay" % k)
        open(f, "w").write(grown_program(rng))
        own.append(f)
    dd = os.path.join(common.VERIF, "work", "c20_degenerate_%s" % ctx.tier)
    os.makedirs(dd, exist_ok=True)
    rng2 = random.Random(ctx.seed * 911 + 3)
    for k in range(ctx.n(150, 3000) * mult):
        f = os.path.join(dd, "d%d.lay" % k)
        open(f, "w").write(zoo.degenerate_program(rng2))
        own.append(f)
    zoo_files = [f for f in files if os.sep + "c20_zoo_" in f]
    files += own
    reqs = []
    texts = {}
    for fn, prog, opts in corpus_cases():
        cd = os.path.join(common.VERIF, "work", "c20_corpus")
        os.makedirs(cd, exist_ok=True)
        f = os.path.join(cd, fn[:-5] + ".lay")
        open(f, "w").write(prog)
        reqs.append((opts, f))
    reqs += [("--stats --gc every:%d --steps 300000" % (3 + (i % 5)), f) for i, f in enumerate(files)]
    reqs += [("--stats --gc never --steps 300000", f) for f in own + zoo_files]
    # crash-isolated shards; the mismatch counter of the checking allocator is per process, so it is compared per shard
    recs = common.run_batch(["%s %s" % q for q in reqs], bin="vh_runchk", timeout=3000)
    checked = 0
    crashed = 0
    leak_judged = 0
    classes = {}
    dropped_by_full = 0
    for (opts, f), r in zip(reqs, recs):
        if r["status"].startswith("CRASH"):
            crashed += 1        # host crashes are C16's subject; here they only cost coverage (counted in the evidence)
            continue
        mis = int(r.get("layout_mismatches", 0))
        if mis != 0:
            ctx.cov["impl_vs_spec_failures"] += 1
            ctx.violation("layout", {"kind": "implementation-vs-spec", "what": "a block was released with a size/alignment other than the one it was obtained with",
                                     "file": r["file"], "program": open(r["file"]).read()[:20000], "run": "vh_runchk: %s <program>" % opts})
            return False
        leaks = judge_leaks(r)
        if leaks:
            ctx.cov["impl_vs_spec_failures"] += 1
            src = open(f).read()
            small = shrink_leak(src, opts)
            r2, leaks2 = leak_probe(small, opts, "min")
            if not leaks2:
                small, r2, leaks2 = src, r, leaks
            ctx.violation("leak", {"kind": "implementation-vs-spec",
                                   "what": "garbage is not reclaimed: " + "; ".join(leaks2),
                                   "program": small, "opts": opts, "original_file": f, "original_problems": leaks,
                                   "released_by_full": r2.get("released_by_full"), "released_by_teardown": r2.get("released_by_teardown"),
                                   "global_leak": r2.get("global_leak"), "block_classes": r2.get("block_classes"),
                                   "run": "vh_runchk: %s <program>" % opts,
                                   **({"found_by_search_after_broken_obligation": broken} if broken else {})})
            return False
        if r.get("global_leak", {}).get("judged"):
            leak_judged += 1
        for k, v in (r.get("block_classes") or {}).items():
            c = classes.setdefault(k, [0, 0, 0, 0])
            for j in range(4):
                c[j] += v[j]
        dropped_by_full += (r.get("released_by_full") or {}).get("dropped", 0)
        st = r.get("stats_after_full")
        if not st:
            continue
        checked += 1
        ctx.count_case((opts, r["file"]), nontrivial=st["gc_count"] > 1 or (r.get("released_by_full") or {}).get("dropped", 0) > 0)
        problems = judge_stats(r)
        en = r.get("stats_end")
        if problems:
            ctx.cov["impl_vs_spec_failures"] += 1
            ctx.violation("stats", {"kind": "implementation-vs-spec", "what": "; ".join(problems), "file": r["file"],
                                    "program": open(r["file"]).read()[:20000], "stats_after_full": st, "stats_end": en})
            return False
    ctx.stream_stat("programs", programs=len(files), with_stats=checked, records=len(recs), host_crashes=crashed)
    # coverage of the leak oracle: per Kind/size-class [owned before the forced collection, dropped by it, dropped with the vm, not handed back]
    released = sorted(k for k, v in classes.items() if v[1] > 0)
    ctx.stream_stat("leak_oracle", records_judged_after_teardown=leak_judged, blocks_dropped_by_forced_full_collections=dropped_by_full,
                    blocks_dropped_at_teardown=sum(v[2] for v in classes.values()),
                    classes_allocated_and_released_by_a_collection="%d of %d expected" % (len([k for k in EXPECTED_CLASSES if k in released]), len(EXPECTED_CLASSES)),
                    expected_classes_not_released_by_a_collection=[k for k in EXPECTED_CLASSES if k not in released],
                    only_released_at_teardown=sorted(k for k, v in classes.items() if v[1] == 0 and v[2] > 0))
    ctx.cov["streams"]["block_classes"] = {k: {"owned_before_forced_full": v[0], "dropped_by_forced_full": v[1], "dropped_at_teardown": v[2], "not_handed_back": v[3]}
                                           for k, v in sorted(classes.items())}
    ctx.sample({"degenerate_program": zoo.degenerate_program(random.Random(ctx.seed))[:3000]})
    return True


def run(ctx):
    proved = ctx.prove("LaytheVerif.Props.C20")
    oks = [common.cargo_build(), common.cargo_build(bin="vh_alloc"), common.cargo_build(bin="vh_runchk")]
    if not all(o for o, _ in oks):
        ctx.violation("harness_build", {"kind": "harness-build-failed", "broken": "cargo build of /verif/harness against /repo",
                                        "output": "".join(x for _, x in oks)[-3000:]}, no_input=True)
        return
    ctx.cov["rule"] = ("(a) allocator histories with forced nursery/full collections judged by an accounting monitor (bytes = sum of owned sizes after "
                       "every collection, owned = reachable and intern = live strings after a full one, next_gc = 2x, every release with the layout of "
                       "its allocation); (b) real programs run under the checking global allocator with stats taken after a forced full collection, and the leak "
                       "oracle from the global allocator's own table of live blocks: every block dropped by the forced full collection and every block owned "
                       "at teardown is gone from it, and after teardown it holds exactly what it held before the run; "
                       "(c) steady-state loops: the retained size after n and 2n garbage-producing iterations must be equal and next_gc stay bounded; "
                       "non-trivial = history/program with at least one collection")
    if not proved:
        what, detail = ctx.broken
        ok = alloc_stream.run_stream(ctx, ctx.n(600, 4000), 150, "C20") and program_stream(ctx, mult=3, broken=str(what))
        if ok:
            ctx.violation("proof", {"kind": "proof-obligation-failed", "broken": what, "detail": detail}, no_input=True)
        return
    if not alloc_stream.run_stream(ctx, ctx.n(200, 5000), ctx.n(120, 300), "C20"):
        return
    if not program_stream(ctx):
        return
    # (c) steady state
    d = os.path.join(common.VERIF, "work", "c20_loops")
    os.makedirs(d, exist_ok=True)
    loops = []
    for live in (5, 50):
        for n in (ctx.n(2000, 20000), ctx.n(4000, 40000)):
            f = os.path.join(d, "loop_%d_%d.lay" % (live, n))
            open(f, "w").write(loop_program(n, live))
            loops.append((live, n, f))
    runs = common.run_batch(["--stats --steps 0 %s" % f for _, _, f in loops])
    by_live = {}
    for (live, n, f), r in zip(loops, runs):
        if r["status"] != "Ok:0" or "stats_after_full" not in r:
            ctx.violation("loops", {"kind": "implementation-vs-spec", "what": "steady-state loop did not finish normally: " + r["status"], "program": open(f).read()})
            return
        by_live.setdefault(live, []).append((n, r))
    for live, rs in by_live.items():
        (n1, r1), (n2, r2) = sorted(rs, key=lambda x: x[0])
        b1, b2 = r1["stats_after_full"]["bytes_allocated"], r2["stats_after_full"]["bytes_allocated"]
        ctx.count_case(("loop", live), nontrivial=True)
        bound = max(2 * 1024 * 1024, 2 * 10 * 2 * b2) + 65536
        if b1 != b2 or r2["stats_end"]["next_gc"] > bound:
            ctx.cov["impl_vs_spec_failures"] += 1
            ctx.violation("steady_state", {"kind": "implementation-vs-spec",
                                           "what": "retained size or threshold grows with the amount of garbage created: live bytes %d after %d iterations, %d after %d; next_gc=%d (bound %d)" % (
                                               b1, n1, b2, n2, r2["stats_end"]["next_gc"], bound),
                                           "program": loop_program(n2, live)})
            return
    ctx.stream_stat("loops", programs=len(loops))
    ctx.sample({"loop": loop_program(100, 5), "stats_after_full": runs[0].get("stats_after_full")})
    ctx.assumptions += [
        "the allocator model is hand-written; agreement is checked on the alloc stream",
        "the layout check trusts the harness' GlobalAlloc wrapper (records size/align per live block)",
        "the leak oracle observes the forced full collection and the teardown block by block, and every other collection of a run through the "
        "system allocator's total after teardown (exactly 0 blocks / 0 bytes more than before the run); runs that end in a host panic are not judged",
        "the bounded-heap corollary is checked on steady-state loops, not proved",
    ]


def replay(path):
    r = json.load(open(path))
    common.cargo_build()
    if "ops" in r:
        common.cargo_build(bin="vh_alloc")
        rc, out, err = common.run_lines([common.harness_path(bin="vh_alloc")], r["ops"] + ["collect full", "stats", "layout"])
        for o, x in zip(r["ops"] + ["collect full", "stats", "layout"], out):
            print("%-24s %s" % (o, x))
        return 1
    if "program" in r and "opts" in r:
        # a leak case (or a corpus entry): the same program under the same options
        common.cargo_build(bin="vh_runchk")
        a, probs = leak_probe(r["program"], r["opts"], "replay")
        if a.get("stats_after_full"):
            probs = probs + judge_stats(a)
        if int(a.get("layout_mismatches", 0)):
            probs.append("%s blocks released with a layout other than the one they were obtained with" % a["layout_mismatches"])
        print(r["opts"], a["status"], "released_by_full=%s released_by_teardown=%s global_leak=%s" % (
            a.get("released_by_full"), a.get("released_by_teardown"), a.get("global_leak")))
        for p_ in probs:
            print("  " + p_)
        return 1 if probs else 0
    if "program" in r:
        tmp = os.path.join(common.VERIF, "work", "c20_replay.lay")
        os.makedirs(os.path.dirname(tmp), exist_ok=True)
        open(tmp, "w").write(r["program"])
        common.cargo_build(bin="vh_runchk")
        bad = 0
        for k in (3, 4, 5, 6, 7):
            a = common.run_batch(["--stats --gc every:%d --steps 300000 %s" % (k, tmp)], bin="vh_runchk")[0]
            probs = (judge_stats(a) if a.get("stats_after_full") else ["no stats: " + a["status"]]) + judge_leaks(a)
            if int(a.get("layout_mismatches", 0)):
                probs.append("%s blocks released with a layout other than the one they were obtained with" % a["layout_mismatches"])
            print("every:%d" % k, a["status"], a.get("stats_after_full"), a.get("block_sizes"), probs)
            bad += bool(probs)
        return 1 if bad else 0
    return 0
