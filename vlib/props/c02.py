"""C02 — lexical scoping: closures share captured variables by reference.  DESIGN.md §5 C02.

Tie A (mechanism): the model front end (resolver + compiler of Model/Scope.lean) against the real
compiler: per finished function the sequence of scope-relevant instructions (Get/Set Local/Box/
Capture/ModSym, Box/EmptyBox/FillBox, Nil — the value of a declaration without initialiser —, Closure +
CaptureIndex operands, function constants) read off the `PRE` stream of `vharness dump`.
Tie B (semantics): the same programs executed by the VM against (i) the Lean Spec interpreter with
cell environments (implementation-vs-Spec) and (ii) the Lean slot/box/capture machine run on the
model's access paths (model-vs-implementation).
"""
import copy
import json
import os
import random
import re
import shutil
import tempfile

from .. import common
from . import c02gen

PROP = "C02"
LEVEL = "proof"
DRV = os.path.join(common.LEAN, ".lake", "build", "bin", "drv_scope")

LETN_RE = re.compile(r"^\s*let \w+;$", re.M)

OPMAP = {"GetLocal": "GL", "SetLocal": "SL", "GetBox": "GB", "SetBox": "SB", "GetCapture": "GC", "SetCapture": "SC",
         "GetModSym": "GM", "SetModSym": "SM", "Box": "BX"}


# ---------------------------------------------------------------------------------------------
# reading the implementation's compile log


def impl_events(rec):
    consts = rec.get("CONSTS", "").split(",") if rec.get("CONSTS") else []
    pre = [p.split("@")[0] for p in rec.get("PRE", "").split(";") if p]
    out, i = [], 0

    def fname(k):
        c = consts[k] if k < len(consts) else "?"
        return c.split(":", 2)[2] if c.startswith("fun:") else None
    while i < len(pre):
        parts = pre[i].split()
        op = parts[0]
        if op in OPMAP:
            out.append("%s %s" % (OPMAP[op], parts[1]))
        elif op == "EmptyBox":
            out.append("EB")
        elif op == "FillBox":
            out.append("FB")
        elif op == "Nil":
            out.append("NL")
        elif op == "Closure":
            caps = []
            while i + 1 < len(pre) and pre[i + 1].startswith("CaptureIndex"):
                q = pre[i + 1].split()
                caps.append(("L" if q[1] == "Local" else "E") + q[2])
                i += 1
            out.append(" ".join(["CL %s" % fname(int(parts[1]))] + caps))
        elif op in ("Constant", "ConstantLong"):
            f = fname(int(parts[1]))
            if f is not None:
                out.append("FN " + f)
        i += 1
    return out


def impl_front_end(files):
    """[(status, ['name:ev;ev', ...])] per file, from `vharness dump -`."""
    rc, out, err = common.run_lines([common.harness_path(), "dump", "-"], files, timeout=1800)
    res, cur = [], None
    for line in out:
        if line.startswith("FILE "):
            st = line.split("status=", 1)[1] if "status=" in line else "unreadable"
            cur = [st, []]
            res.append(cur)
        elif line.startswith("FUN ") and cur is not None:
            parts = line.split("|")
            rec = {"head": parts[0]}
            for p in parts[1:]:
                k, _, v = p.partition(" ")
                rec[k] = v
            name = parts[0].split('name="', 1)[1].split('"', 1)[0]
            cur[1].append("%s:%s" % (name, ";".join(impl_events(rec))))
    return res


def model_answers(sexps):
    rc, out, err = common.run_lines([DRV], sexps, timeout=1800)
    res = []
    for line in out:
        parts = line.split("\t")
        d = {}
        for p in parts:
            d[p[:1]] = p[2:]
        res.append(d)
    return res, rc, err


def same_fun(m, i):
    """`name:ev;ev` of the model against the implementation's; a lambda's display name (the parser
    gives it the name of the enclosing `let`) is not compared."""
    mn, _, me = m.partition(":")
    inn, _, ie = i.partition(":")
    if mn != "lambda" and mn != inn:
        return False
    mes, ies = me.split(";"), ie.split(";")
    if len(mes) != len(ies):
        return False
    for a, b in zip(mes, ies):
        if a == b:
            continue
        ap, bp = a.split(), b.split()
        if len(ap) >= 2 and len(bp) >= 2 and ap[0] == bp[0] and ap[0] in ("CL", "FN") and ap[1] == "lambda" and ap[2:] == bp[2:]:
            continue
        return False
    return True


def same_funs(m, i):
    mf, imf = m.split("|"), i.split("|")
    return len(mf) == len(imf) and all(same_fun(a, b) for a, b in zip(mf, imf))


def split_status(s):
    st, _, rest = s.partition("|")
    return st, rest


# ---------------------------------------------------------------------------------------------
# one batch of programs through everything


class Case:
    def __init__(self, prog, features=(), origin="random"):
        self.prog, self.features, self.origin = prog, set(features), origin


def evaluate(progs, workdir, tag="c", steps=3000000):
    """Returns a list of verdict dicts, one per program."""
    files, sexps = [], []
    for i, p in enumerate(progs):
        f = os.path.join(workdir, "%s%05d.lay" % (tag, i))
        with open(f, "w") as fh:
            fh.write(c02gen.source(p))
        files.append(f)
        sexps.append(c02gen.sexp(p))
    model, rc, err = model_answers(sexps)
    front = impl_front_end(files)
    runs = common.run_batch(["--steps %d " % steps + f for f in files], timeout=600)
    out = []
    for i, p in enumerate(progs):
        m = model[i] if i < len(model) else {}
        fe = front[i] if i < len(front) else ["<missing>", []]
        r = runs[i] if i < len(runs) and runs[i] else {"status": "<missing>", "stdout": ""}
        v = {"src": c02gen.source(p), "sexp": sexps[i], "model": m, "impl_front": fe,
             "impl_run": {"status": r.get("status"), "stdout": r.get("stdout", ""), "stderr": r.get("stderr", "")[:400]}}
        v["judgement"] = judge(v)
        out.append(v)
    return out


def judge(v):
    """Returns dict: kind in {ok, skip, spec, tie-front, tie-machine, model-selfcheck, crash}, what."""
    m, fe, r = v["model"], v["impl_front"], v["impl_run"]
    if not m or "P" not in m:
        return {"kind": "model-selfcheck", "what": "the Lean driver gave no answer"}
    pst, pfuns = split_status(m["P"])
    sst, sout = split_status(m.get("S", "fail:none|"))
    mst, mout = split_status(m.get("M", "fail:none|"))
    ist = fe[0]
    rst = r["status"] or ""
    if rst.startswith(("PANIC", "CRASH")) or ist.startswith(("PANIC", "CRASH")):
        return {"kind": "crash", "what": "the implementation panicked/crashed on an accepted-shape program: %s / %s" % (ist, rst)}
    # a program the Spec gives a meaning to must be accepted
    if not ist.startswith("Ok") and not sst.startswith("fail") and pst == "ok":
        return {"kind": "spec", "what": "the implementation's front end rejects (%s) a program the Spec gives a meaning to" % ist,
                "expected": sout.replace(",", "\n"), "spec_status": sst}
    # model front end vs implementation front end
    if pst == "ok" and not ist.startswith("Ok"):
        return {"kind": "tie-front", "what": "the model accepts the program, the implementation's front end says %s" % ist}
    if pst != "ok" and ist.startswith("Ok"):
        return {"kind": "tie-front", "what": "the implementation accepts the program, the model front end says %s" % pst}
    if pst != "ok":
        return {"kind": "skip", "what": "rejected by both front ends (%s)" % pst}
    impl_funs = "|".join(fe[1])
    # implementation-vs-Spec first: it is the property
    if sst.startswith("fail"):
        spec_verdict = None   # the Spec does not define this run
    else:
        exp = sout.replace(",", "\n") + ("\n" if sout else "")
        if sst == "ok":
            spec_verdict = (rst == "Ok:0" and r["stdout"] == exp)
        else:  # uncaught raise
            spec_verdict = (rst.startswith("RuntimeError") and r["stdout"] == exp)
        if not spec_verdict:
            return {"kind": "spec", "what": "output differs from the cell-environment Spec", "expected": exp, "spec_status": sst}
    if not same_funs(pfuns, impl_funs):
        mf, imf = pfuns.split("|"), impl_funs.split("|")
        k = next((j for j in range(max(len(mf), len(imf))) if j >= len(mf) or j >= len(imf) or not same_fun(mf[j], imf[j])), 0)
        return {"kind": "tie-front", "what": "access paths / capture lists differ in function #%d" % k,
                "model_fun": mf[k] if k < len(mf) else None, "impl_fun": imf[k] if k < len(imf) else None}
    if m.get("X", "ok") not in ("ok", "skipped"):
        return {"kind": "model-selfcheck", "what": m.get("X")}
    if mst not in ("skipped", "fail:fuel", "fail:range"):
        exp = mout.replace(",", "\n") + ("\n" if mout else "")
        if r["stdout"] != exp or (mst == "ok") != (rst == "Ok:0"):
            return {"kind": "tie-machine", "what": "output differs from the slot/box/capture machine run on the model's paths",
                    "expected": exp, "machine_status": mst}
    if spec_verdict is None:
        return {"kind": "skip", "what": "Spec undefined: " + sst}
    return {"kind": "ok", "what": ""}


# ---------------------------------------------------------------------------------------------
# shrinking


BODY_POS = {"lam": [3], "fn": [5], "if": [2, 3], "while": [2], "for": [5], "try": [1, 6], "class": [7], "method": [5]}


def stmt_lists(node, acc):
    """all statement lists inside a program tree (the list objects themselves)"""
    if isinstance(node, list):
        acc.append(node)
        for x in node:
            stmt_lists(x, acc)
    elif isinstance(node, tuple) and node:
        t = node[0]
        for i, x in enumerate(node):
            if i == 0:
                continue
            if isinstance(x, list) and i in BODY_POS.get(t, []):
                stmt_lists(x, acc)
            elif isinstance(x, list) and t == "op":
                for y in x:
                    stmt_lists_expr(y, acc)
            elif isinstance(x, tuple):
                stmt_lists_expr(x, acc)
    return acc


def stmt_lists_expr(node, acc):
    if isinstance(node, tuple) and node and isinstance(node[0], str):
        if node[0] in BODY_POS:
            stmt_lists(node, acc)
        else:
            for x in node[1:]:
                if isinstance(x, tuple):
                    stmt_lists_expr(x, acc)
                elif isinstance(x, list) and node[0] == "op":
                    for y in x:
                        stmt_lists_expr(y, acc)


def to_mutable(n):
    """Normalise a program tree (also after a JSON round trip, where tuples came back as lists):
    nodes are tuples whose first element is the tag, statement/argument lists are lists, parameter
    lists are lists of (id, name) tuples."""
    if isinstance(n, (list, tuple)):
        if n and isinstance(n[0], str):
            return tuple([n[0]] + [to_mutable(x) for x in n[1:]])
        if len(n) == 2 and isinstance(n[0], int) and isinstance(n[1], str):
            return (n[0], n[1])
        return [to_mutable(x) for x in n]
    return n


def shrink_apply(cur, cands):
    """`cur` with the candidates applied: ('del', li, si) deletes statement si of statement list li, ('unwrap', li, si, pos)
    replaces an `if` by the statements of its then/else block.  Positions refer to `stmt_lists(cur)`."""
    c = copy.deepcopy(cur)
    lists = stmt_lists(c, [])
    dead, repl = set(), {}
    for cand in cands:
        st = lists[cand[1]][cand[2]]
        if cand[0] == "del":
            dead.add(id(st))
        else:
            repl[id(st)] = st[cand[3]]
    for l in lists:
        out = []
        for st in l:
            if id(st) in dead:
                continue
            if id(st) in repl:
                out.extend(repl[id(st)])
            else:
                out.append(st)
        l[:] = out
    return c


SHRINK_STEPS = 300000


def is_counter_update(st):
    """`iN = iN + 1;` — the generator's loop counters are named i1, i2, …"""
    return (isinstance(st, tuple) and len(st) == 3 and st[0] == "op" and st[1] == "exprS" and st[2] and
            isinstance(st[2][0], tuple) and st[2][0][0] == "assign" and re.fullmatch(r"i\d+", str(st[2][0][2])) is not None)


def shrink(prog, kind, workdir, budget=6000, rounds=30):
    """Deletion of statements (and unwrapping of `if` blocks) while the same kind of failure persists.  Every round
    evaluates all single steps in one batch and then tries to take all the successful deletions together (halving on
    interference), so the number of rounds — each a handful of process start-ups — stays small."""
    cur = to_mutable(prog)
    spent = 0
    for _ in range(rounds):
        lists = stmt_lists(cur, [])
        cands = []
        for li, l in enumerate(lists):
            for si, st in enumerate(l):
                if isinstance(st, tuple) and st and st[0] == "method":
                    continue
                if is_counter_update(st):
                    continue        # a `while` without its `i = i + 1` runs (and allocates) until the step limit
                cands.append(("del", li, si))
                if isinstance(st, tuple) and st and st[0] == "if":
                    cands.append(("unwrap", li, si, 2))
                    cands.append(("unwrap", li, si, 3))
        if not cands or spent >= budget:
            break
        res = evaluate([shrink_apply(cur, [c]) for c in cands], workdir, tag="s", steps=SHRINK_STEPS)
        spent += len(cands)
        good = [c for c, v in zip(cands, res) if v["judgement"]["kind"] == kind]
        if not good:
            break
        dels = [c for c in good if c[0] == "del"]
        step = None
        group = dels
        while len(group) > 1:
            cand = shrink_apply(cur, group)
            spent += 1
            if evaluate([cand], workdir, tag="t", steps=SHRINK_STEPS)[0]["judgement"]["kind"] == kind:
                step = cand
                break
            group = group[:len(group) // 2]
        cur = step if step is not None else shrink_apply(cur, [good[0]])
    return cur


# ---------------------------------------------------------------------------------------------
# hand-written scenarios (run first, every time)

SCENARIOS = []


def scen(f):
    SCENARIOS.append(f)
    return f


class B:
    """tiny builder with id counters for the hand-written scenarios"""

    def __init__(self):
        self.o = 0
        self.d = 0

    def v(self, x):
        self.o += 1
        return ("var", self.o, x)

    def set(self, x, e):
        self.o += 1
        return ("op", "exprS", [("assign", self.o, x, e)])

    def let(self, x, e):
        self.d += 1
        return ("let", self.d, x, e)

    def letn(self, x):
        """`let x;`"""
        self.d += 1
        return ("letn", self.d, x)

    def isnil(self, x):
        return ("op", "eq", [self.v(x), ("nil",)])

    def lam(self, params, body):
        self.d += 1
        d0 = self.d
        ps = []
        for p in params:
            self.d += 1
            ps.append((self.d, p))
        return ("lam", d0, ps, body)

    def fn(self, f, params, body):
        self.d += 1
        d = self.d
        self.d += 1
        d0 = self.d
        ps = []
        for p in params:
            self.d += 1
            ps.append((self.d, p))
        return ("fn", d, f, d0, ps, body)

    def pr(self, e):
        return ("op", "exprS", [("op", "call", [self.v("print"), e])])

    def call(self, f, *args):
        return ("op", "call", [f] + list(args))

    def ret(self, e):
        return ("op", "ret", [e])

    def add(self, a, b):
        return ("op", "add", [a, b])

    def for_(self, x, it, body):
        self.d += 2
        return ("for", self.d - 1, self.d, x, it, body)


@scen
def counter_pair():
    b = B()
    inc = b.let("inc", b.lam([], [b.set("n", b.add(b.v("n"), ("lit", 1))), b.ret(b.v("n"))]))
    get = b.let("get", b.lam([], [b.ret(b.v("n"))]))
    mk = b.fn("counter", [], [b.let("n", ("lit", 0)), inc, get, b.ret(("op", "list", [b.v("inc"), b.v("get")]))])
    return [mk, b.let("c1", b.call(b.v("counter"))), b.let("c2", b.call(b.v("counter"))),
            ("op", "exprS", [b.call(("op", "index", [b.v("c1"), ("lit", 0)]))]),
            ("op", "exprS", [b.call(("op", "index", [b.v("c1"), ("lit", 0)]))]),
            ("op", "exprS", [b.call(("op", "index", [b.v("c2"), ("lit", 0)]))]),
            b.pr(b.call(("op", "index", [b.v("c1"), ("lit", 1)]))), b.pr(b.call(("op", "index", [b.v("c2"), ("lit", 1)])))]


@scen
def for_item_is_one_variable():
    b = B()
    return [b.let("fs", ("op", "list", [])),
            b.for_("x", ("op", "list", [("lit", 1), ("lit", 2), ("lit", 3)]),
                   [("op", "exprS", [("op", "push", [b.v("fs"), b.lam([], [b.ret(b.v("x"))])])])]),
            b.for_("g", b.v("fs"), [b.pr(b.call(b.v("g")))])]


@scen
def for_iterable_is_outside_the_item_scope():
    # repaired finding D31: `fn f() { let x = 5; let ys = [7, 8]; for x in [(|| { return x; })(), x + 1] { print(x); } print(x); }`
    b = B()
    it = ("op", "list", [b.call(b.lam([], [b.ret(b.v("x"))])), b.add(b.v("x"), ("lit", 1))])
    return [b.fn("f", [], [b.let("x", ("lit", 5)), b.for_("x", it, [b.pr(b.v("x")), b.set("x", ("lit", 0))]), b.pr(b.v("x")),
                           b.ret(("lit", 0))]),
            ("op", "exprS", [b.call(b.v("f"))])]


@scen
def while_body_let_is_fresh():
    b = B()
    return [b.let("gs", ("op", "list", [])), b.let("k", ("lit", 0)),
            ("while", ("op", "lt", [b.v("k"), ("lit", 3)]),
             [b.let("j", b.v("k")), ("op", "exprS", [("op", "push", [b.v("gs"), b.lam([], [b.set("j", b.add(b.v("j"), ("lit", 10))), b.ret(b.v("j"))])])]),
              b.set("k", b.add(b.v("k"), ("lit", 1)))]),
            b.for_("g", b.v("gs"), [b.pr(b.call(b.v("g"))), b.pr(b.call(b.v("g")))])]


@scen
def deep_chain():
    b = B()
    l4 = b.lam(["d"], [b.set("a", b.add(b.v("a"), ("lit", 1))), b.ret(b.add(b.add(b.v("a"), b.v("b")), b.add(b.v("c"), b.v("d"))))])
    l3 = b.lam(["c"], [b.ret(l4)])
    l2 = b.lam(["b"], [b.ret(l3)])
    return [b.fn("deep", ["a"], [b.let("peek", b.lam([], [b.ret(b.v("a"))])), b.ret(("op", "list", [l2, b.v("peek")]))]),
            b.let("r", b.call(b.v("deep"), ("lit", 1))),
            b.pr(b.call(b.call(b.call(("op", "index", [b.v("r"), ("lit", 0)]), ("lit", 2)), ("lit", 3)), ("lit", 4))),
            b.pr(b.call(("op", "index", [b.v("r"), ("lit", 1)])))]


@scen
def shared_parameter_two_closures():
    b = B()
    return [b.fn("shared", ["p"], [b.let("setp", b.lam(["v"], [b.set("p", b.v("v")), b.ret(b.v("p"))])),
                                   b.let("getp", b.lam([], [b.ret(b.v("p"))])),
                                   b.set("p", b.add(b.v("p"), ("lit", 100))),
                                   b.ret(("op", "list", [b.v("setp"), b.v("getp")]))]),
            b.let("s", b.call(b.v("shared"), ("lit", 5))),
            b.pr(b.call(("op", "index", [b.v("s"), ("lit", 1)]))),
            ("op", "exprS", [b.call(("op", "index", [b.v("s"), ("lit", 0)]), ("lit", 9))]),
            b.pr(b.call(("op", "index", [b.v("s"), ("lit", 1)])))]


@scen
def shadowing_blocks():
    b = B()
    inner = ("if", ("op", "lt", [("lit", 0), ("lit", 1)]), [b.let("x", ("lit", 3)), b.pr(b.call(b.v("f"))), b.pr(b.v("x"))], [])
    mid = ("if", ("op", "lt", [("lit", 0), ("lit", 1)]), [b.let("x", ("lit", 2)), b.let("f", b.lam([], [b.ret(b.v("x"))])), inner, b.set("x", ("lit", 7)), b.pr(b.call(b.v("f")))], [])
    return [b.fn("shadow", [], [b.let("x", ("lit", 1)), mid, b.pr(b.v("x")), b.ret(("lit", 0))]),
            ("op", "exprS", [b.call(b.v("shadow"))])]


@scen
def module_names_and_later_writes():
    b = B()
    return [b.let("modv", ("lit", 10)),
            b.fn("usemod", [], [b.set("modv", b.add(b.v("modv"), ("lit", 1))), b.ret(b.lam([], [b.ret(b.v("modv"))]))]),
            b.let("g", b.call(b.v("usemod"))), b.set("modv", ("lit", 50)), b.pr(b.call(b.v("g"))), b.pr(b.v("modv"))]


@scen
def dedup_enclosing_many_uses():
    # a variable two levels up mentioned several times: every use adds an `Enclosing` capture
    b = B()
    c = b.lam([], [b.set("x", b.add(b.v("x"), b.v("x"))), b.ret(b.add(b.v("x"), b.v("y")))])
    bb = b.lam([], [b.ret(c)])
    return [b.fn("a", [], [b.let("x", ("lit", 1)), b.let("y", ("lit", 5)), b.let("m", bb), b.set("y", ("lit", 6)), b.ret(b.call(b.v("m")))]),
            b.let("h", b.call(b.v("a"))), b.pr(b.call(b.v("h"))), b.pr(b.call(b.v("h")))]


@scen
def let_without_initialiser_every_storage_class():
    # `let x;` as a module symbol, a plain local, a boxed local read through a closure two functions down (an `Enclosing`
    # hop) before anything was assigned, and a block-scoped one that starts out nil again on every call
    b = B()
    deep = b.lam([], [b.ret(b.lam([], [("if", b.isnil("q"), [b.set("q", ("lit", 1))], [b.set("q", b.add(b.v("q"), ("lit", 1)))]), b.ret(b.v("q"))]))])
    f = b.fn("f", [], [b.letn("p"), b.letn("q"), b.let("mk", deep), b.pr(b.v("p")), b.pr(b.v("q")),
                       b.let("bump", b.call(b.v("mk"))), b.pr(b.call(b.v("bump"))), b.pr(b.call(b.v("bump"))), b.pr(b.v("q")),
                       ("if", b.isnil("p"), [b.letn("t"), b.let("rd", b.lam([], [b.ret(b.v("t"))])), b.pr(b.call(b.v("rd"))),
                                              b.set("t", ("lit", 5)), b.pr(b.call(b.v("rd")))], []),
                       b.ret(b.v("p"))])
    return [b.letn("m"), f, b.pr(b.v("m")), b.pr(b.call(b.v("f"))), b.pr(b.call(b.v("f"))),
            b.fn("setm", [], [("if", b.isnil("m"), [b.set("m", ("lit", 3))], []), b.ret(b.v("m"))]),
            b.pr(b.call(b.v("setm"))), b.pr(b.v("m"))]


# ---------------------------------------------------------------------------------------------
# known findings of this property


def replay_known(ctx):
    for rec in common.load_findings(PROP):
        w = os.path.join(common.VERIF, rec["witness"])
        if not os.path.exists(w):
            continue
        r = common.run_batch([w])[0]
        exp = rec.get("expected_stdout")
        bad = r["status"].startswith(("PANIC", "CRASH")) or (exp is not None and r.get("stdout") != exp)
        if bad:
            ctx.known(rec["id"], rec["what"][:160])
        else:
            ctx.cov.setdefault("known_findings_no_longer_failing", []).append(rec["id"])


# ---------------------------------------------------------------------------------------------


def report(ctx, v, case, workdir, stream):
    j = v["judgement"]
    kind = j["kind"]
    small = shrink(case.prog, kind, workdir)
    sv = evaluate([small], workdir, tag="m")[0]
    payload = {"engine": "scope", "stream": stream, "seed": ctx.seed, "origin": case.origin, "broken_obligation": ctx.cov.get("broken_obligation"), "what": sv["judgement"].get("what", j["what"]),
               "program": small, "source": sv["src"], "sexp": sv["sexp"], "model": sv["model"], "impl_front": sv["impl_front"],
               "impl_run": sv["impl_run"], "judgement": sv["judgement"]}
    if kind in ("spec", "crash"):
        payload["kind"] = "implementation-vs-spec"
        ctx.cov["impl_vs_spec_failures"] += 1
        ctx.violation(stream + "_spec", payload)
        return
    # a tie failure: search for a Spec-judged failing input first
    ctx.cov["model_vs_impl_disagreements"] += 1
    found = search(ctx, workdir)
    if found is not None:
        fv, fcase = found
        small2 = shrink(fcase.prog, fv["judgement"]["kind"], workdir)
        sv2 = evaluate([small2], workdir, tag="m")[0]
        ctx.cov["impl_vs_spec_failures"] += 1
        ctx.violation(stream + "_spec", {"engine": "scope", "kind": "implementation-vs-spec", "found_by": "search after a tie failure",
                                         "tie_failure": payload, "program": small2, "source": sv2["src"], "sexp": sv2["sexp"],
                                         "impl_run": sv2["impl_run"], "model": sv2["model"], "judgement": sv2["judgement"],
                                         "what": sv2["judgement"].get("what")})
    else:
        payload["kind"] = "model-vs-implementation"
        payload["broken"] = {"tie-front": "correspondence stream scope/paths (Model/Scope.lean resolver+compiler vs laythe_vm compiler)",
                             "tie-machine": "correspondence stream scope/machine (Model/ScopeMachine.lean vs VM)",
                             "model-selfcheck": "model self-check (Spec.lookup vs model resolution)"}.get(kind, kind)
        ctx.violation(stream + "_tie", payload, no_input=True)


def search(ctx, workdir, n=None):
    """Bigger, Spec-judged search for a concrete program on which the implementation's output differs
    from the cell-environment Spec."""
    rng = random.Random(ctx.seed * 977 + 5)
    n = n or ctx.n(3000, 20000)
    cases = [Case(*c02gen.random_program(rng), origin="search") for _ in range(n)]
    for k in range(0, len(cases), 1000):
        chunk = cases[k:k + 1000]
        res = evaluate([c.prog for c in chunk], workdir, tag="q")
        ctx.stream_stat("search", programs=len(chunk))
        for v, c in zip(res, chunk):
            if v["judgement"]["kind"] in ("spec", "crash"):
                return v, c
    return None


def run_stream(ctx, cases, workdir, stream):
    res = evaluate([c.prog for c in cases], workdir, tag=stream[:1])
    stats = {"programs": len(cases), "ok": 0, "skipped_spec_undefined": 0, "rejected_by_both": 0}
    feats = {}
    depth_hist = {}
    first_bad = None
    for v, c in zip(res, cases):
        k = v["judgement"]["kind"]
        if k == "ok":
            stats["ok"] += 1
            nontrivial = any(t in v["model"].get("P", "") for t in ("GC ", "SC ", "GB ", "SB ", "CL "))
            ctx.count_case(v["sexp"], nontrivial=nontrivial)
            ctx.cov["traces_validated_against_impl"] += 1
            for f in c.features:
                feats[f] = feats.get(f, 0) + 1
            dd = c02gen.fun_depth(c.prog)
            depth_hist[dd] = depth_hist.get(dd, 0) + 1
            for tok, name in (("GC ", "capture_reads"), ("SC ", "capture_writes"), ("GB ", "box_reads"), ("SB ", "box_writes"),
                              ("CL ", "closures"), ("EB", "empty_boxes"), ("BX ", "boxed_params"), (" E", "enclosing_hops"),
                              # `Nil` as the first value of a boxed local (`let x;`, captured for-item) or of a module symbol (`let x;`)
                              ("EB;NL;FB", "boxes_initialised_with_nil"), ("NL;SM ", "module_symbols_initialised_with_nil")):
                stats[name] = stats.get(name, 0) + v["model"].get("P", "").count(tok)
            src = v["src"]
            stats["lets_without_initialiser"] = stats.get("lets_without_initialiser", 0) + len(LETN_RE.findall(src))
            stats["nil_lines_printed"] = stats.get("nil_lines_printed", 0) + v["impl_run"]["stdout"].split("\n").count("nil")
        elif k == "skip":
            if v["judgement"]["what"].startswith("Spec undefined"):
                stats["skipped_spec_undefined"] += 1
            else:
                stats["rejected_by_both"] += 1
        elif first_bad is None:
            first_bad = (v, c)
    ctx.stream_stat(stream, **stats)
    d = ctx.cov["streams"].setdefault(stream, {})
    for key, src in (("features", feats), ("fun_depth_hist", {str(k): v for k, v in sorted(depth_hist.items())})):
        acc = d.setdefault(key, {})
        for k, v in src.items():
            acc[k] = acc.get(k, 0) + v
    if first_bad is not None:
        report(ctx, first_bad[0], first_bad[1], workdir, stream)
        return False
    return True


def run(ctx):
    proved = ctx.prove("LaytheVerif.Props.C02", extra_targets=("drv_scope",))
    ok_c, out_c = common.cargo_build()
    if not ok_c:
        ctx.violation("harness_build", {"kind": "harness-build-failed", "broken": "cargo build of /verif/harness against /repo",
                                        "output": out_c[-3000:]}, no_input=True)
        return
    ctx.cov["rule"] = ("generated Laythe programs of the scoping fragment (function nesting <= 5, shadowing, any capture subset, loops, "
                       "catch variables, self, module names, declarations without initialiser in every storage class observed by print / == nil "
                       "from the declaring scope and through closures); evaluations = programs accepted by both front ends whose run the Spec defines; "
                       "non-trivial = the compiled program contains at least one box/capture access or closure; distinct by program text")
    workdir = tempfile.mkdtemp(prefix="c02_")
    try:
        if not os.path.exists(DRV):
            ok_l, out_l = common.lake_build(["drv_scope"])
            if not ok_l:
                ctx.violation("driver_build", {"kind": "driver-build-failed", "broken": "lake build drv_scope", "output": out_l[-3000:]}, no_input=True)
                return
        broken = None
        if not proved:
            broken = ctx.broken
            ctx.cov["broken_obligation"] = broken[0]
        replay_known(ctx)
        # corpus + scenarios first
        pre = []
        corpus = os.path.join(common.VERIF, "corpus", PROP)
        # C02_NO_CORPUS=1: skip the stored inputs and the hand-written scenarios (to see what the generated stream finds by itself)
        no_corpus = os.environ.get("C02_NO_CORPUS") == "1"
        if os.path.isdir(corpus) and not no_corpus:
            for f in sorted(os.listdir(corpus)):
                if f.endswith(".json"):
                    pre.append(Case(to_mutable(json.load(open(os.path.join(corpus, f)))["program"]), origin="corpus/" + f))
        for s in ([] if no_corpus else SCENARIOS):
            pre.append(Case(s(), features={"scenario:" + s.__name__}, origin="scenario:" + s.__name__))
        if not run_stream(ctx, pre, workdir, "scenarios"):
            return
        rng = random.Random(ctx.seed * 1000003 + 2)
        n = ctx.n(10000, 150000)
        cases = [Case(*c02gen.random_program(rng)) for _ in range(n)]
        ctx.sample({"source": c02gen.source(cases[0].prog)[:600]})
        for k in range(0, len(cases), 2500):
            if not run_stream(ctx, cases[k:k + 2500], workdir, "random"):
                return
        if broken is not None:
            # a proof obligation (or a regenerated table) no longer checks and the streams found no failing
            # input: search harder, then report the broken obligation itself
            found = search(ctx, workdir)
            if found:
                fv, fc = found
                small = shrink(fc.prog, fv["judgement"]["kind"], workdir)
                sv = evaluate([small], workdir, tag="m")[0]
                ctx.cov["impl_vs_spec_failures"] += 1
                ctx.violation("spec", {"engine": "scope", "kind": "implementation-vs-spec", "broken_obligation": broken[0], "found_by": "search",
                                       "program": small, "source": sv["src"], "sexp": sv["sexp"], "impl_run": sv["impl_run"], "model": sv["model"],
                                       "judgement": sv["judgement"], "what": sv["judgement"].get("what")})
            else:
                ctx.violation("proof", {"kind": "proof-obligation-failed", "broken": broken[0], "detail": broken[1]}, no_input=True)
            return
        v = evaluate([cases[1].prog], workdir, tag="x")[0]
        ctx.sample({"source": v["src"][:500], "model_paths": v["model"].get("P", "")[:500], "impl_stdout": v["impl_run"]["stdout"][:200],
                    "spec": v["model"].get("S", "")[:200]})
    finally:
        shutil.rmtree(workdir, ignore_errors=True)
    ctx.assumptions += [
        "Model/Scope.lean (resolver, compiler) and Model/ScopeMachine.lean are hand-written; their agreement with the Rust code is checked on the generated programs (access paths, capture lists, box instructions per function; program output), not proved",
        "the Spec interpreter (Model/ScopeSpec.lean) is the executable statement of the property for the fragment: integers and nil, let with and without initialiser/assign/lambda/fn/call/if/while/for-over-list/print/== (values of different kinds are unequal), lists of closures, try/catch of Error, classes with fields and methods; `return;` without a value is outside the fragment",
        "generators stay outside the signatures of D1 and D2; closures over self inside init (repaired D27c/D32) are generated; for-iterables that mention an outer variable named like the item, directly or from a function literal (the shape of the repaired finding D31), are generated and judged by the Spec",
        "C02_env_simulation (Spec interpreter = machine on every accepted program) is stated, not proved; it is checked on every generated program",
    ]


def replay(path):
    r = json.load(open(path))
    common.cargo_build()
    common.lake_build(["drv_scope"])
    prog = to_mutable(r.get("program") or r.get("tie_failure", {}).get("program"))
    workdir = tempfile.mkdtemp(prefix="c02r_")
    try:
        v = evaluate([prog], workdir)[0]
    finally:
        shutil.rmtree(workdir, ignore_errors=True)
    print(v["src"])
    print("model :", v["model"])
    print("impl  :", v["impl_front"], v["impl_run"])
    print("judgement:", v["judgement"])
    return 0 if v["judgement"]["kind"] in ("ok", "skip") else 1
