"""C03 — classes: construction, fields, dispatch, inheritance, super, bound methods.  DESIGN.md §5 C03.

Two ties:
  A  `classes`  API level: op sequences on laythe_core::object::{Class, Instance} (vh_classes) vs
                Model/Classes.lean (drv_classes classes), plus a Python Spec monitor (bijection, MRO,
                field sets, storage) that never looks at the model.
  B  `prog`     program level: generated Laythe class programs (vharness runbatch) vs the executable
                Lean Spec Model/ClassLang.lean (drv_classes prog) run on an S-expression rendering of
                the same generated AST; the compiler's decisions on the same programs (property access form,
                the instruction that pushes the superclass) vs Model/ClassCompile.lean (drv_classes compile).
                About every third program declares an `Object` of its own (module-level class / variable /
                function, parameter, local variable, local class) with classes declared under it, inside
                functions, lambdas and module-level blocks: a class without parent inherits from the built-in
                Object, `class A : Object` from what the variable denotes (repaired finding D26).
                About every third program has class *factories*: a function or lambda `mk(B, q)` whose body declares
                `class D : B {..}` (also `E : D` on top, or a parent-less `P` with `D : P` under it) and returns the
                class; it is applied to several different classes (module classes, its own products, late in the run,
                once to a non-class), so ONE class declaration — one set of `super` sites, one set of by-name accesses —
                is evaluated repeatedly with different parents.  The products are instantiated and used like every
                other class, interleaved: zero-argument (fused) and n-argument super calls, `super.m` as a value and
                from a lambda, inherited fields read by fixed index in the base's methods and by name in D's.

corpus/C03/*.json: engine `classes` (op list), `prog` (AST, judged by the Spec), `lay` (a program file next to the
json with the status / stdout / last stderr line it must give — the witnesses of repaired findings); run first.
"""
import json
import os
import random
import re
import tempfile

from .. import common

PROP = "C03"
LEVEL = "proof"
DRV = os.path.join(common.LEAN, ".lake", "build", "bin", "drv_classes")


def vh():
    return common.harness_path(bin="vh_classes")


def corpus_dir():
    """corpus/C03; with C03_NO_CORPUS=1 in the environment nothing (to test that the generated streams alone notice a change)"""
    return os.path.join(common.VERIF, "corpus", "C03" if not os.environ.get("C03_NO_CORPUS") else "C03.none")


def par_lines(cmd, lines, chunk=400, timeout=1800):
    """run_lines for stateless line protocols (one independent case per line), sharded over the cores in
    contiguous chunks; output order is preserved.  Returns (rc, out_lines, err)."""
    import concurrent.futures
    if len(lines) <= chunk:
        return common.run_lines(cmd, lines, timeout=timeout)
    parts = [lines[i:i + chunk] for i in range(0, len(lines), chunk)]
    with concurrent.futures.ThreadPoolExecutor(max_workers=common.NCPU) as ex:
        outs = list(ex.map(lambda ls: common.run_lines(cmd, ls, timeout=timeout), parts))
    rc, out, err = 0, [], ""
    for (r, o, e), ls in zip(outs, parts):
        if r != 0:
            rc, err = r, (e or "")
        out.extend(o)
        if len(o) != len(ls):
            # keep alignment: pad the missing answers of this shard
            out.extend(["<missing>"] * (len(ls) - len(o)))
    return rc, out, err


# =============================================================================================
# Tie A: API-level op sequences
# =============================================================================================

FIELDS = ["a", "b", "c", "d", "e", "f", "g"]
METHODS = ["m0", "m1", "m2", "m3", "init", "str"]
STATICS = ["s0", "s1", "s2"]


def gen_api_seq(rng, unsealed=False):
    """One hierarchy (depth <= 6) built the way the VM builds classes, with queries interleaved.
    `unsealed`: also add members to a class after something inherited from it (never happens in the
    language; exercised for the model tie only)."""
    ops = ["reset"]
    classes = []          # (name, depth)
    insts = []
    nid = [0]

    def fresh_id():
        nid[0] += 1
        return nid[0]

    def queries(c, k, allow_inst=True):
        for _ in range(k):
            r = rng.random()
            if r >= 0.90 and not allow_inst:
                r = rng.random() * 0.9
            if r < 0.25:
                ops.append("lookup %s %s" % (c, rng.choice(METHODS)))
            elif r < 0.45:
                ops.append("fieldindex %s %s" % (c, rng.choice(FIELDS)))
            elif r < 0.55:
                ops.append("nfields %s" % c)
            elif r < 0.65:
                ops.append("init %s" % c)
            elif r < 0.75:
                ops.append("slookup %s %s" % (c, rng.choice(STATICS)))
            elif r < 0.80 and classes:
                ops.append("issub %s %s" % (c, rng.choice(classes)[0]))
            elif r < 0.84:
                ops.append("super %s" % c)
            elif r < 0.87:
                ops.append("meta %s" % c)
            elif r < 0.90:
                ops.append("metasuper %s" % c)
            else:
                i = "i%d" % len(insts)
                insts.append((i, c))
                ops.append("instance %s %s" % (i, c))

    def members(c, nf, nm, ns):
        body = []
        if rng.random() < 0.6:
            body.append("method %s init %d" % (c, fresh_id()))   # the initialiser is emitted first
        body += ["field %s %s" % (c, rng.choice(FIELDS)) for _ in range(nf)]
        body += ["method %s %s %d" % (c, rng.choice(METHODS), fresh_id()) for _ in range(nm)]
        body += ["static %s %s %d" % (c, rng.choice(STATICS), fresh_id()) for _ in range(ns)]
        if rng.random() < 0.15:
            rng.shuffle(body)
        for b in body:
            ops.append(b)
            if rng.random() < 0.15:
                queries(c, 1, allow_inst=False)

    n = rng.randint(1, 9)
    for k in range(n):
        name = "K%d" % k
        cands = [(c, d) for c, d in classes if d < 6]
        if cands and rng.random() < 0.8:
            # prefer deep chains
            cands.sort(key=lambda x: -x[1])
            parent, d = cands[0] if rng.random() < 0.5 else rng.choice(cands)
        else:
            parent, d = "Object", 0
        if rng.random() < 0.2:
            ops.append("derive %s %s" % (name, parent))
        else:
            ops.append("class %s" % name)
            ops.append("inherit %s %s" % (name, parent))
        members(name, rng.randint(0, 5), rng.randint(0, 5), rng.randint(0, 2))
        classes.append((name, d + 1))
        queries(name, rng.randint(1, 5))
        if unsealed and k > 0 and rng.random() < 0.5:
            members(rng.choice(classes[:-1])[0], rng.randint(0, 2), rng.randint(0, 2), rng.randint(0, 1))
    # final sweep: every class, every name; instances and storage
    for c, _ in classes:
        ops.append("nfields %s" % c)
        ops.append("init %s" % c)
        for m in METHODS:
            if rng.random() < 0.5:
                ops.append("lookup %s %s" % (c, m))
        for f in FIELDS:
            if rng.random() < 0.6:
                ops.append("fieldindex %s %s" % (c, f))
        for s in STATICS:
            if rng.random() < 0.3:
                ops.append("slookup %s %s" % (c, s))
    if not unsealed:
        for c, _ in classes:
            if rng.random() < 0.7:
                i = "i%d" % len(insts)
                insts.append((i, c))
                ops.append("instance %s %s" % (i, c))
        v = 100
        for _ in range(rng.randint(0, 25)):
            if not insts:
                break
            i, c = rng.choice(insts)
            r = rng.random()
            v += 1
            if r < 0.35:
                ops.append("set %s %s %d" % (i, rng.choice(FIELDS), v))
            elif r < 0.65:
                ops.append("get %s %s" % (i, rng.choice(FIELDS)))
            elif r < 0.8:
                ops.append("geti %s %d" % (i, rng.randint(0, 7)))
            elif r < 0.95:
                ops.append("seti %s %d %d" % (i, rng.randint(0, 7), v))
            else:
                ops.append("classof %s" % i)
    return ops


class ApiSpec:
    """The property at API level, judged on (request, response) pairs of the implementation without
    the model: field indices of a class are a bijection onto [0, n); an inherited field keeps its
    index; the field set is own ∪ inherited; an instance has n slots and name/index access hit the
    same storage; method lookup is the most-derived-first walk; `init` likewise; statics are not
    inherited.  Only for *sealed* sequences (a class is complete before anything inherits from it)."""

    def __init__(self):
        self.reset()

    def reset(self):
        self.parent = {"Object": None, "Class": "Object"}
        self.own_fields = {"Object": [], "Class": []}
        self.own_methods = {"Object": {}, "Class": {}}
        self.own_statics = {"Object": {}, "Class": {}}
        self.index = {}          # (class, field) -> observed index
        self.inst = {}           # inst -> (class, writes by name and by slot, each with a clock)
        self.clock = 0

    def stored(self, c, st, f):
        """the value last written to field f of an instance, by name or through its (known) index"""
        cands = []
        if f in st["name"]:
            cands.append(st["name"][f])
        k = self.index.get((c, f))
        if k is not None and k in st["slot"]:
            cands.append(st["slot"][k])
        if k is None:
            known = {self.index.get((c, g)) for g in self.fieldset(c)}
            if any(j not in known for j in st["slot"]):
                return None      # a slot was written whose field name has not been observed yet: cannot judge
        return max(cands)[1] if cands else "nil"

    def chain(self, c):
        out = []
        while c is not None:
            out.append(c)
            c = self.parent.get(c)
        return out

    def fieldset(self, c):
        seen = []
        for k in reversed(self.chain(c)):
            for f in self.own_fields.get(k, []):
                if f not in seen:
                    seen.append(f)
        return seen

    def mro(self, c, m):
        for k in self.chain(c):
            if m in self.own_methods.get(k, {}):
                return str(self.own_methods[k][m])
        return "-"

    def observe_index(self, c, f, got):
        """got: string response for the index of field f in class c."""
        fs = self.fieldset(c)
        if f not in fs:
            return None if got == "-" else "class %s has no field %s but reports index %s" % (c, f, got)
        if not got.isdigit():
            return "field %s of class %s has no index (%s)" % (f, c, got)
        g = int(got)
        if g >= len(fs):
            return "index %d of %s.%s is outside [0,%d)" % (g, c, f, len(fs))
        for (k, h), idx in self.index.items():
            if k == c and h != f and idx == g:
                return "fields %s and %s of class %s share index %d" % (h, f, c, g)
        if (c, f) in self.index and self.index[(c, f)] != g:
            return "index of %s.%s changed from %d to %d" % (c, f, self.index[(c, f)], g)
        # an inherited field keeps the index it has in the ancestor
        for k in self.chain(c)[1:]:
            if (k, f) in self.index and self.index[(k, f)] != g:
                return "field %s has index %d in %s but %d in its descendant %s" % (f, self.index[(k, f)], k, g, c)
        self.index[(c, f)] = g
        return None

    def step(self, op, out):
        t = op.split()
        if t[0] == "reset":
            self.reset()
        elif t[0] in ("class",):
            self.parent[t[1]] = None
            self.own_fields[t[1]], self.own_methods[t[1]], self.own_statics[t[1]] = [], {}, {}
        elif t[0] == "inherit":
            if out == "ok":
                self.parent[t[1]] = t[2]
        elif t[0] == "derive":
            self.parent[t[1]] = t[2]
            self.own_fields[t[1]], self.own_methods[t[1]], self.own_statics[t[1]] = [], {}, {}
        elif t[0] == "field":
            if t[2] not in self.own_fields[t[1]]:
                self.own_fields[t[1]].append(t[2])
            return self.observe_index(t[1], t[2], out)
        elif t[0] == "method":
            self.own_methods[t[1]][t[2]] = int(t[3])
        elif t[0] == "static":
            self.own_statics[t[1]][t[2]] = int(t[3])
        elif t[0] == "lookup":
            exp = self.mro(t[1], t[2])
            if out != exp:
                return "lookup of %s on %s gives %s, most-derived-first walk gives %s" % (t[2], t[1], out, exp)
        elif t[0] == "init":
            exp = self.mro(t[1], "init")
            if out != exp:
                return "init of %s is %s, most derived initialiser is %s" % (t[1], out, exp)
        elif t[0] == "slookup":
            exp = str(self.own_statics[t[1]].get(t[2], "-"))
            if out != exp:
                return "static %s on %s gives %s, expected %s (statics are not inherited)" % (t[2], t[1], out, exp)
        elif t[0] == "fieldindex":
            return self.observe_index(t[1], t[2], out)
        elif t[0] == "nfields":
            if out != str(len(self.fieldset(t[1]))):
                return "class %s reports %s fields, its field set has %d" % (t[1], out, len(self.fieldset(t[1])))
        elif t[0] == "instance":
            n = len(self.fieldset(t[2]))
            if out != str(n):
                return "instance of %s has %s slots, field set has %d" % (t[2], out, n)
            self.inst[t[1]] = (t[2], {"name": {}, "slot": {}})
        elif t[0] == "set":
            c, st = self.inst[t[1]]
            if t[2] in self.fieldset(c):
                if out != "ok":
                    return "set of declared field %s refused: %s" % (t[2], out)
                self.clock += 1
                st["name"][t[2]] = (self.clock, t[3])
            elif out != "nofield":
                return "set of undeclared field %s on %s: %s" % (t[2], c, out)
        elif t[0] == "get":
            c, st = self.inst[t[1]]
            if t[2] not in self.fieldset(c):
                return None if out == "nofield" else "get of undeclared field %s on %s: %s" % (t[2], c, out)
            exp = self.stored(c, st, t[2])
            if exp is not None and out != exp:
                return "get %s.%s gives %s, expected %s" % (t[1], t[2], out, exp)
        elif t[0] in ("geti", "seti"):
            c, st = self.inst[t[1]]
            k = int(t[2])
            fs = self.fieldset(c)
            if k >= len(fs):
                return None if out == "oob" else "slot %d of a %d-slot instance: %s" % (k, len(fs), out)
            if t[0] == "seti":
                if out != "ok":
                    return "seti refused: %s" % out
                self.clock += 1
                st["slot"][k] = (self.clock, t[3])
            else:
                names = [f for f in fs if self.index.get((c, f)) == k]
                if names:
                    exp = self.stored(c, st, names[0])
                    if exp is not None and out != exp:
                        return "slot %d of %s is field %s: read %s by index, %s expected" % (k, t[1], names[0], out, exp)
        elif t[0] == "issub":
            exp = "true" if t[2] in self.chain(t[1]) else "false"
            if out != exp:
                return "issub %s %s = %s" % (t[1], t[2], out)
        elif t[0] == "super":
            exp = self.parent.get(t[1]) or "-"
            if out != exp:
                return "super of %s is %s, declared %s" % (t[1], out, exp)
        return None


def api_spec_check(ops, outs):
    if any(o in ("noclass", "noinst", "bad-op", "nometa") or o.startswith("PANIC") and op.split()[0] not in ("get", "set", "instance")
           for op, o in zip(ops, outs)):
        return None      # not a well-formed history (only arises while shrinking): nothing to judge
    mon = ApiSpec()
    for i, (op, out) in enumerate(zip(ops, outs)):
        try:
            r = mon.step(op, out)
        except (KeyError, ValueError, IndexError) as ex:
            r = None
        if r:
            return i, r
    return None


def shrink_ops(ops, fails):
    cur = list(ops)
    changed = True
    while changed:
        changed = False
        i = 1
        while i < len(cur):
            cand = cur[:i] + cur[i + 1:]
            if fails(cand):
                cur = cand
                changed = True
            else:
                i += 1
    return cur


def api_impl(ops):
    _, o, _ = common.run_lines([vh(), ], ops)[0:3]
    return o


def api_model(ops):
    _, o, _ = common.run_lines([DRV, "classes"], ops)[0:3]
    return o


def norm_api(line):
    return "PANIC" if line.startswith("PANIC") else line


def api_impl_fails_spec(ops):
    o = api_impl(ops)
    return len(o) == len(ops) and api_spec_check(ops, o) is not None


def api_disagree(ops):
    a, b = api_model(ops), api_impl(ops)
    return len(a) != len(b) or any(norm_api(x) != norm_api(y) for x, y in zip(a, b))


def stream_api(ctx, nseq, label="classes"):
    rng = random.Random(ctx.seed * 7919 + 3)
    seqs = []
    corpus = corpus_dir()
    if os.path.isdir(corpus):
        for f in sorted(x for x in os.listdir(corpus) if x.endswith(".json")):
            r = json.load(open(os.path.join(corpus, f)))
            if r.get("engine") == "classes":
                seqs.append((r["ops"], False))
    for k in range(nseq):
        unsealed = (k % 8 == 7)
        seqs.append((gen_api_seq(rng, unsealed), unsealed))
    flat = [op for s, _ in seqs for op in s]
    mo, io = api_model(flat), api_impl(flat)
    stats = {"sequences": len(seqs), "ops": len(flat), "unsealed_sequences": sum(1 for _, u in seqs if u),
             "classes": sum(1 for op in flat if op.startswith(("class ", "derive "))),
             "field_ops": sum(1 for op in flat if op.startswith("field ")),
             "lookups": sum(1 for op in flat if op.startswith("lookup ")),
             "instances": sum(1 for op in flat if op.startswith("instance ")),
             "max_depth": 0, "overrides_seen": 0}
    pos = 0
    spec_fail = None
    tie_fail = None
    for ops, unsealed in seqs:
        outs = io[pos:pos + len(ops)]
        mouts = mo[pos:pos + len(ops)]
        pos += len(ops)
        depth = {}
        meths = {}
        for op in ops:
            t = op.split()
            if t[0] in ("inherit", "derive"):
                depth[t[1]] = depth.get(t[2], 0) + 1
            if t[0] == "method":
                meths.setdefault(t[2], set()).add(t[1])
        stats["max_depth"] = max([stats["max_depth"]] + list(depth.values()))
        stats["overrides_seen"] += sum(1 for v in meths.values() if len(v) > 1)
        nontriv = any(len(v) > 1 for v in meths.values()) and max(list(depth.values()) + [0]) >= 2
        ctx.count_case(ops, nontriv)
        if len(outs) < len(ops):
            if tie_fail is None:
                tie_fail = (ops, "implementation produced %d of %d responses" % (len(outs), len(ops)))
            continue
        if not unsealed and spec_fail is None:
            r = api_spec_check(ops, outs)
            if r:
                spec_fail = (ops, r)
        if tie_fail is None and (len(mouts) != len(outs) or any(norm_api(a) != norm_api(b) for a, b in zip(mouts, outs))):
            tie_fail = (ops, "model and implementation differ")
    ctx.stream_stat(label, **stats)
    ctx.cov["traces_validated_against_impl"] += len(seqs)
    if seqs:
        s0 = seqs[-1][0]
        ctx.sample({"engine": "classes", "ops": s0[:16], "impl": api_impl(s0)[:16]})
    if spec_fail:
        ops, (idx, msg) = spec_fail
        small = shrink_ops(ops[:idx + 1], api_impl_fails_spec)
        ctx.cov["impl_vs_spec_failures"] += 1
        ctx.violation("classes_spec", {"engine": "classes", "kind": "implementation-vs-spec", "seed": ctx.seed,
                                       "what": (api_spec_check(small, api_impl(small)) or (0, msg))[1],
                                       "ops": small, "impl": api_impl(small), "model": api_model(small),
                                       "replay": "./check C03 --replay <this file>"})
        return False
    if tie_fail:
        ops, msg = tie_fail
        ctx.cov["model_vs_impl_disagreements"] += 1
        small = shrink_ops(ops, api_disagree)
        found = search_api(ctx, 10 * nseq)
        if found:
            ctx.violation("classes_spec", found)
        else:
            ctx.violation("classes_tie", {"engine": "classes", "kind": "model-vs-implementation", "seed": ctx.seed,
                                          "broken": "correspondence stream classes (Model/Classes.lean vs laythe_core Class/Instance)",
                                          "what": msg, "ops": small, "model": api_model(small), "impl": api_impl(small)},
                          no_input=True)
        return False
    return True


def search_api(ctx, nseq):
    rng = random.Random(ctx.seed * 104729 + 5)
    seqs = [gen_api_seq(rng, False) for _ in range(nseq)]
    flat = [op for s in seqs for op in s]
    io = api_impl(flat)
    ctx.stream_stat("search_classes", sequences=len(seqs))
    pos = 0
    for ops in seqs:
        outs = io[pos:pos + len(ops)]
        pos += len(ops)
        if len(outs) < len(ops):
            break
        r = api_spec_check(ops, outs)
        if r:
            small = shrink_ops(ops[:r[0] + 1], api_impl_fails_spec)
            return {"engine": "classes", "kind": "implementation-vs-spec", "seed": ctx.seed,
                    "what": (api_spec_check(small, api_impl(small)) or r)[1], "ops": small, "impl": api_impl(small),
                    "model": api_model(small), "found_by": "search"}
    return None


# =============================================================================================
# Tie B: generated class programs
# =============================================================================================

M_ARITY = {"m0": 0, "m1": 0, "m2": 1, "m3": 1, "m4": 2}
S_ARITY = {"s0": 0, "s1": 1, "s2": 0}
NUMF = ["f0", "f1", "f2", "f3", "f4", "f5"]


def num(n):
    return ("num", n)


def var(x):
    return ("var", x)


def get(e, n, sugar=False):
    return ("get", e, n, sugar)


def call(f, *args):
    return ("call", f, list(args))


def add(*xs):
    e = xs[0]
    for x in xs[1:]:
        e = ("add", e, x)
    return e


SELF = ("self",)


class GClass:
    def __init__(self, name, parent):
        self.name = name
        self.parent = parent        # GClass or None
        self.parent_as = None       # the name the source uses for the parent (a variable bound to that class), if not its own
        self.explicit_object = False
        self.init = None            # (params, stmts)
        self.methods = []           # (name, params, stmts)
        self.statics = []
        self.own_fields = []        # names assigned in init
        self.fragile_own = False    # its initialiser may leave inherited fields nil / a callable field nil

    def fragile(self):
        return any(k.fragile_own for k in self.chain())

    def chain(self):
        c, out = self, []
        while c is not None:
            out.append(c)
            c = c.parent
        return out

    def depth(self):
        return len(self.chain())

    def fields(self):
        out = []
        for c in reversed(self.chain()):
            for f in c.own_fields:
                if f not in out:
                    out.append(f)
        return out

    def find_method(self, m):
        for c in self.chain():
            for (n, p, b) in c.methods:
                if n == m:
                    return c
        return None

    def init_owner(self):
        for c in self.chain():
            if c.init is not None:
                return c
        return None

    def init_arity(self):
        o = self.init_owner()
        return len(o.init[0]) if o else 0


def explicit_child_block(rng, name, bound, classes, meta, local_shadow=False):
    """statements declaring `class <name> : Object {..}` where the program's `Object` is the class `bound` (or
    not a class: None) and using it; meant for the body of a `try` (the declaration raises if Object is not a class)"""
    t = GClass(name, bound)
    t.parent_as = "Object"
    if bound is None:
        meta["superclass_not_a_class"] += 1
        return [class_item_explicit(t, "Object"), ("print", ("str", "declared"))]
    meta["explicit_parent_own_object"] += 1
    meta["local_classes"] += 1
    gen_class_body(rng, t, [k for k in classes if k.name != "Object"], meta)
    v = "t%d" % fresh_uid(meta)
    out = [class_item(t), ("let", v, call(var(name), *[num(rng.randint(1, 9)) for _ in range(t.init_arity())]))]
    for f in t.fields():
        if f in NUMF:
            out.append(("print", get(var(v), f)))
    for m in sorted(M_ARITY):
        if callable_on(t, m) == "method" and not t.fragile() and rng.random() < 0.6:
            out.append(("print", call(get(var(v), m), *[num(rng.randint(1, 9)) for _ in range(M_ARITY[m])])))
    return out


def class_item_explicit(c, parent_name):
    return ("class", c.name, parent_name, None, [], [])


def gen_local_unit(rng, k, classes, meta):
    """A function `mk<k>` (or a module-level block) in which the name `Object` is a local — a parameter, a `let`, a
    local class — and classes are declared under it: `L<k>` without parent (the built-in Object, whatever the local
    is) and, sometimes, `M<k> : Object` (the local).  Returns (items, objs): the instance the function returns is
    used by the main statements like every other object."""
    meta["object_local"] += 1
    mods = [c for c in classes if c.name != "Object"]
    body, params, args = [], [], []
    shape = rng.random()
    bound = None                      # the GClass the local `Object` denotes, if it is a class
    if shape < 0.25:
        params = ["Object"]
        if rng.random() < 0.7:
            bound = rng.choice(mods)
            args = [var(bound.name)]
        else:
            args = [num(rng.randint(1, 9))]
    elif shape < 0.6:
        if rng.random() < 0.7:
            bound = rng.choice(mods)
            body.append(("let", "Object", var(bound.name)))
        else:
            body.append(("let", "Object", rng.choice([num(5), ("nil",), ("lam", [], [("ret", num(3))])])))
    else:
        bound = GClass("Object", rng.choice(mods) if rng.random() < 0.4 else None)
        gen_class_body(rng, bound, mods, meta)
        meta["local_classes"] += 1
        meta["implicit_parent_under_own_object"] += bound.parent is None
        body.append(class_item(bound))
    lc = GClass("L%d" % k, None)
    gen_class_body(rng, lc, mods, meta)
    meta["local_classes"] += 1
    meta["implicit_parent_under_own_object"] += 1
    body.append(class_item(lc))
    o = "lo%d" % k
    body.append(("let", o, call(var(lc.name), *[num(rng.randint(1, 9)) for _ in range(lc.init_arity())])))
    for f in lc.fields():
        if f in NUMF:
            body.append(("print", get(var(o), f)))
    # what the local Object has, the class without parent does not have
    if bound is not None:
        extra = [x for x in bound.fields() + [m for m in sorted(M_ARITY) if bound.find_method(m)] if not callable_on(lc, x)]
        for x in extra[:2]:
            body.append(wrap_try(("print", get(var(o), x)), meta))
    if rng.random() < 0.6:
        body.append(("try", explicit_child_block(rng, "M%d" % k, bound, classes, meta), []))
        meta["try_blocks"] += 1
    if rng.random() < 0.35:
        # declared inside a lambda: the enclosing function's local is seen through a capture
        inner = GClass("N%d" % k, None)
        gen_class_body(rng, inner, mods, meta)
        meta["local_classes"] += 1
        meta["implicit_parent_under_own_object"] += 1
        io = "no%d" % k
        lam_body = [class_item(inner), ("let", io, call(var(inner.name), *[num(rng.randint(1, 9)) for _ in range(inner.init_arity())]))]
        lam_body += [("print", get(var(io), f)) for f in inner.fields() if f in NUMF]
        lam_body.append(("ret", num(0)))
        body.append(("let", "w", ("lam", [], lam_body)))
        body.append(("expr", call(var("w"))))
    if rng.random() < 0.25:
        # a module-level block instead of a function: the locals are those of the script
        if params:
            body.insert(0, ("let", "Object", args[0]))
        return [("try", body, [])], []
    body.append(("ret", var(o)))
    r = "r%d" % k
    return [("fn", "mk%d" % k, params, body), ("let", r, call(var("mk%d" % k), *args))], [(r, lc)]


def common_view(bases, union=False):
    """What a class declared inside a factory can rely on in its parent: a stand-in class that has the fields
    and methods ALL the classes the factory is going to be applied to have (`union`: that ANY of them has — then
    a `super.m` may fail for some parents, the uses are guarded), and an initialiser if they agree on its arity."""
    v = GClass("?", None)
    pick = any if union else all
    names = []
    for b in bases:
        for f in b.fields():
            if f not in names:
                names.append(f)
    v.own_fields = [f for f in names if all(f in b.fields() for b in bases)]      # fields: always the common ones
    v.methods = [(m, ["a%d" % i for i in range(M_ARITY[m])], None) for m in sorted(M_ARITY)
                 if pick(b.find_method(m) is not None for b in bases)]
    ars = {(b.init_arity() if b.init_owner() else None) for b in bases}
    if len(ars) == 1 and None not in ars:
        v.init = (["p%d" % i for i in range(ars.pop())], [])
    v.fragile_own = union or any(b.fragile() for b in bases)
    return v


def calls_super_init_first(c):
    return bool(c.init and c.init[1] and c.init[1][0][0] == "expr" and c.init[1][0][1][0] == "call"
                and c.init[1][0][1][1] == ("super", "init"))


def product_of(tmpl, base, name):
    """the class one evaluation of the declaration `tmpl` gives when its parent is `base`"""
    p = GClass(name, base)
    p.init, p.methods, p.statics, p.own_fields = tmpl.init, tmpl.methods, tmpl.statics, tmpl.own_fields
    p.fragile_own = tmpl.fragile_own or (tmpl.init is not None and base is not None and base.init_owner() is not None
                                         and not calls_super_init_first(tmpl))
    p.template = tmpl
    return p


def mention_outer(rng, c, x):
    """let some methods of the template class `c` read the variable `x` of the enclosing function (a number)"""
    out = []
    for (n, ps, b) in c.methods:
        if b and b[-1][0] == "ret" and rng.random() < 0.5:
            b = b[:-1] + [("ret", add(b[-1][1], var(x)))]
        out.append((n, ps, b))
    c.methods = out


class Factory:
    """`fn mk<k>(B, q) { [class P {..}] class D : B|P {..} [class E : D {..}] return D|E; }` (or the same as a lambda)"""

    def __init__(self, k):
        self.k = k
        self.fname = "fac%d" % k
        self.templates = []      # declaration order; templates[0].parent is the stand-in (or None for the inner root)
        self.form = "single"
        self.napplied = 0
        self.nested_ok = True

    def apply(self, base, name):
        """the GClass of the class `mk(base, _)` returns (None if the form ignores B)"""
        cur = base if self.form != "inner_root" else None
        for t in self.templates[:-1]:
            cur = product_of(t, cur, None)
        return product_of(self.templates[-1], cur, name)


def gen_factory(rng, k, classes, meta):
    """Returns (factory, items, primary bases)."""
    fac = Factory(k)
    r = rng.random()
    fac.form = "single" if r < 0.55 else ("chain" if r < 0.8 else "inner_root")
    cands = list(classes)
    # the parents it will see: 2-4 different classes, preferably with zero-argument methods of their own to override
    best = None
    for _ in range(4):
        bases = rng.sample(cands, min(len(cands), rng.choice([2, 2, 3, 4])))
        score = sum(1 for m in ("m0", "m1") if all(b.find_method(m) for b in bases))
        if best is None or score > best[0]:
            best = (score, bases)
    bases = best[1]
    union = rng.random() < 0.2
    before = {key: meta[key] for key in ("super_fused", "super_args", "super_value", "super_lambda")}
    meta["_boost"] = True
    if fac.form == "inner_root":
        root = GClass("P%d" % k, None)
        gen_class_body(rng, root, classes, meta)
        d = GClass("D%d" % k, root)
        gen_class_body(rng, d, classes, meta)
        fac.templates = [root, d]
        meta["local_classes"] += 2
    else:
        view = common_view(bases, union)
        d = GClass("D%d" % k, view)
        d.parent_as = "B"
        gen_class_body(rng, d, classes, meta)
        d.fragile_own = d.fragile_own or union
        fac.templates = [d]
        meta["local_classes"] += 1
        if fac.form == "chain":
            e = GClass("E%d" % k, d)
            gen_class_body(rng, e, classes, meta)
            fac.templates.append(e)
            meta["local_classes"] += 1
    meta["_boost"] = False
    for key, v in before.items():
        meta["factory_" + key] += meta[key] - v
    for t in fac.templates:
        mention_outer(rng, t, "q")
    top = fac.templates[-1]
    # applying the factory to its own product: only if the product's initialiser has the arity the declaration expects
    if fac.form != "inner_root":
        want = view.init_arity() if view.init is not None else None
        got = top.init_arity() if top.init_owner() not in (None, view) else want
        fac.nested_ok = want is None or want == got
    body = [class_item(t) for t in fac.templates] + [("ret", var(top.name))]
    meta["factories"] += 1
    meta["factory_form_" + fac.form] += 1
    if rng.random() < 0.75:
        items = [("fn", fac.fname, ["B", "q"], body)]
    else:
        items = [("let", fac.fname, ("lam", ["B", "q"], body))]
        meta["factory_lambda"] += 1
    return fac, items, bases


def apply_factory(rng, fac, base, meta):
    """`let K<k>_<n> = mk<k>(<base>, <number>);` — returns (item, the product's GClass)"""
    name = "K%d_%d" % (fac.k, fac.napplied)
    fac.napplied += 1
    meta["factory_applications"] += 1
    return ("let", name, call(var(fac.fname), var(base.name), num(rng.randint(1, 9) * 100))), fac.apply(base, name)


def gen_program(rng, size=1.0, shadow=None, factory=None):
    """Returns (items, meta).  Items are the AST; meta has distribution counters."""
    meta = {"classes": 0, "max_depth": 0, "overrides": 0, "super_calls": 0, "super_init": 0, "shadow_fields": 0,
            "statics": 0, "bound_passed": 0, "shared_sites": 0, "try_blocks": 0, "explicit_object": 0,
            "fused_sites": 0, "unfused_sites": 0, "lambda_self": 0, "foreign_field_reads": 0,
            "object_module_class": 0, "object_module_value": 0, "object_local": 0, "local_classes": 0,
            "implicit_parent_under_own_object": 0, "explicit_parent_own_object": 0, "superclass_not_a_class": 0,
            "super_fused": 0, "super_args": 0, "super_value": 0, "super_lambda": 0,
            "factories": 0, "factory_applications": 0, "factory_nested": 0, "factory_late": 0, "factory_lambda": 0,
            "factory_not_a_class": 0, "factory_form_single": 0, "factory_form_chain": 0, "factory_form_inner_root": 0,
            "factory_super_fused": 0, "factory_super_args": 0, "factory_super_value": 0, "factory_super_lambda": 0,
            "factory_distinct_parents_max": 0}
    ncls = rng.randint(2, 7)
    # the program's own `Object` (the implicit superclass stays the built-in one, an explicit `: Object` is the program's):
    # a module-level class of that name / a module variable or function of that name / locals of that name (below)
    r = rng.random() if shadow is None else {"class": 0.0, "value": 0.2, None: 1.0}[shadow.get("module")]
    mod_shadow = "class" if r < 0.14 else ("value" if r < 0.26 else None)
    own_object_at = rng.randrange(ncls) if mod_shadow == "class" else -1
    classes = []
    for k in range(ncls):
        cands = [c for c in classes if c.depth() < 6]
        parent = None
        if cands and rng.random() < 0.75:
            cands.sort(key=lambda c: -c.depth())
            parent = cands[0] if rng.random() < 0.45 else rng.choice(cands)
            if own_object_at >= 0 and own_object_at < k and rng.random() < 0.4:
                parent = classes[own_object_at]
        c = GClass("Object" if k == own_object_at else "C%d" % k, parent)
        if parent is None and mod_shadow is None and rng.random() < 0.2:
            c.explicit_object = True
            meta["explicit_object"] += 1
        classes.append(c)
        gen_class_body(rng, c, classes, meta)
    meta["classes"] = ncls
    meta["max_depth"] = max(c.depth() for c in classes)
    items = [class_item(c) for c in classes]
    if mod_shadow == "class":
        meta["object_module_class"] += 1
        meta["implicit_parent_under_own_object"] += sum(1 for c in classes if c.parent is None)
        meta["explicit_parent_own_object"] += sum(1 for c in classes if c.parent is classes[own_object_at])
    if mod_shadow == "value":
        # `let Object = <class | number | nil | lambda>;` or `fn Object() {..}` somewhere among the class declarations
        meta["object_module_value"] += 1
        at = rng.randint(0, ncls)
        bound = None
        kind = rng.random()
        if kind < 0.45 and at > 0:
            bound = rng.choice(classes[:at])
            items.insert(at, ("let", "Object", var(bound.name)))
        elif kind < 0.6:
            items.insert(at, ("let", "Object", num(rng.randint(1, 9))))
        elif kind < 0.7:
            items.insert(at, ("let", "Object", ("nil",)))
        elif kind < 0.85:
            items.insert(at, ("let", "Object", ("lam", [], [("ret", num(3))])))
        else:
            items.insert(at, ("fn", "Object", [], [("ret", num(7))]))
        meta["implicit_parent_under_own_object"] += sum(1 for c in classes if c.parent is None)
        # an explicit `: Object` after that is the program's value: a class, or "Superclass must be a class."
        if rng.random() < 0.8:
            items.append(("try", explicit_child_block(rng, "T0", bound, classes, meta), []))
            meta["try_blocks"] += 1
    # shared call sites and helpers
    items.append(("fn", "apply0", ["f"], [("ret", call(var("f")))]))
    items.append(("fn", "apply1", ["f", "a"], [("ret", call(var("f"), var("a")))]))
    for m, ar in M_ARITY.items():
        ps = ["o"] + ["a%d" % i for i in range(ar)]
        items.append(("fn", "site_" + m, ps, [("ret", call(get(var("o"), m), *[var(p) for p in ps[1:]]))]))
        items.append(("fn", "grab_" + m, ["o"], [("ret", get(var("o"), m))]))
    for f in NUMF[:3]:
        items.append(("fn", "read_" + f, ["o"], [("ret", get(var("o"), f))]))
    # instances
    objs = []
    nlocal = 0
    if shadow.get("local") if shadow is not None else rng.random() < 0.3:
        nlocal = rng.choice([1, 1, 2])
    for k in range(nlocal):
        its, lobjs = gen_local_unit(rng, k, classes, meta)
        items += its
        objs += lobjs
    # class factories: one declaration evaluated several times, each time with another parent
    facs = []
    late = []                        # (factory, base) applied in the middle of the main statements
    if factory if factory is not None else rng.random() < 0.35:
        module_classes = list(classes)
        for k in range(rng.choice([1, 1, 1, 2])):
            fac, its, bases = gen_factory(rng, k, module_classes, meta)
            items += its
            facs.append(fac)
            parents = list(bases)
            if rng.random() < 0.3:
                parents.append(rng.choice(bases))          # the same parent twice: two classes all the same
            rng.shuffle(parents)
            if len(parents) > 2 and rng.random() < 0.5:
                late.append((fac, parents.pop()))
            mine = []
            for b in parents:
                it, prod = apply_factory(rng, fac, b, meta)
                items.append(it)
                mine.append(prod)
            if fac.nested_ok and fac.form != "inner_root" and rng.random() < 0.5:
                # the factory applied to a class it made: the super sites of D run with D's own evaluations as parents
                it, prod = apply_factory(rng, fac, rng.choice(mine), meta)
                items.append(it)
                mine.append(prod)
                meta["factory_nested"] += 1
                if rng.random() < 0.3:
                    late.append((fac, prod))
            if rng.random() < 0.15:
                # applied to something that is not a class (the inner-root form does not look at B)
                meta["factory_not_a_class"] += 1
                items.append(("try", [("let", "z%d" % k, call(var(fac.fname), num(5), num(1))), ("print", ("str", "made"))], []))
                meta["try_blocks"] += 1
            classes = classes + mine
            meta["factory_distinct_parents_max"] = max(meta["factory_distinct_parents_max"],
                                                       len({id(p.parent) for p in mine}) + sum(1 for f, _ in late if f is fac))
    for c in classes:
        for rep in range(1 if rng.random() < 0.7 else 2):
            name = "o%d" % len(objs)
            args = [num(rng.randint(1, 9)) for _ in range(c.init_arity())]
            items.append(("let", name, call(var(c.name), *args)))
            objs.append((name, c))
    for (o, c) in objs:
        if "peer" in c.fields() and rng.random() < 0.85:
            items.append(("setf", var(o), "peer", var(rng.choice(objs)[0]), False))
    nstm = int(rng.randint(14, 34) * size)
    for n in range(nstm):
        if late and n == nstm // 2:
            # more evaluations of the declarations after their sites have already run
            for fac, b in late:
                it, prod = apply_factory(rng, fac, b, meta)
                name = "o%d" % len(objs)
                args = [num(rng.randint(1, 9)) for _ in range(prod.init_arity())]
                items += [it, ("let", name, call(var(prod.name), *args))]
                classes = classes + [prod]
                objs.append((name, prod))
                meta["factory_late"] += 1
        items += gen_main_stmt(rng, classes, objs, meta)
    # every receiver class through one shared site, twice in different orders
    for m in rng.sample(sorted(M_ARITY), 2):
        order = list(objs)
        for rnd in range(2):
            rng.shuffle(order)
            for (o, c) in order:
                args = [num(rng.randint(1, 9)) for _ in range(M_ARITY[m])]
                st = ("print", call(var("site_" + m), var(o), *args))
                items.append(wrap_try(st, meta) if callable_on(c, m) != "method" or c.fragile() or rng.random() < 0.2 else st)
                meta["shared_sites"] += 1
    # final state of every object
    for (o, c) in objs:
        for f in c.fields():
            if f in NUMF:
                items.append(("print", get(var(o), f)))
    return items, meta


def class_item(c):
    parent = (c.parent_as or c.parent.name) if c.parent else ("Object" if c.explicit_object else None)
    init = ("init", c.init[0], c.init[1]) if c.init else None
    return ("class", c.name, parent, init, list(c.methods), list(c.statics))


def wrap_try(st, meta, handler=None):
    meta["try_blocks"] += 1
    return ("try", [st], handler or [])


def self_field(rng, f):
    return get(SELF, f, rng.random() < 0.5)


def gen_class_body(rng, c, classes, meta):
    anc_fields = c.parent.fields() if c.parent else []
    # --- initialiser
    if rng.random() < 0.8:
        npar = rng.choice([0, 0, 1, 1, 2])
        params = ["p%d" % i for i in range(npar)]
        body = []
        numeric = []     # fields known to hold a number at this point
        called_super = False
        po = c.parent.init_owner() if c.parent else None
        if po is not None and rng.random() < 0.8:
            args = [rng.choice([var(p) for p in params] + [num(rng.randint(1, 9))]) for _ in range(len(po.init[0]))]
            body.append(("expr", call(("super", "init"), *args)))
            called_super = True
            meta["super_init"] += 1
            numeric = [f for f in anc_fields if f in NUMF]
        nf = rng.randint(0, 5)
        pool = NUMF + [f for f in anc_fields if f in NUMF]
        for _ in range(nf):
            r = rng.random()
            if r < 0.12:
                # a callable field with the name of a method: shadows it
                m = rng.choice(sorted(M_ARITY))
                ar = M_ARITY[m]
                lp = ["x%d" % i for i in range(ar)]
                # the lambda may mention `self` (the shape of the repaired finding D27: an initialiser whose closure
                # captures `self` returned the box instead of the instance); methods install such lambdas too
                terms = [num(rng.randint(100, 900))] + [var(p) for p in lp]
                if numeric and rng.random() < 0.6:
                    terms.append(self_field(rng, rng.choice(numeric)))
                    meta["lambda_self"] += 1
                    meta["lambda_self_in_init"] = meta.get("lambda_self_in_init", 0) + 1
                if params and rng.random() < 0.4:
                    terms.append(var(rng.choice(params)))
                val = ("lam", lp, [("ret", add(*terms))]) if rng.random() < 0.85 else ("nil",)
                if val == ("nil",):
                    c.fragile_own = True
                body.append(("setf", SELF, m, val, rng.random() < 0.5))
                if m not in c.own_fields:
                    c.own_fields.append(m)
                meta["shadow_fields"] += 1
            elif r < 0.18:
                body.append(("setf", SELF, "cb", ("nil",), rng.random() < 0.5))
                if "cb" not in c.own_fields:
                    c.own_fields.append("cb")
            else:
                f = rng.choice(pool)
                terms = [num(rng.randint(1, 50))]
                if params and rng.random() < 0.5:
                    terms.append(var(rng.choice(params)))
                if numeric and rng.random() < 0.4:
                    terms.append(self_field(rng, rng.choice(numeric)))
                body.append(("setf", SELF, f, add(*terms), rng.random() < 0.5))
                if f not in c.own_fields:
                    c.own_fields.append(f)
                if f not in numeric:
                    numeric.append(f)
        if rng.random() < 0.4 and "peer" not in anc_fields:
            # an object-valued field: main stores another instance there, methods read through it (`@peer.f`)
            body.append(("setf", SELF, "peer", ("nil",), rng.random() < 0.5))
            if "peer" not in c.own_fields:
                c.own_fields.append("peer")
        if po is not None and not called_super and rng.random() < 0.3:
            # super.init late: the ancestor's initialiser overwrites what was set above
            args = [rng.choice([var(p) for p in params] + [num(rng.randint(1, 9))]) for _ in range(len(po.init[0]))]
            body.append(("expr", call(("super", "init"), *args)))
            meta["super_init"] += 1
        if po is not None and not called_super:
            c.fragile_own = True
        c.init = (params, body)
    # --- methods
    names = [m for m in sorted(M_ARITY) if rng.random() < (0.75 if meta.get("_boost") else 0.55)][:5]
    rng.shuffle(names)
    allf = c.fields()
    numf = [f for f in allf if f in NUMF]
    for m in names:
        ar = M_ARITY[m]
        params = ["a%d" % i for i in range(ar)]
        body = [("print", ("str", "%s.%s" % (c.name, m)))]
        terms = [num(rng.randint(1, 9))] + [var(p) for p in params]
        if c.parent and c.parent.find_method(m):
            meta["overrides"] += 1
        if numf and rng.random() < 0.6:
            f = rng.choice(numf)
            body.append(("setf", SELF, f, add(self_field(rng, f), num(rng.randint(1, 5))), rng.random() < 0.5))
        if numf and rng.random() < 0.6:
            terms.append(self_field(rng, rng.choice(numf)))
        # a call to a later method on self (dynamic dispatch, possibly into a subclass or a shadowing field)
        later = [x for x in sorted(M_ARITY) if x > m and (c.find_method(x) or x in names)]
        if later and rng.random() < 0.5:
            x = rng.choice(later)
            args = [rng.choice([var(p) for p in params] + [num(rng.randint(1, 9))]) for _ in range(M_ARITY[x])]
            body.append(("let", "t", call(get(SELF, x), *args)))
            terms.append(var("t"))
            meta["fused_sites" if not args else "unfused_sites"] += 1
        # super call from an overriding (or not) method
        if c.parent and rng.random() < (0.9 if meta.get("_boost") else 0.65):
            target = m if (c.parent.find_method(m) and rng.random() < 0.8) else rng.choice([x for x in sorted(M_ARITY) if x >= m])
            if c.parent.find_method(target):
                args = [rng.choice([var(p) for p in params] + [num(rng.randint(1, 9))]) for _ in range(M_ARITY[target])]
                shape = rng.random()
                if shape < 0.6:
                    # `super.m()` without arguments is fused into SuperInvoke, with arguments it is GetSuper + Call
                    body.append(("let", "s", call(("super", target), *args)))
                    meta["super_args" if args else "super_fused"] += 1
                elif shape < 0.8:
                    body.append(("let", "g", ("super", target)))
                    body.append(("let", "s", call(var("g"), *args)))
                    meta["super_value"] += 1
                else:
                    body.append(("let", "h", ("lam", [], [("ret", call(("super", target), *args))])))
                    body.append(("let", "s", call(var("h"))))
                    meta["super_lambda"] += 1
                terms.append(var("s"))
                meta["super_calls"] += 1
        if "peer" in allf and rng.random() < 0.6:
            # a chained read through an object-valued field of self, with and without the `@` shorthand:
            # the property is looked up BY NAME on the peer's class, whatever fields the enclosing class has
            f = rng.choice(NUMF[:4])
            body.append(("try", [("print", get(get(SELF, "peer", rng.random() < 0.7), f))], []))
            meta["foreign_field_reads"] += 1
        shadowable = [x for x in allf if x in M_ARITY and x != m]
        if shadowable and rng.random() < 0.5:
            # install a self-capturing lambda into a field that shadows a method
            x = rng.choice(shadowable)
            lp = ["x%d" % i for i in range(M_ARITY[x])]
            lt = [num(rng.randint(100, 900))] + [var(p) for p in lp] + ([self_field(rng, rng.choice(numf))] if numf else [])
            body.append(("setf", SELF, x, ("lam", lp, [("ret", add(*lt))]), rng.random() < 0.5))
            meta["lambda_self"] += 1
            meta["shadow_fields"] += 1
        if rng.random() < 0.15:
            # a closure over self created and called inside the method
            body.append(("let", "k", ("lam", [], [("ret", add(*([num(1)] + ([self_field(rng, rng.choice(numf))] if numf else []))))])))
            terms.append(call(var("k")))
            meta["lambda_self"] += 1
        body.append(("ret", add(*terms)))
        c.methods.append((m, params, body))
    # --- statics
    for s in sorted(S_ARITY):
        if rng.random() < 0.3:
            ar = S_ARITY[s]
            params = ["a%d" % i for i in range(ar)]
            body = [("print", ("str", "%s.%s" % (c.name, s)))]
            terms = [num(rng.randint(1, 9))] + [var(p) for p in params]
            earlier = [k for k in classes if k is not c and k.find_method("m0") and "m0" not in k.fields()]
            if earlier and rng.random() < 0.4:
                k = rng.choice(earlier)
                args = [num(rng.randint(1, 9)) for _ in range(k.init_arity())]
                body.append(("let", "o", call(var(k.name), *args)))
                terms.append(call(get(var("o"), "m0")))
            body.append(("ret", add(*terms)))
            c.statics.append((s, params, body))
            meta["statics"] += 1


def fresh_uid(meta):
    meta["_uid"] = meta.get("_uid", 0) + 1
    return meta["_uid"]


def callable_on(c, m):
    """what `o.m` is for an instance of c: 'field', 'method' or None"""
    if m in c.fields():
        return "field"
    if c.find_method(m):
        return "method"
    return None


def gen_main_stmt(rng, classes, objs, meta):
    o, c = rng.choice(objs)
    r = rng.random()
    m = rng.choice(sorted(M_ARITY))
    ar = M_ARITY[m]
    args = [num(rng.randint(1, 9)) for _ in range(ar)]
    kind = callable_on(c, m)
    risky = kind != "method" or c.fragile()    # a shadowing field may hold nil / a lambda / a bound method; fields may be nil
    if r < 0.22:
        st = ("print", call(get(var(o), m), *args))
        meta["fused_sites" if not args else "unfused_sites"] += 1
        return [wrap_try(st, meta) if risky or rng.random() < 0.15 else st]
    if r < 0.36:
        v = "b%d" % fresh_uid(meta)
        sts = [("let", v, get(var(o), m)), ("print", call(var(v), *args))]
        meta["bound_passed"] += 1
        return [("try", sts, [])] if risky else sts
    if r < 0.46:
        f = "apply0" if ar == 0 else ("apply1" if ar == 1 else None)
        if f:
            st = ("print", call(var(f), get(var(o), m), *args))
            meta["bound_passed"] += 1
        else:
            st = ("print", call(call(var("grab_" + m), var(o)), *args))
        return [wrap_try(st, meta) if risky else st]
    if r < 0.54:
        # a bound method stored in a field of another object and invoked from there
        holders = [(h, hc) for (h, hc) in objs if "cb" in hc.fields()]
        if holders and kind == "method":
            h, hc = rng.choice(holders)
            meta["bound_passed"] += 1
            st2 = ("print", call(get(var(h), "cb"), *args))
            return [("setf", var(h), "cb", get(var(o), m), False), wrap_try(st2, meta) if risky else st2]
        st = ("print", call(get(var(o), "cb")))
        return [wrap_try(st, meta)]
    if r < 0.64:
        # field access from outside: read, write, read through a shared site
        fs = [f for f in c.fields() if f in NUMF]
        if fs:
            f = rng.choice(fs)
            out = [("setf", var(o), f, num(rng.randint(10, 99)), False), ("print", get(var(o), f))]
            if f in NUMF[:3]:
                out.append(("print", call(var("read_" + f), var(o))))
                meta["foreign_field_reads"] += 1
            return out
        f = rng.choice(NUMF)
        return [wrap_try(("print", get(var(o), f)), meta), wrap_try(("setf", var(o), f, num(1), False), meta)]
    if r < 0.74:
        # statics: on the declaring class, through a value, and on a subclass (not inherited)
        k = rng.choice(classes)
        s = rng.choice(sorted(S_ARITY))
        sargs = [num(rng.randint(1, 9)) for _ in range(S_ARITY[s])]
        has = any(n == s for (n, p, b) in k.statics)
        if rng.random() < 0.5:
            st = ("print", call(get(var(k.name), s), *sargs))
            return [st if has else wrap_try(st, meta)]
        v = "g%d" % fresh_uid(meta)
        sts = [("let", v, get(var(k.name), s)), ("print", call(var(v), *sargs))]
        return [sts[0], sts[1]] if has else [("try", sts, [])]
    if r < 0.82:
        # re-point a shadowing field (or fail to: the field must be declared)
        lp = ["x%d" % i for i in range(ar)]
        lam = ("lam", lp, [("ret", add(*([num(rng.randint(1000, 9000))] + [var(p) for p in lp])))])
        val = lam if rng.random() < 0.75 else ("nil",)
        st = ("setf", var(o), m, val, False)
        call_st = ("print", call(get(var(o), m), *args))
        meta["shadow_fields"] += 1
        return [wrap_try(st, meta), wrap_try(call_st, meta)]
    if r < 0.92:
        # things that are not there
        z = rng.choice(["zz", "nope", "f9", "m9"])
        shape = rng.random()
        if shape < 0.3:
            st = ("expr", call(get(var(o), z)))
        elif shape < 0.55:
            st = ("expr", call(get(var(o), z), num(1)))
        elif shape < 0.75:
            st = ("print", get(var(o), z))
        else:
            st = ("setf", var(o), z, num(1), False)
        return [wrap_try(st, meta, [("print", ("str", "after"))])]
    # non-instance receivers
    shape = rng.random()
    if shape < 0.4:
        st = ("expr", call(get(("nil",), m), *args))
    elif shape < 0.7:
        st = ("expr", call(get(num(5), m), *args))
    else:
        st = ("setf", num(5), "f0", num(1), False)
    return [wrap_try(st, meta)]


# ---- renderers -------------------------------------------------------------------------------


def lay_expr(e):
    t = e[0]
    if t == "num":
        return str(e[1])
    if t == "str":
        return '"%s"' % e[1]
    if t == "nil":
        return "nil"
    if t == "var":
        return e[1]
    if t == "self":
        return "self"
    if t == "get":
        if e[1] == SELF and e[3]:
            return "@" + e[2]
        return "%s.%s" % (lay_expr(e[1]), e[2])
    if t == "call":
        return "%s(%s)" % (lay_expr(e[1]), ", ".join(lay_expr(a) for a in e[2]))
    if t == "super":
        return "super." + e[1]
    if t == "add":
        return "(%s + %s)" % (lay_expr(e[1]), lay_expr(e[2]))
    if t == "lam":
        return "|%s| { %s }" % (", ".join(e[1]), " ".join(lay_stmt(s, 0).strip() for s in e[2]))
    raise ValueError(e)


CATCH = 'print("caught " + e.cls().name() + ": " + e.message);'


def lay_stmt(s, ind):
    p = "  " * ind
    t = s[0]
    if t == "print":
        return p + "print(%s);" % lay_expr(s[1])
    if t == "let":
        return p + "let %s = %s;" % (s[1], lay_expr(s[2]))
    if t == "expr":
        return p + lay_expr(s[1]) + ";"
    if t == "ret":
        return p + "return %s;" % lay_expr(s[1])
    if t == "setf":
        tgt = ("@" + s[2]) if (s[1] == SELF and s[4]) else "%s.%s" % (lay_expr(s[1]), s[2])
        return p + "%s = %s;" % (tgt, lay_expr(s[3]))
    if t == "try":
        body = "\n".join(lay_stmt(x, ind + 1) for x in s[1])
        hand = "\n".join([p + "  " + CATCH] + [lay_stmt(x, ind + 1) for x in s[2]])
        return "%stry {\n%s\n%s} catch e: Error {\n%s\n%s}" % (p, body, p, hand, p)
    if t == "class":
        return lay_class(s, ind)
    raise ValueError(s)


def lay_fun(name, params, body, ind, prefix=""):
    p = "  " * ind
    return "%s%s%s(%s) {\n%s\n%s}" % (p, prefix, name, ", ".join(params), "\n".join(lay_stmt(s, ind + 1) for s in body), p)


def lay_class(it, ind):
    """a class declaration, at module level (an item) or inside a block (a statement)"""
    _, name, parent, init, methods, statics = it
    p = "  " * ind
    parts = []
    if init:
        parts.append(lay_fun("init", init[1], init[2], ind + 1))
    parts += [lay_fun(n, ps, b, ind + 1) for (n, ps, b) in methods]
    parts += [lay_fun(n, ps, b, ind + 1, "static ") for (n, ps, b) in statics]
    return "%sclass %s%s {\n%s\n%s}" % (p, name, (" : " + parent) if parent else "", "\n".join(parts), p)


def lay_item(it):
    if it[0] == "class":
        return lay_class(it, 0)
    if it[0] == "fn":
        return lay_fun(it[1], it[2], it[3], 0, "fn ")
    return lay_stmt(it, 0)


def to_lay(items):
    return "\n".join(lay_item(it) for it in items) + "\n"


def sx_expr(e):
    t = e[0]
    if t == "num":
        return "(num %d)" % e[1]
    if t == "str":
        return '(str "%s")' % e[1]
    if t == "nil":
        return "(nil)"
    if t == "var":
        return "(var %s)" % e[1]
    if t == "self":
        return "(self)"
    if t == "get":
        return "(get %s %s)" % (sx_expr(e[1]), e[2])
    if t == "call":
        return "(call %s)" % " ".join([sx_expr(e[1])] + [sx_expr(a) for a in e[2]])
    if t == "super":
        return "(super %s)" % e[1]
    if t == "add":
        return "(add %s %s)" % (sx_expr(e[1]), sx_expr(e[2]))
    if t == "lam":
        return "(lam (%s) %s)" % (" ".join(e[1]), " ".join(sx_stmt(s) for s in e[2]))
    raise ValueError(e)


def sx_stmt(s):
    t = s[0]
    if t == "print":
        return "(print %s)" % sx_expr(s[1])
    if t == "let":
        return "(let %s %s)" % (s[1], sx_expr(s[2]))
    if t == "expr":
        return "(expr %s)" % sx_expr(s[1])
    if t == "ret":
        return "(ret %s)" % sx_expr(s[1])
    if t == "setf":
        return "(setf %s %s %s)" % (sx_expr(s[1]), s[2], sx_expr(s[3]))
    if t == "try":
        return "(try (%s) (%s))" % (" ".join(sx_stmt(x) for x in s[1]), " ".join(sx_stmt(x) for x in s[2]))
    if t == "class":
        return sx_class(s)
    raise ValueError(s)


def sx_fun(tag, name, params, body):
    return "(%s %s (%s) %s)" % (tag, name, " ".join(params), " ".join(sx_stmt(s) for s in body))


def sx_class(it):
    _, name, parent, init, methods, statics = it
    i = "(init (%s) %s)" % (" ".join(init[1]), " ".join(sx_stmt(s) for s in init[2])) if init else "(noinit)"
    return "(class %s %s %s (methods %s) (statics %s))" % (
        name, parent or "-", i, " ".join(sx_fun("m", n, ps, b) for (n, ps, b) in methods),
        " ".join(sx_fun("m", n, ps, b) for (n, ps, b) in statics))


def sx_item(it):
    if it[0] == "class":
        return sx_class(it)
    if it[0] == "fn":
        return sx_fun("fn", it[1], it[2], it[3])
    return sx_stmt(it)


def to_sx(items):
    return "(prog %s)" % " ".join(sx_item(it) for it in items)


# ---- running and judging -----------------------------------------------------------------------


def unescape(s):
    out, i = [], 0
    while i < len(s):
        if s[i] == "\\" and i + 1 < len(s):
            out.append("\n" if s[i + 1] == "n" else s[i + 1])
            i += 2
        else:
            out.append(s[i])
            i += 1
    return "".join(out)


def spec_run(progs):
    """progs: list of item lists.  Returns list of (status, d20count, [lines])."""
    rc, out, err = par_lines([DRV, "prog"], [to_sx(p) for p in progs])
    res = []
    for line in out:
        parts = line.split("\t")
        if len(parts) != 3:
            res.append((line, 0, []))
            continue
        o = unescape(parts[2])
        res.append((unescape(parts[0]), int(parts[1]), o.split("\n") if o else []))
    while len(res) < len(progs):
        res.append(("DRIVER-FAILED rc=%s %s" % (rc, (err or "")[-200:]), 0, []))
    return res


def impl_run(progs, tmp, extra=""):
    reqs = []
    for i, p in enumerate(progs):
        path = os.path.join(tmp, "p%d.lay" % i)
        with open(path, "w") as f:
            f.write(to_lay(p))
        reqs.append((extra + " " + path).strip())
    return common.run_batch(reqs)


def line_matches(exp, got):
    """exp: a Spec line; `~` marks an error raised at a D20-shaped site (class not compared there)."""
    if exp == got:
        return True, False
    m = re.match(r"caught PropertyError~: (.*)$", exp)
    if m:
        if got == "caught PropertyError: " + m.group(1):
            return True, False
        if got == "caught RuntimeError: " + m.group(1):
            return True, True
    return False, False


def judge(spec, impl):
    """Returns (verdict, message, d20hits): verdict in ok | skip | fail."""
    status, d20, lines = spec
    if status.startswith(("UNSUPPORTED", "FUEL", "BADPROG", "DRIVER-FAILED")):
        return "skip", status, 0
    if impl is None:
        return "fail", "no result from the harness", 0
    ist = impl.get("status", "")
    got = impl.get("stdout", "").split("\n")
    if got and got[-1] == "":
        got.pop()
    hits = 0
    for i in range(max(len(lines), len(got))):
        a = lines[i] if i < len(lines) else "<nothing>"
        b = got[i] if i < len(got) else "<nothing>"
        ok, hit = line_matches(a, b)
        hits += hit
        if not ok:
            return "fail", "output line %d: implementation prints %r, Spec says %r" % (i + 1, b, a), hits
    if status == "Ok":
        if ist != "Ok:0":
            return "fail", "Spec: program completes; implementation status %s %s" % (ist, impl.get("stderr", "")[-200:]), hits
        return "ok", "", hits
    m = re.match(r"Err (\w+)(~?): (.*)$", status, re.S)
    if not m:
        return "skip", status, hits
    last = [l for l in impl.get("stderr", "").split("\n") if l.strip()]
    last = last[-1] if last else ""
    if ist != "RuntimeError:1":
        return "fail", "Spec: uncaught %s; implementation status %s" % (m.group(1), ist), hits
    want = [m.group(1) + ": " + m.group(3)]
    if m.group(2):
        want.append("RuntimeError: " + m.group(3))
    if last not in want:
        return "fail", "uncaught error: implementation reports %r, Spec says %r" % (last, want[0]), hits
    return "ok", "", hits + (1 if last != want[0] else 0)


def prog_fails(items, extra="", allow_compile_error=False):
    with tempfile.TemporaryDirectory(prefix="c03_") as tmp:
        s = spec_run([items])[0]
        r = impl_run([items], tmp, extra)[0]
    v, msg, _ = judge(s, r)
    if r is not None and str(r.get("status", "")).startswith("CompileError") and not allow_compile_error:
        return False     # shrinking removed a declaration that is still referenced: not a candidate
    return v == "fail"


def shrink_prog(items, extra="", fails=None):
    """Greedy delta-debugging on the item list, then on method/static lists and statement lists of
    classes; a candidate counts only if the Spec still accepts it and the implementation still
    disagrees with the Spec."""
    if fails is None:
        def fails(cand):
            return prog_fails(cand, extra)
    cur = list(items)
    changed = True
    rounds = 0
    while changed and rounds < 4:
        changed = False
        rounds += 1
        i = len(cur) - 1
        while i >= 0:
            cand = cur[:i] + cur[i + 1:]
            if cand and fails(cand):
                cur = cand
                changed = True
            i -= 1
        # inside module-level blocks and function bodies: drop statements, thin out the classes declared there
        for i, it in enumerate(list(cur)):
            is_lam = it[0] == "let" and it[2][0] == "lam"        # `let fac = |B, q| { class D : B {..} return D; };`
            if it[0] in ("try", "fn") or is_lam:
                bi = 1 if it[0] == "try" else 3
                body = list(it[2][2]) if is_lam else list(it[bi])

                def rebuilt(b, it=it, bi=bi, i=i, is_lam=is_lam):
                    if is_lam:
                        return cur[:i] + [("let", it[1], ("lam", it[2][1], b))] + cur[i + 1:]
                    return cur[:i] + [it[:bi] + (b,) + it[bi + 1:]] + cur[i + 1:]
                j = len(body) - 1
                while j >= 0:
                    cand_b = body[:j] + body[j + 1:]
                    if fails(rebuilt(cand_b)):
                        body, changed = cand_b, True
                        cur = rebuilt(body)
                    j -= 1
                for j, st in enumerate(list(body)):
                    if st[0] == "class":
                        _, name, parent, init, methods, statics = st
                        for k in range(len(methods) - 1, -1, -1):
                            cst = ("class", name, parent, init, methods[:k] + methods[k + 1:], statics)
                            if fails(rebuilt(body[:j] + [cst] + body[j + 1:])):
                                methods, changed = cst[4], True
                                body = body[:j] + [cst] + body[j + 1:]
                                cur = rebuilt(body)
                        for k in range(len(statics) - 1, -1, -1):
                            cst = ("class", name, parent, init, methods, statics[:k] + statics[k + 1:])
                            if fails(rebuilt(body[:j] + [cst] + body[j + 1:])):
                                statics, changed = cst[5], True
                                body = body[:j] + [cst] + body[j + 1:]
                                cur = rebuilt(body)
                        if init and init[2]:
                            cst = ("class", name, parent, ("init", init[1], []), methods, statics)
                            if fails(rebuilt(body[:j] + [cst] + body[j + 1:])):
                                init, changed = cst[3], True
                                body = body[:j] + [cst] + body[j + 1:]
                                cur = rebuilt(body)
                        for mi, (mn, mp, mb) in enumerate(list(methods)):
                            for k in range(len(mb) - 2, -1, -1):
                                nb = mb[:k] + mb[k + 1:]
                                cst = ("class", name, parent, init, methods[:mi] + [(mn, mp, nb)] + methods[mi + 1:], statics)
                                if fails(rebuilt(body[:j] + [cst] + body[j + 1:])):
                                    methods, mb, changed = cst[4], nb, True
                                    body = body[:j] + [cst] + body[j + 1:]
                                    cur = rebuilt(body)
        # inside classes: drop methods/statics/init statements
        for i, it in enumerate(list(cur)):
            if it[0] == "class":
                _, name, parent, init, methods, statics = it
                for j in range(len(methods) - 1, -1, -1):
                    cand_it = ("class", name, parent, init, methods[:j] + methods[j + 1:], statics)
                    cand = cur[:i] + [cand_it] + cur[i + 1:]
                    if fails(cand):
                        cur, methods, changed = cand, cand_it[4], True
                for j in range(len(statics) - 1, -1, -1):
                    cand_it = ("class", name, parent, init, methods, statics[:j] + statics[j + 1:])
                    cand = cur[:i] + [cand_it] + cur[i + 1:]
                    if fails(cand):
                        cur, statics, changed = cand, cand_it[5], True
                if init:
                    body = init[2]
                    for j in range(len(body) - 1, -1, -1):
                        cand_it = ("class", name, parent, ("init", init[1], body[:j] + body[j + 1:]), methods, statics)
                        cand = cur[:i] + [cand_it] + cur[i + 1:]
                        if fails(cand):
                            cur, body, init, changed = cand, cand_it[3][2], cand_it[3], True
                for j, (mn, mp, mb) in enumerate(list(methods)):
                    for k in range(len(mb) - 2, -1, -1):
                        nb = mb[:k] + mb[k + 1:]
                        nm = methods[:j] + [(mn, mp, nb)] + methods[j + 1:]
                        cand_it = ("class", name, parent, init, nm, statics)
                        cand = cur[:i] + [cand_it] + cur[i + 1:]
                        if fails(cand):
                            cur, methods, mb, changed = cand, nm, nb, True
    return cur


def to_jsonable(x):
    if isinstance(x, tuple):
        return {"t": [to_jsonable(y) for y in x]}
    if isinstance(x, list):
        return [to_jsonable(y) for y in x]
    return x


def from_jsonable(x):
    if isinstance(x, dict) and "t" in x:
        return tuple(from_jsonable(y) for y in x["t"])
    if isinstance(x, list):
        return [from_jsonable(y) for y in x]
    return x


def prog_payload(ctx_seed, items, msg, extra="", found_by=None):
    with tempfile.TemporaryDirectory(prefix="c03_") as tmp:
        s = spec_run([items])[0]
        r = impl_run([items], tmp, extra)[0]
    v, m2, _ = judge(s, r)
    p = {"engine": "prog", "kind": "implementation-vs-spec", "seed": ctx_seed, "what": m2 or msg,
         "program": to_lay(items), "sexp": to_sx(items), "ast": to_jsonable(items), "run_options": extra,
         "spec": {"status": s[0], "stdout": s[2]},
         "impl": {"status": (r or {}).get("status"), "stdout": (r or {}).get("stdout"), "stderr": (r or {}).get("stderr", "")[-600:]},
         "replay": "./check C03 --replay <this file>"}
    if found_by:
        p["found_by"] = found_by
    return p



COMPILE_TIE_MAX = 40000     # programs per run whose compile log is compared (the log is large)

EVENTS = {"GetProp": "G", "SetProp": "S", "GetPropByName": "g", "SetPropByName": "s", "GetSuper": "u",
          "Class": "C", "Inherit": "I", "Method": "M", "Field": "F", "StaticMethod": "T"}


# the instruction that pushes the superclass: O = read from the global module, m = module symbol, l = local / captured
SUPER_LOAD = {"LoadGlobal": "O", "GetModSym": "m", "GetLocal": "l", "GetBox": "l", "GetCapture": "l"}


def compile_impl(files):
    """Compile-only log of the real compiler (hook verif_peephole, `vharness dump -`): per file the list of
    (function name, [property events of its pre-optimiser stream])."""
    import concurrent.futures
    parts = [files[i:i + 250] for i in range(0, len(files), 250)] or [[]]
    with concurrent.futures.ThreadPoolExecutor(max_workers=common.NCPU) as ex:
        # only the FILE lines and the head + PRE part of each FUN record are needed: cut the rest before Python reads it
        cmd = ["bash", "-c", "'%s' dump - | cut -d'|' -f1,2" % common.harness_path()]
        outs = list(ex.map(lambda fs: common.run_lines(cmd, fs, timeout=1800)[1], parts))
    out = [l for o in outs for l in o]
    res, cur = {}, None
    for line in out:
        if line.startswith("FILE "):
            cur = line.split()[1]
            res[cur] = []
        elif line.startswith("FUN ") and cur is not None:
            parts = line.split("|")
            m = re.match(r'FUN name="([^"]*)"', parts[0])
            pre = next((p[4:] for p in parts[1:] if p.startswith("PRE ")), "")
            evs = []
            ops = [ins.split("@")[0].split() for ins in pre.split(";")]
            for k, w in enumerate(ops):
                if w and w[0] in EVENTS:
                    ev = EVENTS[w[0]] + (w[1] if w[0] in ("GetProp", "SetProp") else "")
                    if w[0] == "Inherit":
                        # .. <superclass> [FillBox: `super` is captured] <the class> Inherit
                        j = k - 2
                        if j >= 0 and ops[j] and ops[j][0] == "FillBox":
                            j -= 1
                        ev += SUPER_LOAD.get(ops[j][0] if j >= 0 and ops[j] else "", "?")
                    evs.append(ev)
            res[cur].append((m.group(1) if m else "?", evs))
    return res


def compile_model(progs):
    rc, out, err = par_lines([DRV, "compile"], [to_sx(p) for p in progs])
    res = []
    for line in out:
        funs = []
        for rec in line.split(";"):
            name, _, evs = rec.partition(":")
            funs.append((name, [e for e in evs.split(",") if e]))
        res.append(funs)
    while len(res) < len(progs):
        res.append(None)
    return res


def compile_differs(model, impl):
    """None if the traces agree (lambda names are not compared: `let f = || ..` names the lambda f)."""
    if model is None or impl is None:
        return "no trace (model %s, implementation %s)" % (model is not None, impl is not None)
    if len(model) != len(impl):
        return "model compiles %d functions, compiler %d" % (len(model), len(impl))
    for k, ((mn, me), (iname, ie)) in enumerate(zip(model, impl)):
        if mn != "lambda" and mn != iname:
            return "function %d: model %s, compiler %s" % (k, mn, iname)
        if me != ie:
            return "function %d (%s): model decides %s, compiler emits %s" % (k, iname, ",".join(me), ",".join(ie))
    return None


def compile_disagree(items):
    with tempfile.TemporaryDirectory(prefix="c03_") as tmp:
        path = os.path.join(tmp, "p.lay")
        open(path, "w").write(to_lay(items))
        impl = compile_impl([path]).get(path)
    if not impl:
        return False
    return compile_differs(compile_model([items])[0], impl) is not None


def shrink_items(items, fails):
    cur = list(items)
    i = len(cur) - 1
    while i >= 0:
        cand = cur[:i] + cur[i + 1:]
        if cand and fails(cand):
            cur = cand
        i -= 1
    return cur


def search_prog(ctx, total, chunk=2500):
    """Spec-judged search for a concrete failing program after a broken proof obligation or a tie failure: fresh
    programs (every second chunk: all with class factories) in chunks, stopping at the first failure."""
    done, k = 0, 0
    while done < total:
        n = min(chunk, total - done)
        found = stream_prog(ctx, n, label="search_prog_%d" % k, seed_mul=7349 + 2 * k, report=False,
                            factory=True if k % 2 == 0 else None)
        if found:
            found["found_by"] = "search"
            return found
        done += n
        k += 1
    return None


def stream_prog(ctx, nprog, label="prog", seed_mul=1000003, report=True, extra_cycle=("",), factory=None):
    rng = random.Random(ctx.seed * seed_mul + 17)
    progs, metas = [], []
    corpus = corpus_dir()
    if report and os.path.isdir(corpus):
        for f in sorted(x for x in os.listdir(corpus) if x.endswith(".json")):
            r = json.load(open(os.path.join(corpus, f)))
            if r.get("engine") == "prog":
                progs.append(from_jsonable(r["ast"]))
                metas.append({})
    for _ in range(nprog):
        p, m = gen_program(rng, factory=factory)
        progs.append(p)
        metas.append(m)
    specs = spec_run(progs)
    fails = []
    stats = {"programs": len(progs), "skipped": 0, "d20_sites_hit": 0, "uncaught_error_programs": 0, "output_lines": 0,
             "caught_errors": 0}
    with tempfile.TemporaryDirectory(prefix="c03_") as tmp:
        groups = {}
        for i, p in enumerate(progs):
            groups.setdefault(extra_cycle[i % len(extra_cycle)], []).append(i)
        impls = [None] * len(progs)
        for extra, idxs in groups.items():
            rs = impl_run([progs[i] for i in idxs], tmp, extra)
            for i, r in zip(idxs, rs):
                impls[i] = r
        # the compiler's decisions on the same programs (files p<i>.lay of the last group are reused: rewrite all)
        ctraces = None
        if report:
            files = []
            for i, p in enumerate(progs[:COMPILE_TIE_MAX]):
                path = os.path.join(tmp, "c%d.lay" % i)
                with open(path, "w") as f:
                    f.write(to_lay(p))
                files.append(path)
            ci = compile_impl(files)
            cm = compile_model(progs[:COMPILE_TIE_MAX])
            ctraces = [(cm[i], ci.get(files[i])) for i in range(len(files))]
    for i, (p, s, r) in enumerate(zip(progs, specs, impls)):
        v, msg, hits = judge(s, r)
        stats["d20_sites_hit"] += hits
        stats["output_lines"] += len(s[2])
        stats["caught_errors"] += sum(1 for l in s[2] if l.startswith("caught "))
        if s[0].startswith("Err"):
            stats["uncaught_error_programs"] += 1
        if v == "skip":
            stats["skipped"] += 1
            stats.setdefault("skip_reasons", {})
            key = s[0][:40]
            stats["skip_reasons"][key] = stats["skip_reasons"].get(key, 0) + 1
        m = metas[i]
        nontriv = bool(m) and m.get("overrides", 0) > 0 and m.get("max_depth", 0) >= 2 and v != "skip"
        ctx.count_case(to_sx(p), nontriv)
        if v == "fail":
            fails.append((i, msg))
    for k in ("classes", "overrides", "super_calls", "super_init", "shadow_fields", "statics", "bound_passed", "shared_sites",
              "try_blocks", "explicit_object", "fused_sites", "unfused_sites", "lambda_self", "foreign_field_reads",
              "object_module_class", "object_module_value", "object_local", "local_classes",
              "implicit_parent_under_own_object", "explicit_parent_own_object", "superclass_not_a_class",
              "super_fused", "super_args", "super_value", "super_lambda",
              "factories", "factory_applications", "factory_nested", "factory_late", "factory_lambda", "factory_not_a_class",
              "factory_form_single", "factory_form_chain", "factory_form_inner_root",
              "factory_super_fused", "factory_super_args", "factory_super_value", "factory_super_lambda"):
        stats[k] = sum(m.get(k, 0) for m in metas)
    stats["factory_programs"] = sum(1 for m in metas if m.get("factories"))
    stats["factory_distinct_parents_max"] = max([m.get("factory_distinct_parents_max", 0) for m in metas] + [0])
    stats["depth_histogram"] = {}
    for m in metas:
        if m:
            d = str(m["max_depth"])
            stats["depth_histogram"][d] = stats["depth_histogram"].get(d, 0) + 1
    ctx.stream_stat(label, **stats)
    ctx.cov["traces_validated_against_impl"] += len(progs) - stats["skipped"]
    if progs and report:
        k = len(progs) - 1
        ctx.sample({"engine": "prog", "program_head": to_lay(progs[k])[:700], "spec_stdout_head": specs[k][2][:8],
                    "impl_stdout_head": (impls[k] or {}).get("stdout", "").split("\n")[:8]})
    if stats["d20_sites_hit"]:
        ctx.cov.setdefault("known_signature_hits", {})["D20"] = ctx.cov.get("known_signature_hits", {}).get("D20", 0) + stats["d20_sites_hit"]
    if fails:
        i, msg = fails[0]
        extra = extra_cycle[i % len(extra_cycle)]
        ce = str((impls[i] or {}).get("status", "")).startswith("CompileError")
        small = shrink_prog(progs[i], extra, fails=lambda cand: prog_fails(cand, extra, allow_compile_error=ce))
        return prog_payload(ctx.seed, small, msg, extra, None if report else "search")
    if ctraces is not None:
        nacc = nfixed = 0
        sup = {"IO": 0, "Im": 0, "Il": 0}
        bad = None
        for i, (m, c) in enumerate(ctraces):
            d = compile_differs(m, c)
            if d and bad is None:
                bad = (i, d)
            for _, evs in (c or []):
                nacc += sum(1 for e in evs if e[0] in "GSgs")
                nfixed += sum(1 for e in evs if e[0] in "GS")
                for e in evs:
                    if e in sup:
                        sup[e] += 1
        ctx.stream_stat("compile", programs=len(ctraces), property_accesses=nacc, fixed_index_accesses=nfixed,
                        superclass_from_global_module=sup["IO"], superclass_from_module_symbol=sup["Im"], superclass_from_local=sup["Il"])
        if bad:
            i, d = bad
            ctx.cov["model_vs_impl_disagreements"] += 1
            small = shrink_prog(progs[i], fails=compile_disagree)
            found = search_prog(ctx, 4 * nprog)
            if found:
                return found
            with tempfile.TemporaryDirectory(prefix="c03_") as tmp2:
                path = os.path.join(tmp2, "p.lay")
                open(path, "w").write(to_lay(small))
                ci = compile_impl([path]).get(path)
            ctx.violation("compile_tie", {"engine": "compile", "kind": "model-vs-implementation", "seed": ctx.seed,
                                          "broken": "correspondence stream compile (Model/ClassCompile.lean + Classes.propertyAccess/recordField vs compiler/mod.rs)",
                                          "what": compile_differs(compile_model([small])[0], ci) or d, "program": to_lay(small),
                                          "ast": to_jsonable(small), "model": compile_model([small])[0], "impl": ci}, no_input=True)
    return None


# =============================================================================================
# corpus programs with a recorded result (witnesses of repaired findings)
# =============================================================================================


def lay_entry_fails(path, r=None):
    """None if the program next to the corpus entry `path` still gives the recorded result, else what differs"""
    r = r or json.load(open(path))
    prog = os.path.join(os.path.dirname(path), r["program"])
    res = common.run_batch([prog])[0] or {}
    last = [l for l in res.get("stderr", "").split("\n") if l.strip()]
    last = last[-1] if last else ""
    if res.get("status") != r["status"]:
        return "status %s, recorded %s" % (res.get("status"), r["status"]), res
    if res.get("stdout") != r["stdout"]:
        return "stdout %r, recorded %r" % (res.get("stdout"), r["stdout"]), res
    if r.get("stderr_last") is not None and last != r["stderr_last"]:
        return "last stderr line %r, recorded %r" % (last, r["stderr_last"]), res
    return None


def stream_lay(ctx):
    corpus = corpus_dir()
    n = 0
    for f in sorted(x for x in os.listdir(corpus) if x.endswith(".json")) if os.path.isdir(corpus) else []:
        path = os.path.join(corpus, f)
        r = json.load(open(path))
        if r.get("engine") != "lay":
            continue
        n += 1
        ctx.count_case("lay:" + f, True)
        bad = lay_entry_fails(path, r)
        if bad:
            msg, res = bad
            ctx.cov["impl_vs_spec_failures"] += 1
            ctx.violation("lay_spec", {"engine": "lay", "kind": "implementation-vs-spec", "what": "%s: %s" % (r.get("note", f), msg),
                                       "corpus_entry": path, "program_file": os.path.join(corpus, r["program"]),
                                       "program": open(os.path.join(corpus, r["program"])).read(),
                                       "recorded": {k: r.get(k) for k in ("status", "stdout", "stderr_last")},
                                       "impl": {"status": res.get("status"), "stdout": res.get("stdout"), "stderr": res.get("stderr", "")[-600:]},
                                       "replay": "./check C03 --replay <this file>"})
            return False
    ctx.stream_stat("lay", programs=n)
    return True


# =============================================================================================
# known findings
# =============================================================================================


def replay_known(ctx):
    for r in common.load_findings(PROP):
        if r.get("status") != "known":
            continue
        w = os.path.join(common.VERIF, r["witness"])
        exp = os.path.join(os.path.dirname(w), "expected_stdout.txt")
        if not os.path.exists(w):
            continue
        res = common.run_batch([w])[0]
        want = open(exp).read() if os.path.exists(exp) else None
        still = res.get("status") != "Ok:0" or (want is not None and res.get("stdout") != want)
        ctx.stream_stat("known_findings", replayed=1)
        if still:
            ctx.known(r["id"], r["what"])
        else:
            ctx.cov.setdefault("known_findings_no_longer_failing", []).append(r["id"])


# =============================================================================================
# entry points
# =============================================================================================


def run(ctx):
    proved = ctx.prove("LaytheVerif.Props.C03", extra_targets=("drv_classes",))
    ok1, out1 = common.cargo_build(bin="vh_classes")
    ok2, out2 = common.cargo_build()
    if not (ok1 and ok2):
        ctx.violation("harness_build", {"kind": "harness-build-failed", "broken": "cargo build of /verif/harness against /repo",
                                        "output": (out1 + out2)[-3000:]}, no_input=True)
        return
    if not os.path.exists(DRV):
        # the proof failed before the driver was linked: build the driver alone (it does not depend on Props)
        common.lake_build(["drv_classes"])
    ctx.cov["rule"] = ("(A) class hierarchies built through the Class/Instance API: 1-9 classes, depth <= 6, 0-5 fields and 0-5 methods per "
                       "class with overlapping names, queries interleaved; (B) generated class programs: 2-7 classes, depth <= 6, <= 5 fields / "
                       "<= 5 methods per class, super.init chains, every call-site shape, every object through shared call sites; "
                       "about every third program with 1-2 class factories (one declaration evaluated 2-6 times with different parents: "
                       "module classes, its own products, late in the run), the products used like every other class; "
                       "non-trivial = depth >= 2 and at least one overriding method; distinct by hash of the op list / S-expression")
    napi = ctx.n(5000, 150000)
    nprog = ctx.n(5000, 120000)
    if not proved:
        what, detail = ctx.broken
        found = None
        if os.path.exists(DRV):
            found = search_api(ctx, 10 * napi) or search_prog(ctx, 4 * nprog)
        if found:
            found["broken_obligation"] = what
            found.setdefault("found_by", "search")
            ctx.violation("spec", found)
        else:
            ctx.violation("proof", {"kind": "proof-obligation-failed", "broken": what, "detail": detail}, no_input=True)
        if not os.path.exists(DRV):
            return
    stream_lay(ctx)
    ok_a = stream_api(ctx, napi)
    extra_cycle = ("",) if ctx.quick() else ("", "", "--gc coin:1/7:%d" % ctx.seed, "--caches-off")
    fail = stream_prog(ctx, nprog, extra_cycle=extra_cycle)
    if fail:
        ctx.cov["impl_vs_spec_failures"] += 1
        ctx.violation("prog_spec", fail)
    replay_known(ctx)
    ctx.cov["trusted_base"] += [
        "vlib/props/c03.py: the two renderers (Laythe text / S-expression) of one generated AST, the API Spec monitor ApiSpec, "
        "the output comparison (addresses never printed; `~` lines compare the message only, D20)",
        "Driver/ClassesEng.lean: S-expression reader and the classes/prog/compile engines (correspondence only)",
    ]
    ctx.assumptions += [
        "Model/Classes.lean is hand-written from class.rs / instance/mod.rs / compiler/mod.rs / vm/ops.rs; its class and instance part is "
        "tied to the implementation by the classes stream, its call paths (§6) only through the theorems relating them to the Spec "
        "functions that the program stream checks against the implementation",
        "inline caches are modelled as off (cache transparency is C13), except the one slot that decides which class a call "
        "dispatches on independently of the receiver: the slot of a fused `super.m()` (Classes.lean §7, tied to ops.rs/cache.rs "
        "by Gen/SuperSites.lean; `StoresGrow`: the method table of a class is complete when its declaration ends); the program "
        "stream runs with caches on",
        "the built-in `Object` has no fields (hypothesis `hnof` of C03_fixed_index_valid / _any_scope; it is `Class::bare` plus native methods)",
        "generated programs declare `Object` in every way but do not *assign* the undeclared name (`Object = X;` overwrites the "
        "module's copy of the global symbol, which a class without parent reads where nothing shadows the name: known finding "
        "D26b, hypothesis `hcopy` of C03_implicit_super_is_builtin)",
        "error classes at unfused property reads are compared leniently (`~` lines: PropertyError or RuntimeError, D20 shape); messages are compared",
    ]


def replay(path):
    r = json.load(open(path))
    common.cargo_build(bin="vh_classes")
    common.cargo_build()
    common.lake_build(["drv_classes"])
    if r.get("engine") == "classes":
        ops = r.get("ops", [])
        a, b = api_model(ops), api_impl(ops)
        for op, x, y in zip(ops, a, b):
            print("%-26s model=%-10s impl=%s" % (op, x, y))
        sm = api_spec_check(ops, b) if len(b) == len(ops) else (len(b), "implementation stopped answering")
        dis = len(a) != len(b) or any(norm_api(x) != norm_api(y) for x, y in zip(a, b))
        print("spec:", sm, " model/impl differ:", dis)
        return 1 if (sm or dis) else 0
    if r.get("engine") == "prog":
        items = from_jsonable(r["ast"])
        extra = r.get("run_options", "")
        with tempfile.TemporaryDirectory(prefix="c03_") as tmp:
            s = spec_run([items])[0]
            i = impl_run([items], tmp, extra)[0]
        print(to_lay(items))
        print("spec  :", s[0], s[2])
        print("impl  :", i.get("status"), i.get("stdout", "").split("\n"), i.get("stderr", "")[-300:])
        v, msg, _ = judge(s, i)
        print("verdict:", v, msg)
        return 1 if v == "fail" else 0
    if r.get("engine") == "lay":
        entry = r.get("corpus_entry", path)
        bad = lay_entry_fails(entry)
        print(open(os.path.join(os.path.dirname(entry), json.load(open(entry))["program"])).read())
        print("differs:", bad[0] if bad else None)
        if bad:
            print("impl   :", bad[1].get("status"), repr(bad[1].get("stdout")), bad[1].get("stderr", "")[-300:])
        return 1 if bad else 0
    if r.get("engine") == "compile":
        items = from_jsonable(r["ast"])
        print(to_lay(items))
        bad = compile_disagree(items)
        print("model  :", compile_model([items])[0])
        print("differs:", bad)
        return 1 if bad else 0
    print("nothing to replay in", path, "(kind=%s)" % r.get("kind"))
    return 1
