"""Generator of scoping programs for C02 (shared by the two ties).

A program is a Python tree (tuples/lists) that is rendered twice from the same object: as an
S-expression for the Lean driver `drv_scope` and as Laythe source for the implementation.

Node shapes (o = identifier-occurrence id, d = binder id; both unique per program):
  ('lit', n) ('str', s) ('nil',) ('var', o, x) ('assign', o, x, e) ('op', kind, [args])
  ('lam', d0, [(d, x)...], [stmts]) ('let', d, x, e) ('letn', d, x) ('fn', d, f, d0, params, [stmts])
  ('if', c, [stmts], [stmts]) ('while', c, [stmts]) ('for', dIter, d, x, iter, [stmts])
  ('try', [stmts], d, x, o, 'Error', [stmts])
  ('class', d, c, oSup, 'Object', oName, dSuper, [methods]) ('method', kind, m, d0, params, [stmts])

`('letn', d, x)` is `let x;` — a declaration WITHOUT initialiser.  Such a variable (type OPT: nil or an integer) is
`nil` until something is assigned to it, in every storage class (module symbol, plain local, boxed local) and whoever
looks first (the declaring scope or a closure).  OPT variables are only observed in ways that tell `nil` from anything
else: `print(x)`, `x == nil` as a condition (lazy initialisation `if x == nil { x = e; }`), closures returning them
(type F0N, lists of those LFN) whose result is printed.

The iterable of a `for` is outside the scope of its item: it may mention an outer variable of the item's name and may
contain function literals that do (the shape of the repaired finding D31 — judged by the Spec like everything else).

Known-defect signatures the generator stays away from (DESIGN §6 + this property's findings):
  D1  try/catch only in functions without parameters (or at module level)
  D2  no break/continue
  (D32, a closure inside `init` that mentions `self`, is repaired: the shape is generated)
  D33 no declaration directly inside a `try` block that is left by `raise`
"""

import re

INT, F0, F1, MK, LF, LI, OBJ = "int", "f0", "f1", "mk", "lf", "li", "obj"
OPT, F0N, LFN = "opt", "f0n", "lfn"      # nil-or-integer variable, closure returning one, list of such closures

INT_NAMES = ["a", "b", "c", "d", "e", "n"]
FUN_NAMES = ["f", "g", "h", "k"]
LIST_NAMES = ["fs", "gs", "xs"]
OPT_NAMES = ["u", "v", "w", "a", "b"]      # shares `a`, `b` with the integers: shadowing across the two kinds
FUNN_NAMES = ["r", "s", "t"]
LISTN_NAMES = ["us", "vs"]


class Var:
    def __init__(self, name, ty, readonly=False, cls=None):
        self.name, self.ty, self.readonly, self.cls = name, ty, readonly, cls


class FunCtx:
    def __init__(self, nparams, kind):
        self.nparams, self.kind = nparams, kind  # kind: script|fn|lam|method|init


class Gen:
    def __init__(self, rng, max_depth=5, size=40, rich=True):
        self.rng = rng
        self.o = 0
        self.d = 0
        self.scopes = [[]]          # innermost last; each a list of Var
        self.funs = [FunCtx(0, "script")]
        self.hidden = set()
        self.max_depth = max_depth
        self.budget = size
        self.rich = rich
        self.features = set()
        self.nclasses = 0
        self.nloops = 0
        self.module_names = set()
        self.opt = True              # declarations without initialiser and their observations

    # -- ids and scopes ---------------------------------------------------------------------
    def fo(self):
        self.o += 1
        return self.o

    def fd(self):
        self.d += 1
        return self.d

    def push(self):
        self.scopes.append([])

    def pop(self):
        self.scopes.pop()

    def declare(self, v):
        self.scopes[-1].append(v)
        if len(self.scopes) == 1:
            self.module_names.add(v.name)

    def visible(self, ty=None, writable=False):
        seen, out = set(), []
        for sc in reversed(self.scopes):
            for v in reversed(sc):
                if v.name in seen:
                    continue
                seen.add(v.name)
                if v.name in self.hidden:
                    continue
                if ty is not None and v.ty != ty:
                    continue
                if writable and v.readonly:
                    continue
                out.append(v)
        return out

    def fresh_name(self, pool):
        here = {v.name for v in self.scopes[-1]}
        # at module level every name must be new for the whole module; elsewhere shadowing is welcome
        cands = [n for n in pool if n not in here and n not in self.hidden]
        if len(self.scopes) == 1:
            cands = [n for n in cands if n not in self.module_names]
        if not cands:
            k = 0
            while True:
                k += 1
                n = "%s%d" % (pool[0], k)
                if n not in here and n not in self.module_names and n not in self.hidden:
                    return n
        return self.rng.choice(cands)

    def fdepth(self):
        return len(self.funs) - 1

    def spend(self, n=1):
        self.budget -= n
        return self.budget > 0

    # -- expressions ---------------------------------------------------------------------------
    def var(self, v):
        return ("var", self.fo(), v.name)

    def e_int(self, depth=0):
        r = self.rng.random()
        ints = self.visible(INT)
        if depth > 2 or r < 0.15 or (not ints and r < 0.5):
            if ints and self.rng.random() < 0.7:
                return self.var(self.rng.choice(ints))
            return ("lit", self.rng.randrange(0, 10))
        if r < 0.45 and ints:
            return self.var(self.rng.choice(ints))
        if r < 0.70:
            return ("op", self.rng.choice(["add", "add", "sub"]), [self.e_int(depth + 1), self.e_int(depth + 1)])
        if r < 0.82:
            f0 = self.visible(F0)
            if f0:
                self.features.add("call-f0")
                return ("op", "call", [self.var(self.rng.choice(f0))])
        if r < 0.90:
            f1 = self.visible(F1)
            if f1:
                self.features.add("call-f1")
                return ("op", "call", [self.var(self.rng.choice(f1)), self.e_int(depth + 1)])
        if r < 0.95:
            w = self.visible(INT, writable=True)
            if w:
                self.features.add("assign-expr")
                v = self.rng.choice(w)
                return ("assign", self.fo(), v.name, ("op", "add", [self.var(v), ("lit", self.rng.randrange(1, 4))]))
        objs = self.visible(OBJ)
        if objs:
            ob = self.rng.choice(objs)
            self.features.add("method-call")
            return ("op", "invoke:get", [self.var(ob)])
        return ("lit", self.rng.randrange(0, 10))

    def e_cond(self):
        opts = self.visible(OPT) if self.opt else []
        if opts and self.rng.random() < 0.3:
            self.features.add("cond-is-nil")
            return self.is_nil(self.rng.choice(opts))
        return ("op", self.rng.choice(["lt", "lt", "eq"]), [self.e_int(1), self.e_int(1)])

    def is_nil(self, v):
        a, b = self.var(v), ("nil",)
        return ("op", "eq", [a, b] if self.rng.random() < 0.8 else [b, a])

    def lam(self, ty):
        """A closure of type F0/F1/MK; its body is generated in a new function context."""
        nparams = {F0: 0, F1: 1, MK: 1}[ty]
        d0 = self.fd()
        self.funs.append(FunCtx(nparams, "lam"))
        self.push()
        params = []
        for _ in range(nparams):
            p = self.fresh_name(INT_NAMES)
            d = self.fd()
            params.append((d, p))
            self.declare(Var(p, INT))
        body = self.fun_body(ty)
        self.pop()
        self.funs.pop()
        return ("lam", d0, params, body)

    def fun_body(self, ty):
        body = self.stmts(self.rng.randrange(0, 4))
        if ty == MK:
            self.features.add("closure-outlives-call")
            # maybe a local that the returned closure shares with the call
            if self.fdepth() < self.max_depth:
                body.append(("op", "ret", [self.lam(F0)]))
            else:
                body.append(("op", "ret", [("lam", self.fd(), [], [("op", "ret", [self.e_int()])])]))
        else:
            body.append(("op", "ret", [self.e_int()]))
        return body

    # -- statements ----------------------------------------------------------------------------
    def stmts(self, n):
        out = []
        for _ in range(n):
            if not self.spend():
                break
            out.extend(self.stmt())
        return out

    def stmt(self):
        if self.opt and self.rng.random() < 0.14:
            return self.s_opt()
        r = self.rng.random()
        deep_ok = self.fdepth() < self.max_depth
        if r < 0.16:
            return [self.s_let_int()]
        if r < 0.30:
            return [self.s_print()]
        if r < 0.42:
            w = self.visible(INT, writable=True)
            if w:
                v = self.rng.choice(w)
                self.features.add("assign")
                return [("op", "exprS", [("assign", self.fo(), v.name, self.e_int())])]
            return [self.s_let_int()]
        if r < 0.56 and deep_ok:
            return [self.s_let_fun()]
        if r < 0.64 and deep_ok:
            return [self.s_fn()]
        if r < 0.70:
            return [self.s_if()]
        if r < 0.76 and deep_ok:
            return self.s_while()
        if r < 0.82:
            return self.s_for()
        if r < 0.86:
            fs = self.visible(F0) + self.visible(F1)
            if fs:
                f = self.rng.choice(fs)
                args = [self.var(f)] + ([self.e_int()] if f.ty == F1 else [])
                return [("op", "exprS", [("op", "call", args)])]
            return [self.s_print()]
        if r < 0.90 and deep_ok:
            name = self.fresh_name(FUN_NAMES)
            self.hidden.add(name)
            mks = self.visible(MK)
            self.hidden.discard(name)
            if mks:
                self.hidden.add(name)
                e = ("op", "call", [self.var(self.rng.choice(mks)), self.e_int()])
                self.hidden.discard(name)
                d = self.fd()
                self.declare(Var(name, F0))
                return [("let", d, name, e)]
            return [self.s_let_fun(MK)]
        if r < 0.94 and self.rich and self.funs[-1].nparams == 0 and self.funs[-1].kind != "init":
            return [self.s_try()]
        if r < 0.98 and self.rich and deep_ok and self.nclasses < 2 and self.fdepth() <= 2:
            return self.s_class()
        return [self.s_print()]

    # -- declarations without initialiser ---------------------------------------------------------
    def s_let_nil(self):
        """`let x;`"""
        name = self.fresh_name(OPT_NAMES)
        d = self.fd()
        self.declare(Var(name, OPT))
        self.features.add("let-no-init" + ("-module" if len(self.scopes) == 1 else ""))
        return ("letn", d, name)

    def s_print_opt(self, v):
        return ("op", "exprS", [("op", "call", [("var", self.fo(), "print"), self.var(v)])])

    def lam_ret_opt(self, v):
        """`|| { <stmts> return v; }` — a closure that hands out the OPT variable `v` (so it captures it)"""
        d0 = self.fd()
        self.funs.append(FunCtx(0, "lam"))
        self.push()
        body = self.stmts(self.rng.randrange(0, 2))
        vis = [w for w in self.visible(OPT) if w.name == v.name]
        body.append(("op", "ret", [self.var(vis[0]) if vis else ("nil",)]))
        self.pop()
        self.funs.pop()
        return ("lam", d0, [], body)

    def s_opt(self):
        """one statement about nil-or-integer variables"""
        opts = self.visible(OPT)
        if not opts or self.rng.random() < 0.30:
            # the declaration, often followed at once by a few uses (reads come before writes more often than not)
            out = [self.s_let_nil()]
            v = self.scopes[-1][-1]
            for _ in range(self.rng.randrange(0, 3)):
                if not self.spend():
                    break
                out += self.s_opt_use(v)
            return out
        return self.s_opt_use(self.rng.choice(opts))

    def s_opt_use(self, v):
        r = 0.30 + 0.70 * self.rng.random()
        deep_ok = self.fdepth() < self.max_depth
        if r < 0.45:
            self.features.add("print-opt")
            return [self.s_print_opt(v)]
        if r < 0.57:
            self.features.add("assign-opt")
            return [("op", "exprS", [("assign", self.fo(), v.name, self.e_int())])]
        if r < 0.62:
            self.features.add("assign-opt-nil")
            return [("op", "exprS", [("assign", self.fo(), v.name, ("nil",))])]
        if r < 0.76:
            # lazy initialisation: `if v == nil { v = e; … } else { … }`
            self.features.add("lazy-init")
            c = self.is_nil(v)
            self.push()
            t = [("op", "exprS", [("assign", self.fo(), v.name, self.e_int())])] + self.stmts(self.rng.randrange(0, 2))
            self.pop()
            return [("if", c, t, self.block(self.rng.randrange(0, 2)))]
        if r < 0.90 and deep_ok:
            # a closure handing the variable out: `let r = || { … return v; };`
            self.features.add("closure-returns-opt")
            name = self.fresh_name(FUNN_NAMES)
            self.hidden.add(name)
            e = self.lam_ret_opt(v)
            self.hidden.discard(name)
            d = self.fd()
            self.declare(Var(name, F0N))
            return [("let", d, name, e)]
        fns = self.visible(F0N)
        if fns:
            self.features.add("call-closure-returning-opt")
            f = self.rng.choice(fns)
            return [("op", "exprS", [("op", "call", [("var", self.fo(), "print"), ("op", "call", [self.var(f)])])])]
        self.features.add("print-opt")
        return [self.s_print_opt(v)]

    def s_nodecl(self):
        w = self.visible(INT, writable=True)
        if w and self.rng.random() < 0.5:
            v = self.rng.choice(w)
            return ("op", "exprS", [("assign", self.fo(), v.name, self.e_int())])
        return self.s_print()

    def s_let_int(self):
        name = self.fresh_name(INT_NAMES)
        self.hidden.add(name)
        e = self.e_int()
        self.hidden.discard(name)
        d = self.fd()
        self.declare(Var(name, INT))
        return ("let", d, name, e)

    def s_print(self):
        return ("op", "exprS", [("op", "call", [("var", self.fo(), "print"), self.e_int()])])

    def s_let_fun(self, ty=None):
        ty = ty or self.rng.choice([F0, F0, F1, MK])
        name = self.fresh_name(FUN_NAMES)
        self.hidden.add(name)
        e = self.lam(ty)
        self.hidden.discard(name)
        d = self.fd()
        self.declare(Var(name, ty))
        return ("let", d, name, e)

    def s_fn(self):
        ty = self.rng.choice([F0, F1, MK])
        name = self.fresh_name(FUN_NAMES)
        d = self.fd()
        # the name is declared (and initialised) before the body; we never recurse
        self.hidden.add(name)
        nparams = {F0: 0, F1: 1, MK: 1}[ty]
        d0 = self.fd()
        self.funs.append(FunCtx(nparams, "fn"))
        self.push()
        params = []
        for _ in range(nparams):
            p = self.fresh_name(INT_NAMES)
            pd = self.fd()
            params.append((pd, p))
            self.declare(Var(p, INT))
        body = self.fun_body(ty)
        self.pop()
        self.funs.pop()
        self.hidden.discard(name)
        self.declare(Var(name, ty))
        self.features.add("fn-decl")
        return ("fn", d, name, d0, params, body)

    def block(self, n):
        self.push()
        b = self.stmts(n)
        self.pop()
        return b

    def s_if(self):
        c = self.e_cond()
        return ("if", c, self.block(self.rng.randrange(1, 3)), self.block(self.rng.randrange(0, 2)))

    def s_while(self):
        """`let i = 0; let fs = []; while i < K { let j = i; fs.push(|| ..j..); i = i + 1; }` and friends."""
        self.features.add("while")
        self.nloops += 1
        i = "i%d" % self.nloops     # loop counters are never shadowed
        di = self.fd()
        out = [("let", di, i, ("lit", 0))]
        self.declare(Var(i, INT, readonly=True))
        lst = None
        optlist = self.opt and self.rng.random() < 0.3
        if optlist or self.rng.random() < 0.7:
            lst = self.fresh_name(LISTN_NAMES if optlist else LIST_NAMES)
            dl = self.fd()
            out.append(("let", dl, lst, ("op", "list", [])))
            self.declare(Var(lst, LFN if optlist else LF))
        k = self.rng.randrange(1, 4)
        cond = ("op", "lt", [("var", self.fo(), i), ("lit", k)])
        self.push()
        body = self.stmts(self.rng.randrange(0, 3))
        if optlist:
            # `let x; us.push(|| x); if i == j { x = e; }`: every iteration has its own variable, nil at first
            self.features.add("closures-over-let-no-init-in-while-body")
            body.append(self.s_let_nil())
            v = self.scopes[-1][-1]
            if self.rng.random() < 0.4:
                body.append(self.s_print_opt(v))
            body.append(("op", "exprS", [("op", "push", [("var", self.fo(), lst), self.lam_ret_opt(v)])]))
            if self.rng.random() < 0.7:
                c = ("op", "eq", [("var", self.fo(), i), ("lit", self.rng.randrange(0, k))])
                body.append(("if", c, [("op", "exprS", [("assign", self.fo(), v.name, self.e_int())])], []))
            body += self.stmts(self.rng.randrange(0, 2))
        elif lst is not None:
            self.features.add("closures-in-while-body")
            if self.rng.random() < 0.7:
                body.append(self.s_let_int())
            body.append(("op", "exprS", [("op", "push", [("var", self.fo(), lst), self.lam(F0)])]))
            body += self.stmts(self.rng.randrange(0, 2))
        body.append(("op", "exprS", [("assign", self.fo(), i, ("op", "add", [("var", self.fo(), i), ("lit", 1)]))]))
        self.pop()
        out.append(("while", cond, body))
        return out

    def s_for(self):
        r = self.rng.random()
        lfs = self.visible(LF)
        if r < 0.4 and lfs and self.fdepth() == 0:
            # call every stored closure (never from inside a function: a stored closure could reach itself)
            self.features.add("call-stored-closures")
            lst = self.rng.choice(lfs)
            g = self.fresh_name(FUN_NAMES)
            self.hidden.add(g)
            it = self.var(lst)
            self.hidden.discard(g)
            dIter, d = self.fd(), self.fd()
            self.push()
            self.declare(Var(g, F0, readonly=True))
            self.push()
            body = [("op", "exprS", [("op", "call", [("var", self.fo(), "print"), ("op", "call", [("var", self.fo(), g)])])])]
            body += self.stmts(self.rng.randrange(0, 2))
            self.pop()
            self.pop()
            return [("for", dIter, d, g, it, body)]
        self.features.add("for")
        # the item may take the name of a visible integer variable (any scope: the loop opens its own); the iterable is
        # evaluated outside the item's scope, so there that name still means the outer variable
        outer = [v for v in self.visible(INT) if not re.fullmatch(r"i\d+", v.name)]
        shadowed = self.rng.choice(outer) if outer and self.rng.random() < 0.45 else None
        x = shadowed.name if shadowed else self.fresh_name(INT_NAMES + ["x", "y"])
        items = []
        for _ in range(self.rng.randrange(1, 4)):
            k = self.rng.random()
            if shadowed and k < 0.35:
                self.features.add("for-iterable-reads-outer-var-named-like-item")
                items.append(self.var(shadowed))
            elif k < 0.6 and self.fdepth() < self.max_depth and self.spend(2):
                # a function literal in the iterable, called at once; it may capture the outer variable of the item's name
                if shadowed and self.rng.random() < 0.7:
                    self.features.add("for-iterable-closure-captures-outer-var-named-like-item")
                    items.append(("op", "call", [self.lam_ret_var(shadowed)]))
                else:
                    self.features.add("for-iterable-closure")
                    items.append(("op", "call", [self.lam(F0)]))
            else:
                items.append(self.e_int_nolam())
        out = []
        lst = None
        if self.rng.random() < 0.6 and self.fdepth() < self.max_depth:
            lst = self.fresh_name(LIST_NAMES)
            dl = self.fd()
            out.append(("let", dl, lst, ("op", "list", [])))
            self.declare(Var(lst, LF))
        dIter, d = self.fd(), self.fd()
        self.push()
        self.declare(Var(x, INT, readonly=self.rng.random() < 0.5))
        self.push()
        body = self.stmts(self.rng.randrange(0, 3))
        if lst is not None:
            self.features.add("closures-in-for-body")
            body.append(("op", "exprS", [("op", "push", [("var", self.fo(), lst), self.lam(F0)])]))
        self.pop()
        self.pop()
        out.append(("for", dIter, d, x, ("op", "list", items), body))
        return out

    def lam_ret_var(self, v):
        """`|| { <stmts> return v; }` — a closure whose body reads (and so captures) the variable `v`"""
        d0 = self.fd()
        self.funs.append(FunCtx(0, "lam"))
        self.push()
        body = self.stmts(self.rng.randrange(0, 2))
        vis = [w for w in self.visible(INT) if w.name == v.name]
        body.append(("op", "ret", [self.var(vis[0]) if vis else self.e_int()]))
        self.pop()
        self.funs.pop()
        return ("lam", d0, [], body)

    def e_int_nolam(self):
        ints = self.visible(INT)
        if ints and self.rng.random() < 0.6:
            return self.var(self.rng.choice(ints))
        return ("lit", self.rng.randrange(0, 10))

    def s_try(self):
        self.features.add("catch-var")
        self.push()
        # D33: no declaration directly in a try block that is left by `raise`
        tb = [self.s_nodecl() for _ in range(self.rng.randrange(0, 3))]
        tb.append(("op", "raise", [("op", "call", [("var", self.fo(), "Error"), ("str", str(self.rng.randrange(0, 100)))])]))
        self.pop()
        e = self.fresh_name(["e", "err", "ex"])
        d = self.fd()
        o = self.fo()
        self.push()
        self.declare(Var(e, "err"))
        self.push()
        cb = [("op", "exprS", [("op", "call", [("var", self.fo(), "print"), ("op", "getF:message", [("var", self.fo(), e)])])])]
        if self.fdepth() < self.max_depth and self.rng.random() < 0.7:
            # a closure over the catch variable, called at once (its type is not an int, so it stays local)
            self.features.add("catch-var-captured")
            d0 = self.fd()
            self.funs.append(FunCtx(0, "lam"))
            self.push()
            lb = [("op", "ret", [("op", "getF:message", [("var", self.fo(), e)])])]
            self.pop()
            self.funs.pop()
            g = self.fresh_name(FUN_NAMES)
            dg = self.fd()
            cb.append(("let", dg, g, ("lam", d0, [], lb)))
            self.declare(Var(g, "f0str"))
            cb.append(("op", "exprS", [("op", "call", [("var", self.fo(), "print"), ("op", "call", [("var", self.fo(), g)])])]))
        cb += self.stmts(self.rng.randrange(0, 2))
        self.pop()
        self.pop()
        return ("try", tb, d, e, o, "Error", cb)

    def s_class(self):
        """class with a field, `get`/`bump` methods, and a method handing out a closure over `self`;
        methods may also capture variables of the enclosing scopes."""
        self.features.add("class")
        self.nclasses += 1
        cname = self.fresh_name(["K", "P", "Q"])
        d = self.fd()
        oSup, oName, dSuper = self.fo(), self.fo(), self.fd()
        self.declare(Var(cname, "cls"))
        methods = []

        def method(kind, mname, nparams, mk_body):
            d0 = self.fd()
            self.funs.append(FunCtx(nparams, kind))
            self.push()
            self.scopes[-1].append(Var("self", "self"))
            params = []
            for _ in range(nparams):
                p = self.fresh_name(INT_NAMES)
                pd = self.fd()
                params.append((pd, p))
                self.declare(Var(p, INT))
            body = mk_body(params)
            self.pop()
            self.funs.pop()
            methods.append(("method", kind, mname, d0, params, body))

        def selfv():
            return ("var", self.fo(), "self")

        def init_body(ps):
            b = [("op", "exprS", [("op", "setF:v", [selfv(), ("var", self.fo(), ps[0][1])])])]
            if self.rng.random() < 0.4:
                # a closure over `self` inside the initialiser itself (self is then a boxed parameter of init, and init
                # must still answer the instance: the shape of the repaired findings D27c / D32)
                self.features.add("self-captured-in-init")
                kn = self.fresh_name(FUN_NAMES)
                dk = self.fd()
                d0 = self.fd()
                self.funs.append(FunCtx(0, "lam"))
                self.push()
                lb = [("op", "ret", [("op", "getF:v", [selfv()])])]
                self.pop()
                self.funs.pop()
                b.append(("let", dk, kn, ("lam", d0, [], lb)))
                self.declare(Var(kn, F0))
                b.append(("op", "exprS", [("op", "call", [("var", self.fo(), "print"), ("op", "call", [("var", self.fo(), kn)])])]))
            return b
        method("init", "init", 1, init_body)
        method("method", "get", 0, lambda ps: self.stmts(self.rng.randrange(0, 2)) + [("op", "ret", [("op", "getF:v", [selfv()])])])

        def bump_body(ps):
            b = self.stmts(self.rng.randrange(0, 2))
            b.append(("op", "exprS", [("op", "setF:v", [selfv(), ("op", "add", [("op", "getF:v", [selfv()]), self.e_int(1)])])]))
            return b
        method("method", "bump", 0, bump_body)

        def getter_body(ps):
            # closure over self (self is then a boxed parameter: `Box 0`)
            self.features.add("self-captured")
            d0 = self.fd()
            self.funs.append(FunCtx(0, "lam"))
            self.push()
            lb = [("op", "ret", [("op", "getF:v", [selfv()])])]
            self.pop()
            self.funs.pop()
            return [("op", "ret", [("lam", d0, [], lb)])]
        method("method", "getter", 0, getter_body)
        out = [("class", d, cname, oSup, "Object", oName, dSuper, methods)]
        # use it
        ob = self.fresh_name(["p", "q", "r"])
        do = self.fd()
        self.hidden.add(ob)
        out.append(("let", do, ob, ("op", "call", [("var", self.fo(), cname), self.e_int(1)])))
        self.hidden.discard(ob)
        self.declare(Var(ob, OBJ))
        g = self.fresh_name(FUN_NAMES)
        dg = self.fd()
        out.append(("let", dg, g, ("op", "invoke:getter", [("var", self.fo(), ob)])))
        self.declare(Var(g, F0))
        out.append(("op", "exprS", [("op", "invoke:bump", [("var", self.fo(), ob)])]))
        out.append(("op", "exprS", [("op", "call", [("var", self.fo(), "print"), ("op", "call", [("var", self.fo(), g)])])]))
        return out

    # -- whole program ---------------------------------------------------------------------------
    def program(self):
        body = []
        n = self.rng.randrange(3, 9)
        body += self.stmts(n)
        # observe everything that is still visible at the end
        for v in self.visible(INT):
            body.append(("op", "exprS", [("op", "call", [("var", self.fo(), "print"), self.var(v)])]))
        for v in self.visible(OPT):
            body.append(self.s_print_opt(v))
        for v in self.visible(F0) + self.visible(F0N):
            body.append(("op", "exprS", [("op", "call", [("var", self.fo(), "print"), ("op", "call", [self.var(v)])])]))
        for v in self.visible(LF) + self.visible(LFN):
            g = self.fresh_name(FUN_NAMES)
            dIter, d = self.fd(), self.fd()
            body.append(("for", dIter, d, g, self.var(v),
                         [("op", "exprS", [("op", "call", [("var", self.fo(), "print"), ("op", "call", [("var", self.fo(), g)])])])]))
        return body


# ---------------------------------------------------------------------------------------------
# renderers


def sexp(n):
    if isinstance(n, list):
        return "(b" + "".join(" " + sexp(x) for x in n) + ")"
    t = n[0]
    if t == "lit":
        return "(lit %d)" % n[1]
    if t == "str":
        return "(str %s)" % n[1]
    if t == "nil":
        return "(nil)"
    if t == "letn":
        return "(letn %d %s)" % (n[1], n[2])
    if t == "var":
        return "(var %d %s)" % (n[1], n[2])
    if t == "assign":
        return "(assign %d %s %s)" % (n[1], n[2], sexp(n[3]))
    if t == "op":
        return "(op %s%s)" % (n[1], "".join(" " + sexp(a) for a in n[2]))
    if t == "lam":
        return "(lam %d %s %s)" % (n[1], params_sexp(n[2]), sexp(n[3]))
    if t == "let":
        return "(let %d %s %s)" % (n[1], n[2], sexp(n[3]))
    if t == "fn":
        return "(fn %d %s %d %s %s)" % (n[1], n[2], n[3], params_sexp(n[4]), sexp(n[5]))
    if t == "if":
        return "(if %s %s %s)" % (sexp(n[1]), sexp(n[2]), sexp(n[3]))
    if t == "while":
        return "(while %s %s)" % (sexp(n[1]), sexp(n[2]))
    if t == "for":
        return "(for %d %d %s %s %s)" % (n[1], n[2], n[3], sexp(n[4]), sexp(n[5]))
    if t == "try":
        return "(try %s %d %s %d %s %s)" % (sexp(n[1]), n[2], n[3], n[4], n[5], sexp(n[6]))
    if t == "class":
        return "(class %d %s %d %s %d %d %s)" % (n[1], n[2], n[3], n[4], n[5], n[6], sexp(n[7]))
    if t == "method":
        return "(method %s %s %d %s %s)" % (n[1], n[2], n[3], params_sexp(n[4]), sexp(n[5]))
    raise ValueError(t)


def params_sexp(ps):
    return "(params" + "".join(" (%d %s)" % (d, x) for d, x in ps) + ")"


def src_block(stmts, ind):
    return "{\n" + "".join(src_stmt(s, ind + 1) for s in stmts) + "  " * ind + "}"


def src_expr(n, ind=0):
    t = n[0]
    if t == "lit":
        return str(n[1]) if n[1] >= 0 else "(0 - %d)" % -n[1]
    if t == "str":
        return '"%s"' % n[1]
    if t == "nil":
        return "nil"
    if t == "var":
        return n[2]
    if t == "assign":
        return "(%s = %s)" % (n[2], src_expr(n[3], ind))
    if t == "lam":
        return "|%s| %s" % (", ".join(x for _, x in n[2]), src_block(n[3], ind))
    if t == "op":
        k, a = n[1], n[2]
        if k in ("add", "sub", "mul", "lt", "eq"):
            sym = {"add": "+", "sub": "-", "mul": "*", "lt": "<", "eq": "=="}[k]
            return "(%s %s %s)" % (src_expr(a[0], ind), sym, src_expr(a[1], ind))
        if k == "not":
            return "(!%s)" % src_expr(a[0], ind)
        if k == "call":
            f = src_expr(a[0], ind)
            if a[0][0] == "lam":
                f = "(" + f + ")"
            return "%s(%s)" % (f, ", ".join(src_expr(x, ind) for x in a[1:]))
        if k == "list":
            return "[%s]" % ", ".join(src_expr(x, ind) for x in a)
        if k == "index":
            return "%s[%s]" % (src_expr(a[0], ind), src_expr(a[1], ind))
        if k == "push":
            return "%s.push(%s)" % (src_expr(a[0], ind), src_expr(a[1], ind))
        if k == "len":
            return "%s.len()" % src_expr(a[0], ind)
        if k.startswith("getF:"):
            return "%s.%s" % (src_expr(a[0], ind), k[5:])
        if k.startswith("setF:"):
            return "%s.%s = %s" % (src_expr(a[0], ind), k[5:], src_expr(a[1], ind))
        if k.startswith("invoke:"):
            return "%s.%s(%s)" % (src_expr(a[0], ind), k[7:], ", ".join(src_expr(x, ind) for x in a[1:]))
    raise ValueError(n)


def src_stmt(n, ind):
    p = "  " * ind
    t = n[0]
    if t == "op" and n[1] == "exprS":
        e = n[2][0]
        s = src_expr(e, ind)
        if e[0] == "assign":
            s = s[1:-1]
        return p + s + ";\n"
    if t == "op" and n[1] == "ret":
        return p + "return %s;\n" % src_expr(n[2][0], ind) if n[2] else p + "return;\n"
    if t == "op" and n[1] == "raise":
        return p + "raise %s;\n" % src_expr(n[2][0], ind)
    if t == "let":
        return p + "let %s = %s;\n" % (n[2], src_expr(n[3], ind))
    if t == "letn":
        return p + "let %s;\n" % n[2]
    if t == "fn":
        return p + "fn %s(%s) %s\n" % (n[2], ", ".join(x for _, x in n[4]), src_block(n[5], ind))
    if t == "if":
        return p + "if %s %s else %s\n" % (src_expr(n[1], ind), src_block(n[2], ind), src_block(n[3], ind))
    if t == "while":
        return p + "while %s %s\n" % (src_expr(n[1], ind), src_block(n[2], ind))
    if t == "for":
        return p + "for %s in %s %s\n" % (n[3], src_expr(n[4], ind), src_block(n[5], ind))
    if t == "try":
        return p + "try %s catch %s: %s %s\n" % (src_block(n[1], ind), n[3], n[5], src_block(n[6], ind))
    if t == "class":
        sup = "" if n[4] == "Object" else " : " + n[4]
        return p + "class %s%s {\n%s%s}\n" % (n[2], sup, "".join(src_stmt(m, ind + 1) for m in n[7]), p)
    if t == "method":
        pre = "static " if n[1] == "static" else ""
        return p + "%s%s(%s) %s\n" % (pre, n[2], ", ".join(x for _, x in n[4]), src_block(n[5], ind))
    return p + src_expr(n, ind) + ";\n"


def source(prog):
    return "".join(src_stmt(s, 0) for s in prog)


def count_nodes(n):
    if isinstance(n, list):
        return sum(count_nodes(x) for x in n)
    if isinstance(n, tuple):
        return 1 + sum(count_nodes(x) for x in n[1:] if isinstance(x, (list, tuple)))
    return 0


def fun_depth(n, d=0):
    """maximal function nesting"""
    if isinstance(n, list):
        return max([fun_depth(x, d) for x in n] + [d])
    if isinstance(n, tuple) and n:
        inc = 1 if n[0] in ("lam", "fn", "method") else 0
        return max([fun_depth(x, d + inc) for x in n[1:] if isinstance(x, (list, tuple))] + [d + inc])
    return d


def random_program(rng, rich=True):
    g = Gen(rng, max_depth=5, size=rng.choice([15, 30, 60]), rich=rich)
    prog = g.program()
    return prog, g.features
