"""C17 — modules run once and expose exactly their exports.  DESIGN.md §5 C17.

Streams
  graphs   random multi-file programs (<= 6 modules, directories up to three levels deep, all import
           forms, diamonds, repeated imports, exported / private let, fn, class, accessor functions over
           private state, imports from packages other than `self`, one optional failing import) written
           to work/c17_<pid>/ and run with `vharness run`.  File names deliberately include the names of
           packages and library modules (`std.lay`, `io.lay`, `std/io.lay`, `math.lay`): a user module
           named like a package must stay a module of `self` (repaired finding D25-module-shadows-package).
  stdpaths every import `PKG.p` for PKG = std and p over a fixed universe of segments (all paths of <= 2
           segments, 3 below the library's nested modules) plus other package names, each next to user
           files of the same names that must never run (repaired finding DC17.1): the model's table of
           the standard library (`stdModules`) against the implementation, exhaustively.
Judgements (separately)
  implementation-vs-Spec   `spec_run` (a 70-line recursive reference: run-once flag + export map per
                           module; `self.` names files, `std.` the standard library, nothing else is a
                           package) and the stdout-only monitor `monitor` (every body marker exactly once,
                           properly nested, nothing printed by an importer while its import runs)
  model-vs-implementation  `drv_imports` (Lean `Model/Imports.lean`: cache, package map, package tree
                           walk, child fibers, rewind/retry) must print exactly what the implementation prints.
corpus/C17/*.json run first; entries with an `expect` field also pin the Spec's own answer (the witnesses of
the repaired findings D19, D25-module-shadows-package and DC17.1 are 06-08).
Known finding DC17.2 (a completing launched fiber wakes an importer that sleeps on its import, which then
sees the half-initialised module) is replayed from known_findings/DC17.2-child-completion-wakes-importer/;
generated programs launch no fibers, which is its signature.
"""
import json
import os
import random
import shutil

from .. import common

PROP = "C17"
LEVEL = "proof"
DRV = os.path.join(common.LEAN, ".lake", "build", "bin", "drv_imports")
KF_ID = "DC17.2-child-completion-wakes-importer"
KF_DIR = os.path.join(common.VERIF, "known_findings", KF_ID)

# file names: plain ones and the names of packages / library modules (`self` is a keyword, not a name)
TOP = ["a", "b", "c", "d", "u", "std", "io", "math", "std", "io"]
SUB = ["u", "a", "w", "b", "io", "std", "stdio"]
SYMS = ["x", "y", "f", "g", "C", "D", "h", "k"]
BOUNDARY_FAMILIES = [["a/bu", "ab/u"], ["a/ab", "aa/b"], ["a/b/u", "ab/u"], ["a/b/u", "a/bu"],
                     ["a/b/u", "a/bu", "ab/u"], ["std/io", "s/tdio"], ["io/u", "i/ou"]]
# what the Spec knows about the standard library: its modules (paths below `std`)
STD_MODULES = [["math"], ["io"], ["io", "stdio"], ["io", "fs"], ["env"], ["regexp"]]

# ---------------------------------------------------------------------------------------------
# graphs: {"main": [stmt...], "files": {"a/b": [stmt...]}}; a stmt is a list of words in the
# driver's line syntax (see lean/Driver/ImportsMain.lean)


def path_of(key):
    return key.split("/")


def prefixes(key):
    p = path_of(key)
    return ["/".join(p[:i]) for i in range(1, len(p) + 1)]


def pkg_path(word):
    return [] if word == "-" else word.split("/")


def static_exports(body):
    """name -> (kind, exported) for the declarations of a body (kind in let/fn/cls/acc)."""
    d = {}
    for st in body:
        if st[0] == "decl":
            d[st[3]] = (st[2], st[1] == "1")
        elif st[0] == "acc":
            d[st[2]] = ("acc", st[1] == "1")
    return d


def binding_names(st):
    if st[0] in ("decl",):
        return [st[3]]
    if st[0] == "acc":
        return [st[2]]
    if st[0] == "import":
        return [path_of(st[1])[-1]]
    if st[0] == "importas":
        return [st[2]]
    if st[0] == "importsyms":
        return [s.split(":")[-1] for s in st[2:]]
    if st[0] == "importpkg":
        return [st[3]]
    return []


def gen_graph(rng, allow_fail=True):
    nfiles = rng.randint(1, 5)
    keys = []
    tries = 0
    # round 5 (seed C17_r5): module paths that differ only in where the segment boundary falls
    # (`self.a.bu` / `self.ab.u` / `self.a.b.u`): distinct modules whatever the loader's cache key does
    # with the separators
    if rng.random() < 0.2:
        keys = list(rng.choice(BOUNDARY_FAMILIES))
        if rng.random() < 0.5:
            keys += [k for k in sorted({x.split("/")[0] for x in keys}) if rng.random() < 0.7]
        nfiles = max(nfiles, len(keys))
    while len(keys) < nfiles and tries < 50:
        tries += 1
        if keys and rng.random() < 0.5:
            parents = [k for k in keys if k.count("/") < 2]
            deep = [k for k in parents if "/" in k]
            if deep and rng.random() < 0.45:
                parents = deep
            parent = rng.choice(parents) if parents and rng.random() < 0.85 else rng.choice(TOP)
            k = parent + "/" + rng.choice(SUB)
        else:
            k = rng.choice(TOP)
        if k in keys:
            continue
        keys.append(k)
    order = keys[:]
    rng.shuffle(order)                      # order[i] may import order[j] only for j > i ...
    rank = {k: len(order) - i for i, k in enumerate(order)}
    rank[""] = len(order) + 1               # ... and main may import everything
    fileset = set(keys)
    counter = [100]
    fail_at = None
    if allow_fail and rng.random() < 0.3:
        fail_at = rng.choice([""] + keys)
    bodies = {}
    # bodies are generated leaves first so that importers know what their targets declare
    for k in sorted([""] + keys, key=lambda x: rank[x]):
        bodies[k] = gen_body(rng, k, rank, fileset, bodies, counter, fail_here=(fail_at == k))
    return {"main": bodies[""], "files": {k: bodies[k] for k in keys}}


def importable(me, rank, fileset):
    """Import paths `me` may use without creating a cycle: every prefix that is a file ranks below
    `me`, except that a module may import its own children (the prefix is `me` itself, still running)."""
    out = []
    for k in fileset:
        if k == me:
            continue
        ok = True
        for q in prefixes(k):
            if q in fileset and not (rank[q] < rank[me] or (q == me and q != k)):
                ok = False
        if ok:
            out.append(k)
    return out


def gen_body(rng, me, rank, fileset, bodies, counter, fail_here):
    tagbase = (me or "main").replace("/", "_")
    body = [["mark", "<" + tagbase]]
    used = set()
    lets = []
    objs = {}     # local name -> target key
    fobjs = []    # local names bound to modules of the standard library
    syms = {}     # local name -> kind
    ntag = [0]

    def fresh_name(pool=SYMS):
        c = [n for n in pool if n not in used]
        if not c:
            n = "n%d" % len(used)
        else:
            n = rng.choice(c)
        used.add(n)
        return n

    def tag():
        ntag[0] += 1
        return "%s%d" % (tagbase, ntag[0])

    def val():
        counter[0] += rng.randint(1, 3)
        return counter[0]

    targets = importable(me, rank, fileset)
    complete = [t for t in targets if all(q in fileset for q in prefixes(t))]
    n = rng.randint(4, 10) if me == "" else rng.randint(2, 8)
    p_import = 0.85 if me == "" else 0.80
    fail_pos = rng.randint(0, n) if fail_here else -1
    for i in range(n + 1):
        if i == fail_pos:
            body.append(gen_failing_import(rng, me, complete, fileset, bodies, used))
            continue
        if i == n:
            break
        r = rng.random()
        if r < 0.30:
            kind = rng.choice(["let", "let", "fn", "cls"])
            name = fresh_name()
            body.append(["decl", "1" if rng.random() < 0.6 else "0", kind, name, str(val())])
            syms[name] = kind
            if kind == "let":
                lets.append(name)
        elif r < 0.38 and lets:
            name = fresh_name()
            body.append(["acc", "1" if rng.random() < 0.75 else "0", name, rng.choice(lets)])
            syms[name] = "acc"
        elif r < 0.44 and lets:
            body.append(["assign", rng.choice(lets), str(val())])
        elif r < 0.52 and rng.random() < 0.6:
            # a module of the standard library — whatever user files are called
            path = rng.choice([[]] + STD_MODULES * 2)
            last = path[-1] if path else "std"
            if last not in used and rng.random() < 0.5:
                local = last
                used.add(last)
            else:
                local = fresh_name(["p1", "p2", "p3", "p4", "p5", "p6"])
            body.append(["importpkg", "std", "/".join(path) or "-", local])
            fobjs.append(local)
            for _ in range(rng.randint(0, 2)):
                body.append(["show", tag(), "field", local, rng.choice(SYMS + ["zz"])])
        elif r < p_import and complete:
            t = rng.choice(complete)
            tdecl = static_exports(bodies[t])
            form = rng.random()
            last = path_of(t)[-1]
            if form < 0.35 and last not in used:
                used.add(last)
                body.append(["import", t])
                objs[last] = t
                local = last
            elif form < 0.65 or not [x for x, (_, e) in tdecl.items() if e]:
                local = fresh_name(["m1", "m2", "m3", "m4", "q1", "q2", "q3", "q4", "q5"])
                body.append(["importas", t, local])
                objs[local] = t
            else:
                exported = [x for x, (_, e) in tdecl.items() if e]
                rng.shuffle(exported)
                pick = exported[:rng.randint(1, min(3, len(exported)))]
                words = []
                for x in pick:
                    if x in used or rng.random() < 0.3:
                        ln = fresh_name(["s1", "s2", "s3", "s4", "s5", "s6", "s7", "s8", "s9"])
                        words.append("%s:%s" % (x, ln))
                    else:
                        used.add(x)
                        ln = x
                        words.append(x)
                    syms[ln] = tdecl[x][0]
                body.append(["importsyms", t] + words)
                for w in words:
                    if rng.random() < 0.8:
                        body.append(["show", tag(), "sym", w.split(":")[-1]])
                continue
            # look at the fresh module object: exported, private, imported-by-the-target and bogus names
            tb = bodies[t]
            cands = ([x for x, (_, e) in tdecl.items() if e] * 3 + list(tdecl.keys())
                     + [b for st in tb for b in binding_names(st) if st[0].startswith("import")] + ["zz"])
            for _ in range(rng.randint(1, 3)):
                body.append(["show", tag(), "field", local, rng.choice(cands)])
        else:
            # use something already bound
            if fobjs and rng.random() < 0.2:
                body.append(["show", tag(), "field", rng.choice(fobjs), rng.choice(SYMS + ["zz"])])
            elif objs and rng.random() < 0.6:
                o = rng.choice(sorted(objs))
                tdecl = static_exports(bodies[objs[o]])
                cands = [x for x, (_, e) in tdecl.items() if e] * 3 + list(tdecl.keys()) + ["zz"]
                body.append(["show", tag(), "field", o, rng.choice(cands)])
            elif syms:
                body.append(["show", tag(), "sym", rng.choice(sorted(syms))])
            else:
                body.append(["mark", tag()])
    body.append(["mark", ">" + tagbase])
    return body


def gen_failing_import(rng, me, complete, fileset, bodies, used):
    r = rng.random()
    if r < 0.35:
        # packages other than `self`: a module the library does not have (also when a user file of that
        # name exists), or a package that does not exist (also when it is the name of a user module)
        users = sorted(fileset)
        c = rng.random()
        if c < 0.3:
            pkg, path = "std", rng.choice(["nope", "io/nope", "std", "io/io", "math/x", "stdio", "fs"])
        elif c < 0.55 and users:
            pkg, path = "std", rng.choice(users)                 # `std.a.u` next to a/u.lay
        elif c < 0.85 and users:
            k = path_of(rng.choice(users))                       # `a.u` / `a` for the user module a/u.lay / a.lay
            pkg, path = k[0], "/".join(k[1:]) or "-"
        else:
            pkg, path = rng.choice(["nope", "lib", "stdio", "Self"]), rng.choice(["-", "x", "io"])
        return ["importpkg", pkg, path, "zq"]
    if r < 0.60 or not complete:
        # a module that does not exist: top level, or below an existing / a missing parent
        tops = [k for k in fileset if "/" not in k and k != me and k in complete]
        if tops and rng.random() < 0.5:
            t = rng.choice(tops) + "/nope"
        elif rng.random() < 0.5:
            t = "nope"
        else:
            t = "ghost/x"
        form = rng.random()
        if form < 0.4:
            return ["import", t]
        if form < 0.7:
            return ["importas", t, "zq"]
        return ["importsyms", t, "x"]
    t = rng.choice(complete)
    tdecl = static_exports(bodies[t])
    private = [x for x, (_, e) in tdecl.items() if not e]
    name = rng.choice(private) if private and rng.random() < 0.7 else "zz"
    return ["importsyms", t, "%s:zq" % name]


# ---------------------------------------------------------------------------------------------
# well-formedness (what the generator promises; re-checked after shrinking)


def wf(graph):
    keys = set(graph["files"])
    for k, body in [("", graph["main"])] + list(graph["files"].items()):
        declared = set()
        lets = set()
        for st in body:
            for b in binding_names(st):
                if b in declared:
                    return False
                declared.add(b)
            if st[0] == "decl" and st[2] == "let":
                lets.add(st[3])
            if st[0] == "importpkg" and (st[1] == "self" or len(st) != 4):
                return False
            if st[0] == "importsyms" and len(st) < 3:
                return False
            if st[0] == "acc" and st[3] not in lets:
                return False
            if st[0] == "assign" and st[1] not in lets:
                return False
            if st[0] == "show":
                if st[3] not in declared:
                    return False
    return True


# ---------------------------------------------------------------------------------------------
# Spec: module graph with a run-once flag and an export map (no fibers, cache or package tree)


class SpecStop(Exception):
    pass


def spec_run(graph):
    """Returns (status, out).  status: 'done' | 'error:ImportError:<msg>'."""
    ran = {}      # key -> {"syms": {name: value}, "exports": [names]}   (present = body started)
    out = []

    def show(tag, v):
        if v[0] == "const":
            out.append("%s=%d" % (tag, v[2]))
        elif v[0] == "acc":
            m = ran[v[1]]
            cur = m["syms"][v[2]]
            m["syms"][v[2]] = ("const", "let", cur[2] + 1)
            out.append("%s=%d" % (tag, cur[2] + 1))
        elif v[0] == "obj":
            out.append("%s=<%s>" % (tag, v[1]))

    def ensure(key):
        for q in prefixes(key):
            if q not in ran:
                if q not in graph["files"]:
                    raise SpecStop("error:ImportError:Module %s not found" % ".".join(["self"] + path_of(key)))
                run_body(q, graph["files"][q])
        return ran[key]

    def run_body(key, body):
        me = {"syms": {}, "exports": []}
        ran[key] = me
        for st in body:
            op = st[0]
            if op == "mark":
                out.append(st[1])
            elif op == "decl":
                me["syms"][st[3]] = ("const", st[2], int(st[4]))
                if st[1] == "1":
                    me["exports"].append(st[3])
            elif op == "acc":
                me["syms"][st[2]] = ("acc", key, st[3])
                if st[1] == "1":
                    me["exports"].append(st[2])
            elif op == "assign":
                me["syms"][st[1]] = ("const", "let", int(st[2]))
            elif op in ("import", "importas"):
                m = ensure(st[1])
                name = st[2] if op == "importas" else path_of(st[1])[-1]
                me["syms"][name] = ("obj", path_of(st[1])[-1], {e: m["syms"][e] for e in m["exports"]})
            elif op == "importsyms":
                for w in st[2:]:
                    m = ensure(st[1])
                    sym = w.split(":")[0]
                    if sym not in m["exports"]:
                        raise SpecStop("error:ImportError:Symbol %s not exported from module %s" % (sym, path_of(st[1])[-1]))
                    me["syms"][w.split(":")[-1]] = m["syms"][sym]
            elif op == "importpkg":
                # `std` is the standard library, no other package than `std` and `self` exists
                path = pkg_path(st[2])
                if st[1] == "std" and (path == [] or path in STD_MODULES):
                    me["syms"][st[3]] = ("obj", path[-1] if path else "std", {})
                else:
                    raise SpecStop("error:ImportError:Module %s not found" % ".".join([st[1]] + path))
            elif op == "show":
                if st[2] == "sym":
                    show(st[1], me["syms"][st[3]])
                else:
                    o = me["syms"][st[3]]
                    if o[0] == "obj" and st[4] in o[2]:
                        show(st[1], o[2][st[4]])
                    else:
                        out.append("%s=!" % st[1])

    try:
        run_body("", graph["main"])
    except SpecStop as e:
        return str(e), out
    return "done", out


def monitor(graph, lines):
    """Checks that need nothing but stdout: every body marker at most once, begin/end properly
    nested, and every other line printed by the module that is innermost-open at that moment."""
    tags = {(k or "main").replace("/", "_") for k in [""] + list(graph["files"])}
    seen_open, seen_close, stack = set(), set(), []
    for ln in lines:
        if ln.startswith("<") and ln[1:] in tags:
            t = ln[1:]
            if t in seen_open:
                return "body of %s ran more than once" % t
            seen_open.add(t)
            stack.append(t)
        elif ln.startswith(">") and ln[1:] in tags:
            t = ln[1:]
            if not stack or stack[-1] != t:
                return "body of %s ended while %s was running" % (t, stack[-1] if stack else "nothing")
            if t in seen_close:
                return "body of %s completed twice" % t
            seen_close.add(t)
            stack.pop()
        else:
            owner = ln.split("=")[0].rstrip("0123456789")
            if owner in tags and (not stack or stack[-1] != owner):
                return "%s printed %r while %s was the running module (importer continued before the import finished)" % (
                    owner, ln, stack[-1] if stack else "nothing")
    return None


# ---------------------------------------------------------------------------------------------
# rendering


def kinds_in_scope(graph):
    """Static kind of every (module, local name) and (module, object name) -> target key."""
    info = {}
    order = []

    def visit(k, seen):
        if k in info or k in seen:
            return
        body = graph["main"] if k == "" else graph["files"].get(k)
        if body is None:
            return
        for st in body:
            if st[0] in ("import", "importas", "importsyms"):
                for q in prefixes(st[1]):
                    visit(q, seen | {k})
        syms, objs = {}, {}
        for st in body:
            if st[0] == "decl":
                syms[st[3]] = st[2]
            elif st[0] == "acc":
                syms[st[2]] = "acc"
            elif st[0] == "import":
                objs[path_of(st[1])[-1]] = st[1]
            elif st[0] == "importas":
                objs[st[2]] = st[1]
            elif st[0] == "importsyms":
                t = info.get(st[1])
                for w in st[2:]:
                    syms[w.split(":")[-1]] = (t["syms"].get(w.split(":")[0], "let") if t else "let")
        info[k] = {"syms": syms, "objs": objs}
        order.append(k)

    for k in [""] + list(graph["files"]):
        visit(k, set())
    return info


def call_of(expr, kind):
    if kind in ("fn", "acc"):
        return expr + "()"
    if kind == "cls":
        return expr + "().v()"
    return expr


def render_body(graph, key, info):
    me = info.get(key, {"syms": {}, "objs": {}})
    body = graph["main"] if key == "" else graph["files"][key]
    out = []
    for st in body:
        op = st[0]
        if op == "mark":
            out.append('print("%s");' % st[1])
        elif op == "decl":
            ex = "export " if st[1] == "1" else ""
            if st[2] == "let":
                out.append("%slet %s = %s;" % (ex, st[3], st[4]))
            elif st[2] == "fn":
                out.append("%sfn %s() { return %s; }" % (ex, st[3], st[4]))
            else:
                out.append("%sclass %s { v() { return %s; } }" % (ex, st[3], st[4]))
        elif op == "acc":
            ex = "export " if st[1] == "1" else ""
            out.append("%sfn %s() { %s = %s + 1; return %s; }" % (ex, st[2], st[3], st[3], st[3]))
        elif op == "assign":
            out.append("%s = %s;" % (st[1], st[2]))
        elif op == "import":
            out.append("import self.%s;" % ".".join(path_of(st[1])))
        elif op == "importas":
            out.append("import self.%s as %s;" % (".".join(path_of(st[1])), st[2]))
        elif op == "importsyms":
            items = []
            for w in st[2:]:
                a = w.split(":")
                items.append(a[0] if len(a) == 1 else "%s as %s" % (a[0], a[1]))
            out.append("import self.%s: {%s};" % (".".join(path_of(st[1])), ", ".join(items)))
        elif op == "importpkg":
            segs = [st[1]] + pkg_path(st[2])
            out.append("import %s%s;" % (".".join(segs), "" if segs[-1] == st[3] else " as " + st[3]))
        elif op == "show":
            if st[2] == "sym":
                kind = me["syms"].get(st[3], "let")
                out.append('print("%s=${%s}");' % (st[1], call_of(st[3], kind)))
            else:
                t = info.get(me["objs"].get(st[3]))
                kind = None
                if t is not None:
                    tk = me["objs"][st[3]]
                    decl = static_exports(graph["files"].get(tk, []))
                    if st[4] in decl and decl[st[4]][1]:
                        kind = decl[st[4]][0]
                e = call_of("%s.%s" % (st[3], st[4]), kind) if kind else "%s.%s" % (st[3], st[4])
                out.append('try { print("%s=${%s}"); } catch e: Error { print("%s=!"); }' % (st[1], e, st[1]))
    return "\n".join(out) + "\n"


def write_case(graph, d):
    if os.path.isdir(d):
        shutil.rmtree(d)
    os.makedirs(d)
    info = kinds_in_scope(graph)
    open(os.path.join(d, "main.lay"), "w").write(render_body(graph, "", info))
    for k in graph["files"]:
        p = os.path.join(d, *path_of(k)) + ".lay"
        os.makedirs(os.path.dirname(p), exist_ok=True)
        open(p, "w").write(render_body(graph, k, info))
    return os.path.join(d, "main.lay")


def driver_lines(graph):
    ls = ["main"] + [" ".join(st) for st in graph["main"]]
    for k, body in graph["files"].items():
        ls.append("file " + k)
        ls += [" ".join(st) for st in body]
    ls.append("run")
    return ls


def model_run(graphs):
    lines = [l for g in graphs for l in driver_lines(g)]
    rc, out, err = common.run_lines([DRV], lines, timeout=1200)
    res = []
    for o in out:
        parts = o.split("|")
        if len(parts) < 2:
            res.append({"status": o, "out": [], "raw": o})
            continue
        res.append({"status": parts[0], "out": [x for x in parts[1].split(";") if x], "raw": o})
    while len(res) < len(graphs):
        res.append({"status": "<missing rc=%s %s>" % (rc, (err or "")[-200:]), "out": [], "raw": ""})
    return res


def impl_view(rec):
    """Canonical (status, out) of one harness record, in the model's vocabulary."""
    st = rec.get("status", "?")
    out = [l for l in rec.get("stdout", "").split("\n") if l != ""]
    if st == "Ok:0":
        return "done", out
    if st == "RuntimeError:1":
        err = rec.get("stderr", "")
        msg = ""
        for ln in err.split("\n"):
            if ln.startswith("ImportError: "):
                msg = ln[len("ImportError: "):]
                msg = msg.split(" in directory")[0]
                return "error:ImportError:" + msg, out
        last = [l for l in err.split("\n") if l.strip()]
        return "error:" + (last[-1] if last else "?"), out
    if st.startswith("PANIC"):
        return "panic:" + st[6:], out
    return st, out


def judge(graph, rec, model):
    """Returns (kind, message) of the first failed judgement or None."""
    ist, iout = impl_view(rec)
    sst, sout = spec_run(graph)
    mon = monitor(graph, iout)
    if mon:
        return "spec", mon
    if (ist, iout) != (sst, sout):
        k = next((i for i in range(min(len(iout), len(sout))) if iout[i] != sout[i]), min(len(iout), len(sout)))
        return "spec", "implementation differs from the run-once/export-map reference at output line %d: impl %r / spec %r; status impl %r / spec %r" % (
            k, iout[k:k + 1], sout[k:k + 1], ist, sst)
    if (model["status"], model["out"]) != (ist, iout):
        return "tie", "model %r %r vs implementation %r %r" % (model["status"], model["out"][-3:], ist, iout[-3:])
    return None


def shrink(graph, fails):
    """Greedy delta debugging on statements and files; candidates must stay well formed."""
    cur = json.loads(json.dumps(graph))
    changed = True
    while changed:
        changed = False
        for k in list(cur["files"]):
            cand = json.loads(json.dumps(cur))
            del cand["files"][k]
            if wf(cand) and fails(cand):
                cur = cand
                changed = True
        for k in [""] + list(cur["files"]):
            i = 0
            while True:
                body = cur["main"] if k == "" else cur["files"][k]
                if i >= len(body):
                    break
                if body[i][0] == "mark" and body[i][1][:1] in "<>":
                    i += 1          # body markers stay: the monitor needs them
                    continue
                cand = json.loads(json.dumps(cur))
                b2 = cand["main"] if k == "" else cand["files"][k]
                del b2[i]
                if wf(cand) and fails(cand):
                    cur = cand
                    changed = True
                else:
                    i += 1
    return cur


def run_graphs(graphs, workdir, base=0):
    mains = [write_case(g, os.path.join(workdir, "g%d" % (base + i))) for i, g in enumerate(graphs)]
    recs = common.run_batch(mains)
    models = model_run(graphs)
    return recs, models


def run_one(graph, workdir):
    recs, models = run_graphs([graph], workdir, base=10 ** 6)
    return recs[0], models[0]


def payload(graph, rec, model, kind, msg, seed, workdir):
    info = kinds_in_scope(graph)
    files = {"main.lay": render_body(graph, "", info)}
    for k in graph["files"]:
        files[k + ".lay"] = render_body(graph, k, info)
    sst, sout = spec_run(graph)
    return {"engine": "imports", "kind": "implementation-vs-spec" if kind == "spec" else "model-vs-implementation",
            "what": msg, "seed": seed, "graph": graph, "files": files, "driver_lines": driver_lines(graph),
            "impl": {"status": rec.get("status"), "stdout": rec.get("stdout"), "stderr": rec.get("stderr", "")[-600:]},
            "model": model.get("raw"), "spec": {"status": sst, "out": sout},
            "replay": "./check C17 --replay <this file>"}


def load_corpus(ctx):
    """corpus/C17/*.json, run first.  An entry with `expect` pins what the Spec itself must answer, so
    that a regression input of a repaired finding cannot be blessed by a change of the reference."""
    graphs = []
    corpus = os.path.join(common.VERIF, "corpus", "C17")
    if os.path.isdir(corpus):
        for f in sorted(os.listdir(corpus)):
            if not f.endswith(".json"):
                continue
            item = json.load(open(os.path.join(corpus, f)))
            graphs.append(item["graph"])
            if "expect" in item:
                sst, sout = spec_run(item["graph"])
                if [sst, sout] != [item["expect"]["status"], item["expect"]["out"]]:
                    ctx.violation("corpus_expect", {"kind": "implementation-vs-spec", "broken": "corpus/C17/%s: the reference "
                                  "`spec_run` no longer gives the recorded expected result" % f,
                                  "expect": item["expect"], "spec": [sst, sout]}, no_input=True)
    return graphs


def std_path_graphs():
    """Every import from a package other than `self` over a small universe, next to user files that carry
    the same names (and must never run): the library's module table, exhaustively."""
    segs = ["io", "stdio", "fs", "math", "env", "regexp", "std", "global", "time", "nope", "a"]
    paths = [[]] + [[x] for x in segs] + [[x, y] for x in segs for y in segs]
    paths += [["io", m, y] for m in ("stdio", "fs") for y in segs]
    cases = [("std", p) for p in paths]
    cases += [(pkg, p) for pkg in ("io", "math", "a", "nope", "stdio", "global", "Self", "selfx")
              for p in ([], ["io"], ["a"], ["io", "stdio"])]
    users = ["std", "io", "math", "a", "nope", "time", "global", "io/nope", "io/a", "io/stdio", "std/io", "a/io", "io/stdio/a"]
    graphs = []
    for n, (pkg, path) in enumerate(cases):
        files = {}
        for i, k in enumerate(users):
            t = k.replace("/", "_")
            files[k] = [["mark", "<" + t], ["decl", "1", "let", "q", str(200 + i)], ["mark", ">" + t]]
        main = [["mark", "<main"], ["importpkg", pkg, "/".join(path) or "-", "m"], ["show", "main1", "field", "m", "q"]]
        if n % 3 == 0:      # the user modules of those names are loaded first / afterwards as well
            main[1:1] = [["importas", "io", "q1"], ["importas", "std/io", "q2"], ["importas", "a", "q3"]]
        elif n % 3 == 1:
            main += [["importas", "std", "q1"], ["show", "main2", "field", "q1", "q"], ["importas", "io/stdio", "q2"]]
        main.append(["mark", ">main"])
        graphs.append({"main": main, "files": files})
    return graphs


def stream_graphs(ctx, n, workdir, label="graphs", seed_mul=7919, search=False, fixed_graphs=None):
    rng = random.Random(ctx.seed * seed_mul + 17)
    graphs = []
    if fixed_graphs is not None:
        graphs = list(fixed_graphs)
    elif not search:
        graphs = load_corpus(ctx)
    ncorpus = len(graphs)
    while fixed_graphs is None and len(graphs) < n + ncorpus:
        g = gen_graph(rng)
        if not wf(g):
            ctx.stream_stat(label, generator_rejects=1)
            continue
        graphs.append(g)
    stats = {"graphs": 0, "modules_run": 0, "import_stmts": 0, "whole": 0, "renamed": 0, "selected": 0, "nested_paths": 0,
             "repeat_imports": 0, "diamonds": 0, "private_field_probes": 0, "import_errors_missing_module": 0,
             "import_errors_not_exported": 0, "accessor_decls": 0, "values_shown": 0, "same_last_segment": 0,
             "deep_paths": 0, "package_imports": 0, "package_import_errors": 0, "files_named_like_packages": 0,
             "graphs_with_file_named_like_package_and_std_import": 0}
    first = None
    CH = 400
    for off in range(0, len(graphs), CH):
        chunk = graphs[off:off + CH]
        recs, models = run_graphs(chunk, workdir, base=0)
        for g, rec, model in zip(chunk, recs, models):
            sst, sout = spec_run(g)
            stats["graphs"] += 1
            stats["modules_run"] += sum(1 for l in sout if l.startswith("<"))
            targets = []
            for k, body in [("", g["main"])] + list(g["files"].items()):
                for st in body:
                    if st[0] in ("import", "importas", "importsyms"):
                        stats["import_stmts"] += 1
                        stats[{"import": "whole", "importas": "renamed", "importsyms": "selected"}[st[0]]] += 1
                        stats["nested_paths"] += "/" in st[1]
                        targets.append((k, st[1]))
                        stats["deep_paths"] += st[1].count("/") >= 2
                    if st[0] == "importpkg":
                        stats["package_imports"] += 1
            stats["repeat_imports"] += len(targets) - len(set(targets))
            imps = {}
            for k, t in set(targets):
                imps.setdefault(t, set()).add(k)
            stats["diamonds"] += any(len(v) > 1 for v in imps.values())
            stats["private_field_probes"] += sum(1 for l in sout if l.endswith("=!"))
            stats["import_errors_missing_module"] += "not found" in sst and "Module self." in sst
            stats["package_import_errors"] += "not found" in sst and "Module self." not in sst
            named = sum(1 for k in g["files"] if set(path_of(k)) & {"std", "io", "math", "stdio"})
            stats["files_named_like_packages"] += named
            stats["graphs_with_file_named_like_package_and_std_import"] += bool(named) and any(
                st[0] == "importpkg" and st[1] == "std" for b in [g["main"]] + list(g["files"].values()) for st in b)
            stats["import_errors_not_exported"] += "not exported" in sst
            stats["values_shown"] += sum(1 for l in sout if "=" in l and not l.endswith("=!"))
            stats["accessor_decls"] += sum(1 for b in [g["main"]] + list(g["files"].values()) for st in b if st[0] == "acc")
            lasts = [path_of(k)[-1] for k in g["files"]]
            stats["same_last_segment"] += len(lasts) != len(set(lasts))
            nontrivial = sum(1 for l in sout if l.startswith("<")) >= 3
            ctx.count_case(driver_lines(g), nontrivial)
            if first is None:
                j = judge(g, rec, model)
                if j:
                    first = (g, rec, model, j)
        if first:
            break
    ctx.stream_stat(label, **stats)
    ctx.cov["traces_validated_against_impl"] += stats["graphs"]
    if graphs and not search and fixed_graphs is None:
        g = graphs[ncorpus] if len(graphs) > ncorpus else graphs[0]
        ctx.sample({"driver_lines": driver_lines(g)[:40], "spec": spec_run(g)})
    if first is None:
        return True, None
    g, rec, model, (kind, msg) = first

    def fails(cand):
        r, m = run_one(cand, workdir)
        j = judge(cand, r, m)
        return j is not None and j[0] == kind

    small = shrink(g, fails)
    r2, m2 = run_one(small, workdir)
    j2 = judge(small, r2, m2) or (kind, msg)
    return False, (kind, payload(small, r2, m2, j2[0], j2[1], ctx.seed, workdir))


def replay_known(ctx):
    """DC17.2: a fiber launched before a top-level import completes while the imported module's body is
    parked on a channel; `Fiber::complete` wakes the sleeping importer (parent bias), the retried import
    finds the module in the tree and hands it out half initialised."""
    main = os.path.join(KF_DIR, "main.lay")
    finding = next((f for f in common.load_findings(PROP) if f["id"] == KF_ID), None)
    if not os.path.exists(main) or not finding:
        return
    rec = common.run_batch([main])[0]
    ctx.cov["DC17_2_witness"] = {"status": rec.get("status"), "stdout": rec.get("stdout"), "stderr": rec.get("stderr", "")[-300:]}
    out = [l for l in rec.get("stdout", "").split("\n") if l]
    if rec.get("status") == "Ok:0" and out[-2:] == [">slow", "main sees ready=1"] and out.count("<slow") == 1:
        ctx.cov["DC17_2_witness"]["note"] = "witness passes (finding no longer reproduces)"
    elif "Undefined property ready" in rec.get("stderr", "") and ">slow" not in out:
        ctx.known(KF_ID, finding["what"])
    else:
        ctx.violation("dc17_2_witness", {"kind": "implementation-vs-spec", "what": "the early-wake witness neither passes nor fails "
                                         "the known way", "impl": rec, "witness": main})


def run(ctx):
    proved = ctx.prove("LaytheVerif.Props.C17", extra_targets=("drv_imports",))
    ok_c, out_c = common.cargo_build()
    if not ok_c:
        ctx.violation("harness_build", {"kind": "harness-build-failed", "broken": "cargo build of /verif/harness against /repo",
                                        "output": out_c[-3000:]}, no_input=True)
        return
    workdir = os.path.join(common.VERIF, "work", "c17_%d" % os.getpid())
    os.makedirs(workdir, exist_ok=True)
    ctx.cov["rule"] = ("random acyclic module graphs: 1-5 files + main in a temporary directory, nested up to three directories deep (import "
                       "paths of 1-3 segments, also `self.a.a`, and one graph in five seeded with paths that differ only in the position of the segment boundary: a/bu, ab/u, a/b/u), file names drawn from plain names and the names of packages / library "
                       "modules (std, io, math, stdio), bodies of 2-8 statements mixing exported/private let, fn, class, "
                       "accessor functions over module state, assignments, whole/renamed/selected-symbol imports (repeated, diamond, "
                       "module importing its own child), imports of the standard library's modules, probes of exported/private/unknown "
                       "fields, and at most one failing import (missing module at top level / below an existing parent / below a missing "
                       "parent, non-exported or unknown symbol, a module the library lacks, the bare name of a user module used as a "
                       "package); non-trivial = at least three module bodies ran; distinct by the driver rendering of the graph")
    try:
        n = ctx.n(6000, 40000)
        if not proved:
            what, detail = ctx.broken
            ok, found = stream_graphs(ctx, 5 * ctx.n(6000, 24000), workdir, label="search", seed_mul=104729, search=True)
            if not ok and found[0] == "spec":
                found[1]["broken_obligation"] = what
                found[1]["found_by"] = "search"
                ctx.cov["impl_vs_spec_failures"] += 1
                ctx.violation("graphs_spec", found[1])
            else:
                ctx.violation("proof", {"kind": "proof-obligation-failed", "broken": what, "detail": detail}, no_input=True)
            if not os.path.exists(DRV):
                return
        ok, found = stream_graphs(ctx, n, workdir)
        if not ok:
            kind, pl = found
            if kind == "spec":
                ctx.cov["impl_vs_spec_failures"] += 1
                ctx.violation("graphs_spec", pl)
            else:
                ctx.cov["model_vs_impl_disagreements"] += 1
                ok2, found2 = stream_graphs(ctx, 5 * ctx.n(6000, 24000), workdir, label="search", seed_mul=104729, search=True)
                if not ok2 and found2[0] == "spec":
                    found2[1]["found_by"] = "search"
                    ctx.violation("graphs_spec", found2[1])
                else:
                    pl["broken"] = "correspondence stream graphs (Model/Imports.lean vs op_import/op_import_symbol/import_module)"
                    ctx.violation("graphs_tie", pl, no_input=True)
        if ok:
            ok3, found3 = stream_graphs(ctx, 0, workdir, label="stdpaths", fixed_graphs=std_path_graphs())
            if not ok3:
                kind, pl = found3
                if kind == "spec":
                    ctx.cov["impl_vs_spec_failures"] += 1
                    ctx.violation("stdpaths_spec", pl)
                else:
                    ctx.cov["model_vs_impl_disagreements"] += 1
                    pl["broken"] = "correspondence stream stdpaths (Model/Imports.lean stdModules / importForeign vs create_std_lib / import_module)"
                    ctx.violation("stdpaths_tie", pl, no_input=True)
        replay_known(ctx)
    finally:
        shutil.rmtree(workdir, ignore_errors=True)
    ctx.assumptions += [
        "the import model (Model/Imports.lean) is hand-written from ops.rs / source_loader.rs / module/*.rs; agreement is checked on the graphs stream, not proved",
        "module bodies are abstracted to declarations, assignments, imports and prints; the evaluation of arbitrary expressions is C01-C04's subject",
        "only module-level imports exist (the compiler rejects `import` anywhere else), so an import error cannot be caught and ends the run",
        "graphs are acyclic (hypothesis of C17_body_once); cyclic imports observe half-initialised modules by design of the loader",
        "the module_cache entries of imports from packages other than `self` are not modelled (the library's tree never changes, so a hit and a walk agree); repeated std imports are in the stream",
        "programs that start other fibers before or inside an import are outside the model (known finding DC17.2)",
    ]


def replay(path):
    r = json.load(open(path))
    graph = r["graph"]
    common.cargo_build()
    common.lake_build(["drv_imports"])
    workdir = os.path.join(common.VERIF, "work", "c17_replay_%d" % os.getpid())
    try:
        rec, model = run_one(graph, workdir)
        j = judge(graph, rec, model)
    finally:
        shutil.rmtree(workdir, ignore_errors=True)
    print("impl :", impl_view(rec))
    print("model:", model["raw"])
    print("spec :", spec_run(graph))
    print("verdict:", j)
    return 1 if j else 0
