"""C09 — strings compare and hash by content however and whenever they were created.  DESIGN.md §5 C09."""
import json
import os
import random

from .. import alloc_stream, common, sched_stream

PROP = "C09"
LEVEL = "proof"

WORDS = ["ab", "abc", "a", "", "xyz", "hello", "é", "k1", "foo bar", "12"]


BOUNDARY_LENGTHS = [15, 16, 17, 31, 32, 33, 63, 64, 65, 127, 128, 129, 255, 256, 257, 511, 512, 1022, 1023, 1024, 1025, 1026, 1500, 2047, 2048,
                    2049, 4095, 4096, 4097, 5000]


def long_word(rng):
    """a string whose length sits at a boundary a size-dependent creation path could use"""
    unit = rng.choice(["a", "ab", "xyz", "é", "0123456789"])
    n = rng.choice(BOUNDARY_LENGTHS)
    k = max(1, n // len(unit))
    return unit * k + rng.choice(["", "!", "?z"])


def producers(rng, s):
    """Several Laythe expressions that all evaluate to the string `s` (different creation paths)."""
    out = ['"%s"' % s]
    if len(s) > 12:
        # built up piecewise by repeated concatenation / interpolation (the "string builder" pattern)
        step = rng.choice([1, 2, 3, 7, len(s) // 2 or 1])
        parts = [s[i:i + step] for i in range(0, len(s), step)]
        if len(parts) <= 64:
            out.append("(|| { let acc = \"\"; for part in [%s] { acc = acc + part; } return acc; })()" % ", ".join('"%s"' % q for q in parts))
            out.append("(|| { let acc = \"\"; for part in [%s] { acc = \"${acc}${part}\"; } return acc; })()" % ", ".join('"%s"' % q for q in parts))
        out.append("[%s].iter().reduce(\"\", |a, x| a + x)" % ", ".join('"%s"' % s[i:i + max(1, len(s) // 3)] for i in range(0, len(s), max(1, len(s) // 3))))
    if len(s) >= 2:
        k = rng.randint(1, len(s) - 1)
        out.append('("%s" + "%s")' % (s[:k], s[k:]))
        out.append('"${"%s"}%s"' % (s[:k], s[k:]))
        out.append('"x%sy".slice(1, %d)' % (s, len(s) + 1))
        out.append('"%s,zz".split(",").iter().first()' % s)
    if s.isdigit() and not s.startswith("0"):
        out.append("%s.str()" % s)
    if len(s) >= 1:
        out.append('["%s"].iter().first()' % s)
        out.append('(|| "%s")()' % s)
    return out


def gen_program(rng):
    """A program whose expected output is known by construction: equal contents must behave as one key."""
    lines, exp = [], []
    n = rng.randint(3, 8)
    vals = []
    for i in range(n):
        s = rng.choice(WORDS) if rng.random() < 0.75 else (rng.choice([v for v in vals if len(v) > 12]) if rng.random() < 0.5 and any(len(v) > 12 for v in vals)
                                                          else long_word(rng))
        e = rng.choice(producers(rng, s))
        lines.append("let v%d = %s;" % (i, e))
        vals.append(s)
        if rng.random() < 0.4:
            # create garbage strings in between (dropped, collected, re-created later)
            lines.append('for g in %d.times() { let t = "g${g}" + "%s"; }' % (rng.randint(1, 6), rng.choice(WORDS)))
    lines.append("let m = {};")
    for i in range(n):
        lines.append("m[v%d] = %d;" % (i, i))
    last = {}
    for i, s in enumerate(vals):
        last[s] = i
    for i in range(n):
        j = rng.randrange(n)
        lines.append("print(v%d == v%d);" % (i, j))
        exp.append("true" if vals[i] == vals[j] else "false")
        e2 = rng.choice(producers(rng, vals[i]))
        lines.append("print(m[%s]);" % e2)
        exp.append(str(last[vals[i]]))
    lines.append("print(m.len());")
    exp.append(str(len(set(vals))))
    lst = "[" + ", ".join("v%d" % i for i in range(n)) + "]"
    k = rng.randrange(n)
    lines.append("print(%s.index(%s));" % (lst, rng.choice(producers(rng, vals[k]))))
    exp.append(str(vals.index(vals[k])))
    lines.append("print(%s.has(\"%s\"));" % (lst, "never-there"))
    exp.append("false")
    # strings as field / method names
    lines.append("class K { init() { self.ab = 1; } abc() { return 2; } }")
    lines.append("print(K().ab + K().abc());")
    exp.append("3")
    return "\n".join(lines) + "\n", "\n".join(exp) + "\n"


NAMES = ["easting", "northing", "payload", "ledger", "quantity", "waypoint", "tally", "x1", "longerFieldNameThanTwelve", "kind_", "z"]


def gen_module_case(rng, d):
    """A program in three files.  A class (fields, methods) is defined at the top level of one imported module, its
    members are used BY NAME from a second module that is imported (compiled, its name constants interned) only after
    a burst of garbage, and the main script never spells the names: between the two imports the strings naming the
    members are held by the class tables alone (the chunk that defined the class is garbage once its import has
    finished).  Equal contents must still denote the same member.  Returns (main path, combined text, expected)."""
    os.makedirs(d, exist_ok=True)
    nf = rng.randint(1, 4)
    names = rng.sample(NAMES, nf + 2)
    fields, meth, smeth = names[:nf], names[nf], names[nf + 1]
    cls = "Shape%d" % rng.randrange(100)
    vals = [rng.randint(1, 50) for _ in fields]
    a = ["class %s {" % cls,
         "  init(%s) {" % ", ".join("a%d" % i for i in range(nf))]
    a += ["    self.%s = a%d;" % (f, i) for i, f in enumerate(fields)]
    a += ["  }",
          "  %s() { return %s; }" % (meth, " + ".join("self.%s" % f for f in fields)),
          "  static %s() { return %d; }" % (smeth, 7),
          "}",
          "export let make = |%s| %s(%s);" % (", ".join("b%d" % i for i in range(nf)), cls, ", ".join("b%d" % i for i in range(nf))),
          "export let klass = %s;" % cls]
    use = ["export fn show(p) {",
           "  return \"" + ",".join("${p.%s}" % f for f in fields) + ",${p.%s()}\";" % meth,
           "}",
           "export fn bump(p) {",
           "  p.%s = p.%s + 1;" % (fields[0], fields[0]),
           "  return p.%s;" % fields[0],
           "}",
           "export fn viaClass(k) { return k.%s(); }" % smeth]
    churn = 'for g in %d.times() { let t = "g${g}" + "%s"; }' % (rng.randint(1, 40), rng.choice(WORDS))
    main = ["import self.shapes: {make, klass};",
            "let p = make(%s);" % ", ".join(str(v) for v in vals),
            churn,
            "import self.report: {show, bump, viaClass};",
            "print(show(p));",
            "print(bump(p));",
            churn,
            "print(show(p));",
            "print(viaClass(klass));"]
    exp = [",".join(str(v) for v in vals) + "," + str(sum(vals)), str(vals[0] + 1),
           ",".join(str(v) for v in [vals[0] + 1] + vals[1:]) + "," + str(sum(vals) + 1), "7"]
    files = {"shapes.lay": "\n".join(a) + "\n", "report.lay": "\n".join(use) + "\n", "main.lay": "\n".join(main) + "\n"}
    for fn, txt in files.items():
        open(os.path.join(d, fn), "w").write(txt)
    combined = "".join("// ---- file %s\n%s" % (fn, files[fn]) for fn in ("main.lay", "shapes.lay", "report.lay"))
    return os.path.join(d, "main.lay"), combined, "\n".join(exp) + "\n"


def run(ctx):
    proved = ctx.prove("LaytheVerif.Props.C09")
    ok_c, out_c = common.cargo_build()
    ok_a, out_a = common.cargo_build(bin="vh_alloc")
    if not (ok_c and ok_a):
        ctx.violation("harness_build", {"kind": "harness-build-failed", "broken": "cargo build of /verif/harness against /repo",
                                        "output": (out_c + out_a)[-3000:]}, no_input=True)
        return
    ctx.cov["rule"] = ("(a) allocator histories with intern operations (10 contents incl. multi-byte) judged by a content monitor: a miss while an equal "
                       "string is reachable, or a hit returning another content, is a violation; (b) generated programs creating equal strings by "
                       "different paths (literal, +, interpolation, slice, split, number formatting, closures, iteration) compared with ==, as map "
                       "keys, list.index/has, field and method names — expected output known by construction — under several collection schedules; "
                       "non-trivial = program with at least two equal-content strings from different producers")
    if not proved:
        what, detail = ctx.broken
        # search for a concrete input: allocator histories first, then the program streams with a larger budget
        ok = alloc_stream.run_stream(ctx, ctx.n(600, 4000), 150, "C09")
        if ok:
            ok = program_streams(ctx, ctx.n(1000, 20000), ctx.n(600, 6000), "search")
        if ok:
            ctx.violation("proof", {"kind": "proof-obligation-failed", "broken": what, "detail": detail}, no_input=True)
        return
    if not alloc_stream.run_stream(ctx, ctx.n(150, 3000), ctx.n(120, 300), "C09"):
        return
    if not program_streams(ctx, ctx.n(250, 10000), ctx.n(120, 3000), ctx.tier):
        return
    ctx.assumptions += [
        "every string allocation goes through Allocator::manage_str (single entry point) — an assumption of the model; on the code side it is observed, not proved: after a forced full collection of every generated program the number of string objects the allocator owns must equal the size of the intern table",
        "the allocator model is hand-written; agreement is checked on the alloc stream",
    ]


def program_streams(ctx, nprog, nmod, tag):
    """single-file string programs and three-file member-name programs under several collection schedules;
    True iff nothing was found"""
    import shutil
    rng = random.Random(ctx.seed * 31337 + 9 + (1 if tag == "search" else 0))
    d = os.path.join(common.VERIF, "work", "c09_%s" % tag)
    shutil.rmtree(d, ignore_errors=True)
    os.makedirs(d, exist_ok=True)
    progs = []
    for k in range(nprog):
        src, exp = gen_program(rng)
        f = os.path.join(d, "s%d.lay" % k)
        open(f, "w").write(src)
        progs.append((f, src, exp))
    for k in range(nmod):
        progs.append(gen_module_case(rng, os.path.join(d, "m%d" % k)))
    modes = ["", "--gc every:1", "--gc every:2 --full 1", "--gc coin:1/5:%d --full 0" % ctx.seed]
    if not ctx.quick():
        modes += ["--gc every:3", "--gc every:7 --full 1", "--gc never"]
    for mode in modes:
        runs = common.run_batch(["%s --stats --steps 300000 %s" % (mode, f) for f, _, _ in progs])
        for (f, src, exp), r in zip(progs, runs):
            ctx.count_case((src, mode), nontrivial=True)
            st = r.get("stats_after_full")
            if st and st.get("string_objects") is not None and st["string_objects"] != st["intern_len"]:
                # the single-entry-point assumption of the model, observed: every string object the allocator owns after a
                # full collection is an entry of the intern table (a creation path that bypasses the table shows here even
                # when the program never compares the string)
                ctx.cov["impl_vs_spec_failures"] += 1
                ctx.violation("intern_table", {"kind": "implementation-vs-spec",
                                               "what": "after a full collection the allocator owns %d string objects but the intern table has %d entries: "
                                                       "a string was created outside the table (or an entry dangles)" % (st["string_objects"], st["intern_len"]),
                                               "mode": mode or "default", "program": src, "expected": exp, "status": r["status"], "stats_after_full": st})
                return False
            if r["status"] != "Ok:0" or r["stdout"] != exp:
                ctx.cov["impl_vs_spec_failures"] += 1
                ctx.violation("strings", {"kind": "implementation-vs-spec",
                                          "what": "equal-content strings did not behave as one value (or the run failed)",
                                          "mode": mode or "default", "program": src, "expected": exp, "status": r["status"],
                                          "stdout": r["stdout"], "stderr": r["stderr"][-600:]})
                return False
        ctx.stream_stat("strings", programs=nprog, module_cases=nmod, runs=len(progs))
    ctx.cov["traces_validated_against_impl"] += len(progs) * len(modes)
    ctx.sample({"program": progs[0][1], "expected": progs[0][2]})
    ctx.sample({"program": progs[-1][1], "expected": progs[-1][2]})
    return True


def replay(path):
    r = json.load(open(path))
    common.cargo_build()
    if "program" in r:
        tmp = os.path.join(common.VERIF, "work", "c09_replay.lay")
        os.makedirs(os.path.dirname(tmp), exist_ok=True)
        open(tmp, "w").write(r["program"])
        if r["program"].startswith("// ---- file "):
            # a three-file case: re-create the directory
            import shutil
            dd = os.path.join(common.VERIF, "work", "c09_replay_dir")
            shutil.rmtree(dd, ignore_errors=True)
            os.makedirs(dd)
            for part in r["program"].split("// ---- file ")[1:]:
                fn, txt = part.split("\n", 1)
                open(os.path.join(dd, fn.strip()), "w").write(txt)
            tmp = os.path.join(dd, "main.lay")
        mode = r.get("mode", "")
        a = common.run_batch(["%s --stats --steps 300000 %s" % ("" if mode == "default" else mode, tmp)])[0]
        st = a.get("stats_after_full") or {}
        print(a["status"], a["stdout"], {k: st.get(k) for k in ("string_objects", "intern_len")})
        table_ok = st.get("string_objects") is None or st.get("string_objects") == st.get("intern_len")
        return 1 if (a["status"] != "Ok:0" or a["stdout"] != r.get("expected") or not table_ok) else 0
    if "ops" in r:
        common.cargo_build(bin="vh_alloc")
        rc, out, err = common.run_lines([common.harness_path(bin="vh_alloc")], r["ops"])
        for o, x in zip(r["ops"], out):
            print("%-24s %s" % (o, x))
        return 1
    return 0
