"""C12 — the peephole optimiser never changes what a function does.  DESIGN.md §5 C12."""
import glob
import itertools
import json
import os
import random
import re

from .. import common

PROP = "C12"
LEVEL = "proof"

# the instruction alphabet the rules mention (+ neighbours that must *not* trigger them)
ALPHABET = [
    "Drop", "DropN 2", "Dup", "Nil",
    "GetLocal 1", "GetLocal 2", "SetLocal 1", "SetLocal 2",
    "GetBox 1", "GetBox 2", "SetBox 1",
    "GetCapture 1", "GetCapture 2", "SetCapture 1",
    "GetModSym 1", "GetModSym 2", "SetModSym 1",
    "GetPropByName 3", "PropertySlot", "Call 0", "Call 1", "ArgumentDelimiter",
    "GetSuper 4", "Jump 9", "Loop 9", "Return", "Raise", "Label 9", "JumpIfFalse 9",
]

EXTRA = ["Add", "Constant 1", "GetProp 2", "SetProp 2", "SetPropByName 3", "Invoke 3 0", "InvokeSlot",
         "Closure 1", "CaptureIndex Local 1", "CaptureIndex Enclosing 0", "Label 8", "Jump 8", "And 8",
         "PushHandler 0 8", "PopHandler", "Call 2", "SetModSym 2", "SetCapture 2", "SetBox 2", "Pop",
         "List 2", "Equal", "Not", "True", "IterNext 1", "Send", "Receive", "Export 1", "Method 1"]
EXTRA.remove("Pop")


def with_lines(instrs, rng=None):
    if rng is None:
        return ";".join("%s@%d" % (x, i + 1) for i, x in enumerate(instrs))
    out, ln = [], 1
    for x in instrs:
        ln += rng.choice([0, 0, 1, 2])
        out.append("%s@%d" % (x, ln))
    return ";".join(out)


def windows(maxlen):
    for n in range(1, maxlen + 1):
        for w in itertools.product(ALPHABET, repeat=n):
            yield list(w)


def random_stream(rng, maxlen):
    n = rng.randint(1, maxlen)
    out = []
    pool = ALPHABET * 3 + EXTRA
    while len(out) < n:
        r = rng.random()
        if r < 0.08:
            out += ["Drop"] * rng.randint(2, 9)
        elif r < 0.10:
            out += ["Drop"] * rng.choice([200, 254, 255, 256, 257, 300, 510, 511])
        elif r < 0.18:
            x = rng.choice(["GetLocal 1", "GetBox 1", "GetCapture 1", "GetModSym 1"])
            out += [x] * rng.randint(2, 5)
        elif r < 0.26:
            k = rng.choice(["Local", "Box", "Capture", "ModSym"])
            a = rng.randint(1, 2)
            b = a if rng.random() < 0.7 else 3 - a
            out += ["Set%s %d" % (k, a), "Drop", "Get%s %d" % (k, b)]
        elif r < 0.32:
            out += ["GetPropByName 3", "PropertySlot", "Call 0"]
        elif r < 0.36:
            out += ["GetPropByName 3", "PropertySlot", "Nil", "ArgumentDelimiter", "Call 1"]
        elif r < 0.40:
            out += ["GetSuper 4", "Call 0"]
        else:
            out.append(rng.choice(pool))
    return out


def mask_handler(s):
    """apply_stack_effects rewrites PushHandler's first operand after the optimiser ran."""
    return re.sub(r"PushHandler \d+ ", "PushHandler _ ", s)


def strip_lines(s):
    return ";".join(p.split("@")[0] for p in s.split(";") if p)


NEW_OPS = ("DropN", "Invoke", "InvokeSlot", "SuperInvoke", "Dup")       # instructions only the optimiser writes


def lines_spec(inp, out):
    """"Line numbers stay attached to the instructions they came from", judged on the real output: read left to right, an
    instruction the optimiser copies is the next input instruction with the same text AND line; an instruction it writes
    itself (DropN, Invoke, InvokeSlot, SuperInvoke, Dup) carries the line of a later-or-equal input instruction it replaced.
    (Earliest match first: that leaves the most room for what follows, so a failure is a real one.)  Returns None or a message."""
    ip = [x for x in inp.split(";") if x]
    k = 0
    for x in [y for y in out.split(";") if y]:
        new = x.split("@")[0].split()[0] in NEW_OPS
        ln = x.split("@")[1]
        q = max(k - 1, 0) if new else k       # a written instruction may share the line of the input instruction just consumed (Invoke + InvokeSlot)
        while q < len(ip) and (ip[q].split("@")[1] != ln if new else ip[q] != x):
            q += 1
        if q == len(ip):
            return ("written instruction %s carries a line none of the remaining input instructions has" if new else
                    "output instruction %s does not occur (with that line, in order) in the input") % x
        k = max(k, q + 1)
    return None


def fixture_files():
    return sorted(glob.glob(os.path.join(common.REPO, "laythe_vm", "fixture", "**", "*.lay"), recursive=True))


def dump_functions(files, harness=None):
    """Compile-only dump of the given files. Returns list of dict(fun records)."""
    harness = harness or common.harness_path()
    rc, out, err = common.run_lines([harness, "dump", "-"], files, timeout=1200)
    funs = []
    cur = None
    for line in out:
        if line.startswith("FILE "):
            cur = line.split()[1]
        elif line.startswith("FUN "):
            parts = line.split("|")
            rec = {"file": cur, "head": parts[0]}
            for p in parts[1:]:
                k, _, v = p.partition(" ")
                rec[k] = v
            funs.append(rec)
    return funs, rc


def check_streams(ctx, label, streams, expect_post=None, nontrivial_all=False):
    """streams: list of `instr@line;...` strings.  Runs model, implementation, spec.  Returns False on
    the first violation (after reporting it)."""
    if not streams:
        return True
    mo, io, mism, notes = common.diff_streams("peephole", streams)
    _, xo, _ = common.run_lines([common.DRIVER, "peepholex"], streams)
    # implementation-vs-Spec: the free-semantics equivalence of input and *implementation* output
    LONG = 6000  # the free-semantics comparison is quadratic in the worst case; longer streams are tied to the model only
    okio = [(i, s, o) for i, (s, o) in enumerate(zip(streams, io))
            if not o.startswith(("PANIC", "bad-op")) and s.count(";") < LONG]
    eq_in = ["%s => %s" % (s, o) for _, s, o in okio]
    idx_map = [i for i, _, _ in okio]
    ctx.stream_stat(label, equiv_skipped_long=sum(1 for s in streams if s.count(";") >= LONG))
    _, eo, _ = common.run_lines([common.DRIVER, "peepequiv"], eq_in)
    fired = 0
    wd_count = 0
    spec_bad = None
    for j, verdict in enumerate(eo):
        i = idx_map[j]
        flags = xo[i].split("|")[0].split() if i < len(xo) else ["0", "0"]
        wd = flags == ["1", "1"]
        wd_count += wd
        changed = strip_lines(io[i]) != strip_lines(streams[i])
        fired += changed
        ctx.count_case(streams[i], nontrivial=changed or nontrivial_all)
        if wd and verdict != "equiv" and spec_bad is None:
            spec_bad = (i, "optimised code is not observationally equivalent to its input (free semantics)")
        if wd and spec_bad is None:
            lm = lines_spec(streams[i], io[i])
            if lm:
                spec_bad = (i, "line numbers do not stay attached to their instructions: " + lm)
    for i, o in enumerate(io):
        flags = xo[i].split("|")[0].split() if i < len(xo) else ["0", "0"]
        if o.startswith("PANIC") and flags == ["1", "1"] and spec_bad is None:
            spec_bad = (i, "peephole_optimize panicked on a well-delimited stream")
    ctx.stream_stat(label, streams=len(streams), rewritten=fired, well_delimited=wd_count)
    ctx.cov["traces_validated_against_impl"] += len(streams)
    if spec_bad:
        i, msg = spec_bad
        small = shrink_stream(streams[i], lambda s: impl_breaks_spec(s))
        ctx.cov["impl_vs_spec_failures"] += 1
        ctx.violation(label + "_spec", {"engine": "peephole", "kind": "implementation-vs-spec", "what": msg,
                                        "input": small, "impl": impl_opt(small), "model": model_opt(small),
                                        "seed": ctx.seed})
        return False
    # the tie: model output == implementation output (on inputs inside the u8 envelope)
    bad = None
    for i, (a, b) in enumerate(zip(mo, io)):
        flags = xo[i].split("|")[0].split() if i < len(xo) else ["0", "0"]
        if a != b and flags[1:] == ["1"]:
            bad = i
            break
    if bad is None and (len(mo) != len(streams) or len(io) != len(streams)):
        bad = min(len(mo), len(io))
    if bad is not None:
        ctx.cov["model_vs_impl_disagreements"] += 1
        s = streams[bad] if bad < len(streams) else ""
        small = shrink_stream(s, lambda x: model_opt(x) != impl_opt(x)) if s else s
        found = search(ctx)
        if found:
            ctx.violation(label + "_spec", found)
        else:
            ctx.violation(label + "_tie", {"engine": "peephole", "kind": "model-vs-implementation",
                                           "broken": "correspondence stream peephole (Model/Peephole.lean vs peephole_optimize)",
                                           "input": small, "model": model_opt(small), "impl": impl_opt(small),
                                           "notes": notes}, no_input=True)
        return False
    if expect_post is not None:
        for i, (o, post) in enumerate(zip(io, expect_post)):
            if mask_handler(strip_lines(o)) != mask_handler(post):
                ctx.violation(label + "_hook", {"kind": "hook-inconsistent", "broken": "PRE/POST recorded by the compile hook disagree with optimize_text",
                                                "input": streams[i], "impl": o, "post": post}, no_input=True)
                return False
    return True


def impl_opt(s):
    _, o, _ = common.run_lines([common.harness_path(), "peephole"], [s])
    return o[0] if o else "<none>"


def model_opt(s):
    _, o, _ = common.run_lines([common.DRIVER, "peephole"], [s])
    return o[0] if o else "<none>"


def impl_breaks_spec(s):
    o = impl_opt(s)
    _, x, _ = common.run_lines([common.DRIVER, "peepholex"], [s])
    if not x or x[0].split("|")[0].split() != ["1", "1"]:
        return False
    if o.startswith("PANIC"):
        return True
    if lines_spec(s, o):
        return True
    _, e, _ = common.run_lines([common.DRIVER, "peepequiv"], ["%s => %s" % (s, o)])
    return bool(e) and e[0] == "differ"


def shrink_stream(s, fails):
    parts = [p for p in s.split(";") if p]
    changed = True
    while changed and len(parts) > 1:
        changed = False
        i = 0
        while i < len(parts) and len(parts) > 1:
            cand = parts[:i] + parts[i + 1:]
            if fails(";".join(cand)):
                parts = cand
                changed = True
            else:
                i += 1
    return ";".join(parts)


def search(ctx):
    """Targeted search for an input on which the implementation's optimiser breaks the Spec:
    all windows of length <= 3 plus random streams, judged only by the free-semantics equivalence."""
    rng = random.Random(ctx.seed * 31 + 7)
    streams = [with_lines(w) for w in windows(3)] + [with_lines(random_stream(rng, 40), rng) for _ in range(20000)]
    _, io, _ = common.run_lines([common.harness_path(), "peephole"], streams)
    _, xo, _ = common.run_lines([common.DRIVER, "peepholex"], streams)
    pairs, idx = [], []
    for i, (s, o) in enumerate(zip(streams, io)):
        if i < len(xo) and xo[i].split("|")[0].split() == ["1", "1"]:
            if o.startswith("PANIC"):
                return {"engine": "peephole", "kind": "implementation-vs-spec", "what": "panic on a well-delimited stream",
                        "input": shrink_stream(s, impl_breaks_spec), "found_by": "search"}
            pairs.append("%s => %s" % (s, o))
            idx.append(i)
    _, eo, _ = common.run_lines([common.DRIVER, "peepequiv"], pairs)
    ctx.stream_stat("search", streams=len(streams))
    for j, v in enumerate(eo):
        if v != "equiv":
            s = shrink_stream(streams[idx[j]], impl_breaks_spec)
            return {"engine": "peephole", "kind": "implementation-vs-spec",
                    "what": "optimised code is not observationally equivalent to its input (free semantics)",
                    "input": s, "impl": impl_opt(s), "model": model_opt(s), "found_by": "search", "seed": ctx.seed}
    return None


ARG_EXPRS = ["super.m", "self.f", "o.f", "self.m", "o.m", "l[0]", "g", "g(1)", "o.m()", "super.m()", "self.m()", "super.n(2)", "1", '"s"',
             "|x| x", "o.f + 1", "!o", "o.f.f", "(o.f)", "[o.f]", "o.f && o.f", "o.f || o.m", "nil", "A", "A.sm", "A.sm()", '"${o.f}"', "true ? o.f : o.m"]
ARG_CALLS = ["g(%s)", "g(1, %s)", "g(%s, 1)", "o.n(%s)", "self.n(%s)", "super.n(%s)", "A.sn(%s)", "g(g(%s))", "o.f.n(%s)", "launch g(%s)", "[1].push(%s)",
             "g(%s)(1)", "o.n(%s).f", "return g(%s)", "let v = g(%s)", "o.f = g(%s)", "l[0] = g(%s)", "g(%s) + 1"]


def argument_form_files(ctx):
    """Every expression form as (last / first / only) argument of every call form, each in a method of its own: the
    optimiser's fusion rules end in a call, and which instruction may directly precede a `Call` is decided by how
    the compiler closes an argument (ArgumentDelimiter) — the functions are only compiled, and judged like the
    fixture functions: real PRE stream, real optimiser output, free-semantics equivalence."""
    d = os.path.join(common.VERIF, "work", "c12_argforms")
    os.makedirs(d, exist_ok=True)
    files = []
    for ci, call in enumerate(ARG_CALLS):
        lines = ["class A { init() { self.f = self; } m() { return 1; } n(x) { return x; } static sm() { return 1; } static sn(x) { return x; } }",
                 "class B : A {", "  init() { super.init(); }"]
        for ei, e in enumerate(ARG_EXPRS):
            stmt = call % e
            lines.append("  t%d(g, o, l) { %s; }" % (ei, stmt))
        lines.append("}")
        f = os.path.join(d, "a%02d.lay" % ci)
        open(f, "w").write("\n".join(lines) + "\n")
        files.append(f)
    return files


def compiler_streams_spec(ctx, label, funs):
    """For streams the compiler itself produced the claim is unconditional (no envelope): the real optimiser's output must be
    equivalent to the pre-optimisation stream under the free semantics.  Returns True iff all are."""
    cand = [f for f in funs if f.get("PRE") and f["PRE"].count(";") < 6000]
    pres = [f["PRE"] for f in cand]
    _, io, _ = common.run_lines([common.harness_path(), "peephole"], pres)
    ok = [(f, s, o) for f, s, o in zip(cand, pres, io) if not o.startswith(("PANIC", "bad-op"))]
    _, eo, _ = common.run_lines([common.DRIVER, "peepequiv"], ["%s => %s" % (s, o) for _, s, o in ok])
    ctx.stream_stat(label, functions=len(cand), judged=len(eo))
    for (f, s, o), v in zip(ok, eo):
        if v != "equiv":
            ctx.cov["impl_vs_spec_failures"] += 1
            src = open(f["file"]).read() if f.get("file") and os.path.exists(f["file"]) else ""
            ctx.violation(label + "_spec", {"engine": "peephole", "kind": "implementation-vs-spec",
                                            "what": "a function the compiler emitted is changed by the optimiser: its output is not observationally "
                                                    "equivalent to the pre-optimisation stream (free semantics): " + v[:200],
                                            "function": f["head"], "file": f.get("file"), "input": s, "impl": o,
                                            "program": src if len(src) < 6000 else src[:6000]})
            return False
    return True


def run(ctx):
    proved = ctx.prove("LaytheVerif.Props.C12")
    ok_c, out_c = common.cargo_build()
    if not ok_c:
        ctx.violation("harness_build", {"kind": "harness-build-failed", "broken": "cargo build of /verif/harness against /repo",
                                        "output": out_c[-3000:]}, no_input=True)
        return
    ctx.cov["rule"] = ("instruction streams handed to peephole_optimize: all windows up to length 3 (quick) / 4 (thorough) over "
                       "the %d-symbol alphabet the rules mention, random streams up to length 40 (long Drop runs incl. 254/255), and the "
                       "pre-optimiser stream of every function of the fixture corpus; non-trivial = the optimiser changed the stream; "
                       "distinct by stream text" % len(ALPHABET))
    if not proved:
        what, detail = ctx.broken
        found = search(ctx)
        if found:
            found["broken_obligation"] = what
            ctx.violation("spec", found)
        else:
            ctx.violation("proof", {"kind": "proof-obligation-failed", "broken": what, "detail": detail}, no_input=True)
    rng = random.Random(ctx.seed * 1000003 + 12)
    # corpus first
    corpus = os.path.join(common.VERIF, "corpus", "C12")
    pre = []
    if os.path.isdir(corpus):
        for f in sorted(os.listdir(corpus)):
            pre.append(json.load(open(os.path.join(corpus, f)))["input"])
    if pre and not check_streams(ctx, "corpus", pre):
        return
    wl = ctx.n(3, 4)
    ws = [with_lines(w) for w in windows(wl)]
    ctx.cov["exhaustive_windows_upto"] = wl
    for k in range(0, len(ws), 200000):
        if not check_streams(ctx, "windows", ws[k:k + 200000]):
            return
    ctx.sample({"window": ws[len(ALPHABET) + 5], "impl": impl_opt(ws[len(ALPHABET) + 5])})
    # runs of Drop around the u8 counter of the merging rule (repaired 25df831: merging stops at 255 and starts again)
    longruns = [with_lines(pre + ["Drop"] * n + post) for n in (1, 2, 3, 253, 254, 255, 256, 257, 258, 300, 509, 510, 511, 512, 600, 1000)
                for pre in ([], ["Nil"], ["SetLocal 1"]) for post in ([], ["Nil"], ["GetLocal 1"], ["Label 9", "Drop", "Drop"])]
    if not check_streams(ctx, "long_drop_runs", longruns):
        return
    rs = [with_lines(random_stream(rng, 40), rng) for _ in range(ctx.n(6000, 200000))]
    if not check_streams(ctx, "random", rs):
        return
    ctx.sample({"random": rs[0][:300], "impl": impl_opt(rs[0])[:300]})
    # real compiler output
    funs, rc = dump_functions(fixture_files() + argument_form_files(ctx))
    pres = [f["PRE"] for f in funs if f.get("PRE")]
    posts = [f.get("POST", "") for f in funs if f.get("PRE")]
    ctx.stream_stat("fixtures", functions=len(funs), argument_form_functions=sum(1 for f in funs if "c12_argforms" in (f.get("file") or "")))
    _, xo, _ = common.run_lines([common.DRIVER, "peepholex"], pres)
    notwd = [p for p, x in zip(pres, xo) if x.split("|")[0].split() != ["1", "1"]]
    ctx.cov["compiler_output_outside_envelope"] = len(notwd)
    if notwd:
        # outside the envelope the preservation theorem says nothing: judge every compiler-produced stream directly
        if not compiler_streams_spec(ctx, "compiler_streams", funs):
            return
        ctx.violation("envelope", {"kind": "envelope-violated", "broken": "wellDelimited does not hold of a stream the compiler produced "
                                   "(hypothesis of C12_preserves)", "input": notwd[0]}, no_input=True)
        return
    if not check_streams(ctx, "fixtures", pres, expect_post=posts, nontrivial_all=False):
        return
    if funs:
        ctx.sample({"fixture_function": funs[0]["head"], "pre": funs[0]["PRE"][:200], "post": funs[0].get("POST", "")[:200]})
    ctx.assumptions += [
        "the optimiser model (Model/Peephole.lean) is hand-written; its rule table is proved equal to the regenerated one, its behaviour is checked against peephole_optimize on the streams",
        "the free semantics (Model/PeepFree.lean) is the executable Spec: it satisfies the local laws (proved) and logs stores, calls, returns, raises and every uninterpreted instruction",
        "discharging the local laws on the full concrete VM semantics of ops.rs is not done (the invoke law is C03's invoke lemma)",
    ]


def replay(path):
    r = json.load(open(path))
    s = r.get("input", "")
    common.cargo_build()
    common.lake_build(["driver"])
    if r.get("program") and r.get("function"):
        # a function the compiler emitted: compile the program again and judge what the compiler and optimiser produce now
        tmp = os.path.join(common.VERIF, "work", "c12_replay.lay")
        open(tmp, "w").write(r["program"])
        funs, _ = dump_functions([tmp])
        name = r["function"].split()[1] if len(r["function"].split()) > 1 else ""
        funs = [f for f in funs if name in f["head"]] or funs
        c = common.Ctx("C12", "quick", 0)
        ok = compiler_streams_spec(c, "replay", funs)
        print("functions judged:", len(funs), "all equivalent to their pre-optimisation stream:", ok)
        return 0 if ok else 1
    print("input:", s)
    print("impl :", impl_opt(s))
    print("model:", model_opt(s))
    bad = impl_breaks_spec(s)
    print("implementation breaks spec:", bad)
    return 1 if (bad or impl_opt(s) != model_opt(s)) else 0
