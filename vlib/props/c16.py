"""C16 — no accepted program can crash the runtime.  DESIGN.md §5 C16.

Streams
  sig        (signature, argument-kind list) pairs through the Lean model (`drv_sig`) and the real
             `Native::check_if_valid_call` / `NativeSignature::check` / `Arity::check` (`vh_sig`);
             Spec = a 12-line Python statement of "accepted ⇒ count in range and every kind allowed"
  matrix     every native of the regenerated table × every combination of argument values
             (arity ≤ 2 exhaustive over 21 values of 15 kinds; arity 3 / variadic tails sampled; the count just
             above a `Default` upper bound always), one call per program, crash-isolated
  frames     recursion shapes (closures, methods, initialisers, native callbacks) × call-depth offsets;
             the frame model predicts `Stack overflow.` vs. the guard bypass (known finding)
  misc       non-callables of every kind, `class A : <non-class>`, raising non-errors, property stores on
             non-instances, channel capacities, errors raised while handling errors
Judgements
  implementation-vs-Spec: status is never PANIC / CRASH / STEPLIMIT (unless the case carries the
  signature of a known finding);  model-vs-implementation: where the model's signature check rejects, the
  program ends in the corresponding language error; where the frame model predicts the limit error it is caught.
"""
import itertools
import json
import os
import random
import re
import shutil
import sys
import tempfile

from .. import common

PROP = "C16"
LEVEL = "proof"

sys.path.insert(0, os.path.join(common.VERIF, "tools"))

DRV = os.path.join(common.LEAN, ".lake", "build", "bin", "drv_sig")
STEPS = "--steps 2000000"

# ---------------------------------------------------------------------------------------------
# the table (same scan as Gen/Natives.lean)


def load_table():
    import translate_natives as T
    info = T.gen_sigtable(common.REPO, tempfile.mkdtemp(prefix="c16sig"))
    rows, results, fields, skipped = T.collect_natives(common.REPO, info["casts"])
    return rows, results, fields


# committed in Props/C16.lean as `knownBadRows`
KNOWN_BAD_ROWS = {"Print": "D22-print-no-args", "IterZip": "D24-iter-zip", "IterChain": "D24-iter-chain",
                  "ListCollect": "D24-list-collect", "ObjectIsA": "D24-object-isa", "TupleCollect": "D24-tuple-collect"}

def table_stream(ctx, rows):
    """the regenerated table against the objects the real standard library registers: every row must be found
    under its module / class / meta class and agree on fun-vs-method and on the stack flag"""
    lines = ["%s ; %s ; %d ; %s" % (r["module"] or "", r["owner"], 1 if r["static"] else 0, r["name"]) for r in rows]
    rc, io, err = common.run_lines([common.harness_path(bin="vh_sig"), "natives"], lines, timeout=300)
    bad = []
    for r, l, a in zip(rows, lines, io + ["<missing>"] * (len(lines) - len(io))):
        want = "native method=%d stack=%d" % (1 if r["is_method"] else 0, 1 if r["stack"] else 0)
        ctx.count_case(["table", l], nontrivial=True)
        if a != want:
            bad.append({"row": r["struct"], "request": l, "table": want, "implementation": a})
    ctx.cov["traces_validated_against_impl"] += len(lines)
    ctx.stream_stat("table", rows=len(rows), mismatches=len(bad))
    if bad:
        ctx.cov["model_vs_impl_disagreements"] += 1
        ctx.violation("table_tie", {"engine": "table", "kind": "model-vs-implementation",
                                    "broken": "Gen/Natives.lean (tools/translate_natives.py) vs the natives registered by laythe_lib::create_std_lib",
                                    "mismatches": bad[:10]}, no_input=True)
        return False
    return True


# ---------------------------------------------------------------------------------------------
# values of every kind (expression, model kind)

PRELUDE = '''class K { init() { self.a = 1; } m() { return 1; } }
fn ffun(x) { return x; }
fn mk() { let c = 1; return |x| x + c; }
let fclo = mk();
let fmeth = K().m;
'''

VALUES = [
    ("nil", "nil"), ("true", "bool"), ("false", "bool"),
    ("1", "number"), ("0.5", "number"), ("-1", "number"), ("(0/0)", "number"), ("(1/0)", "number"),
    ('"/nonexistent_c16/s"', "string"), ('""', "string"),
    ("[1]", "list"), ("[]", "list"), ("{1: 2}", "map"), ("(1, 2)", "tuple"),
    ("fclo", "closure"), ("ffun", "fun"), ("fmeth", "method"), ("print", "native"),
    ("K", "class"), ("K()", "instance"), ("[1, 2].iter()", "enumerator"), ("chan(2)", "channel"),
]
QUICK_VALUES = [v for v in VALUES if v[0] not in ("false", "0.5", "[]", '""')]

# receivers by owning class: (expression, model kind)
RECEIVERS = {
    "Bool": [("true", "bool")], "Nil": [("nil", "nil")],
    "Number": [("3", "number"), ("(0/0)", "number"), ("(1/0)", "number"), ("-1.5", "number")],
    "String": [('"héllo"', "string"), ('""', "string")],
    "List": [("[1, 2, 3]", "list"), ("[]", "list")], "Map": [("{1: 2}", "map")], "Tuple": [("(1, 2)", "tuple")],
    "Iter": [("[1, 2].iter()", "enumerator")], "Channel": [("chan(2)", "channel")],
    "Closure": [("fclo", "closure")], "Fun": [("ffun", "fun")], "Method": [("fmeth", "method")],
    "Native": [("clock", "native")], "Class": [("K", "class")],
    "Object": [("K()", "instance"), ("1", "number"), ('"s"', "string"), ("nil", "nil"), ("[1]", "list"), ("K", "class")],
    "Error": [('Error("e")', "instance")], "RegExp": [('RegExp("a+")', "instance")],
    "Stdout": [("stdout", "instance")], "Stderr": [("stderr", "instance")], "Stdin": [("stdin", "instance")],
}
IMPORTS = {
    "std.math": ("import std.math;", "math."), "std.io.fs": ("import std.io.fs;", "fs."),
    "std.env": ("import std.env;", "env."), "std.regexp": ("import std.regexp: {RegExp};", ""),
    "std.io.stdio": ("import std.io.stdio: {stdout, stderr, stdin};", ""), "": ("", ""),
}
CONSTRUCTORS = {"ErrorInit": "Error", "RegExpInit": "RegExp"}


def recipes(row):
    """ways to reach a native from Laythe: list of (imports, template, receiver_kind or None);
    template has one `%s` for the comma-separated arguments (index natives take a list)"""
    imp, pre = IMPORTS.get(row["module"] or "", (None, None))
    if imp is None:
        return None
    out = []
    if row["owner"] == "":
        out.append((imp, pre + row["name"] + "(%s)", None))
    elif row["static"] or not row["is_method"]:
        out.append((imp, "%s.%s(%%s)" % (row["owner"], row["name"]), None))
    else:
        recvs = RECEIVERS.get(row["owner"])
        if recvs is None:
            return None
        for rx, rk in recvs:
            if row["name"] == "[]":
                out.append((imp, "(%s)[%%s]" % rx, rk))
            elif row["name"] == "[]=":
                out.append((imp, "(%s)[%%s] = %%s" % rx, rk))
            else:
                out.append((imp, "(%s).%s(%%s)" % (rx, row["name"]), rk))
        if row["struct"] in CONSTRUCTORS:
            out.append((imp, CONSTRUCTORS[row["struct"]] + "(%s)", "instance"))
    return out


def arity_counts(row):
    ar, a, b = row["arity"]
    if ar == "Fixed":
        return a, a
    if ar == "Variadic":
        return a, None
    return a, b


def sig_line(row, kinds):
    ar, a, b = row["arity"]
    arity = {"Fixed": "F %d" % a, "Variadic": "V %d" % a, "Default": "D %d %s" % (a, b)}[ar]
    return "%s ; %s ; %s ; %s" % (arity, " ".join(k.lower() for _, k in row["params"]),
                                  "m" if row["is_method"] else "f", " ".join(kinds))


def holds(ukind, vkind):
    if ukind == "any":
        return True
    if ukind in ("num", "bool"):
        return vkind == {"num": "number", "bool": "bool"}[ukind]
    objs = {"string": "String", "list": "List", "map": "Map", "tuple": "Tuple", "closure": "Closure", "fun": "Fun",
            "method": "Method", "native": "Native", "class": "Class", "instance": "Instance",
            "enumerator": "Enumerator", "channel": "Channel"}
    if ukind == "obj":
        return vkind in objs
    return objs.get(vkind) == ukind[3:]


def known_bad_call(row, kinds):
    """does this call carry the signature of the row's known finding (an unjustified site is actually hit)?"""
    if row["struct"] not in KNOWN_BAD_ROWS:
        return False
    for (idx, rest, kind, minlen, guarded) in row["sites"]:
        if guarded or len(kinds) < minlen:
            continue
        if rest:
            if any(not holds(kind, k) for k in kinds[idx:]):
                return True
        elif idx >= len(kinds) or not holds(kind, kinds[idx]):
            return True
    return False


def program(imp, call):
    # the call sits in its own function: an error leaving a callback of a stack-less native into a `try` of the
    # *same* activation is the signature of known finding D12
    return (imp + "\n" + PRELUDE + "fn t_() { let r = %s; }\n" % call +
            "try { t_(); print(\"RES ok\"); } catch e: Error { print(\"RES err ${e.cls().name()} ${e.message}\"); }\n")


def build_matrix(ctx, rows, rng):
    """list of cases: dict(native, call, kinds, sigline, src, known)"""
    quick = ctx.quick()
    cases = []
    unreachable = []
    for row in rows:
        rs = recipes(row)
        if not rs:
            unreachable.append(row["struct"])
            continue
        lo, hi = arity_counts(row)
        for imp, tmpl, rk in rs:
            is_index = row["name"] in ("[]", "[]=")
            counts = [1] if row["name"] == "[]" else [2] if row["name"] == "[]=" else [0, 1, 2]
            for c in counts:
                vals = QUICK_VALUES if (quick and c == 2) else VALUES
                combos = list(itertools.product(vals, repeat=c))
                for cb in combos:
                    cases.append((row, imp, tmpl, rk, list(cb)))
            # counts 3 and 4: sampled; always the count just above a Default/Fixed upper bound
            if not is_index:
                extra = []
                n3 = ctx.n(6, 60)
                for c in (3, 4):
                    for _ in range(n3 if c == 3 else n3 // 3):
                        extra.append([rng.choice(VALUES) for _ in range(c)])
                if hi is not None and hi + 1 >= 3:
                    # kinds the declared parameters accept, plus one more argument
                    good = []
                    for _, pk in row["params"]:
                        good.append({"Number": ("1", "number"), "String": ('"s"', "string"), "Bool": ("true", "bool"),
                                     "Callable": ("ffun", "fun"), "Object": ("nil", "nil")}[pk])
                    extra.append((good + [("1", "number")] * 4)[:hi + 1])
                for cb in extra:
                    cases.append((row, imp, tmpl, rk, cb))
    out = []
    for row, imp, tmpl, rk, cb in cases:
        exprs = [e for e, _ in cb]
        kinds = [k for _, k in cb]
        if row["name"] == "[]=":
            call = tmpl % (exprs[0], exprs[1])
            mkinds = [kinds[1], kinds[0]]      # x[i] = v  passes (v, i)
        else:
            call = tmpl % ", ".join(exprs)
            mkinds = kinds
        allk = ([rk] if row["is_method"] and rk else []) + mkinds
        known = None
        if known_bad_call(row, allk):
            known = KNOWN_BAD_ROWS[row["struct"]]
        if row["owner"] == "Stdin" and not mkinds:
            known = "harness-mock"   # the harness' test stdin panics on read ("Not enough test lines"): not the implementation
        # D22 reached through a callback / `.call()`: print handed over as a value may be invoked with zero arguments
        out.append({"native": row["struct"], "call": call, "imp": imp, "kinds": allk, "sigline": sig_line(row, allk),
                    "known": known, "row": row})
    return out, unreachable


# STEPLIMIT (the program itself runs long) is counted, not judged; a batch time-out shows up as CRASH:timeout
CRASH = re.compile(r"^(PANIC|CRASH)")


def SUF():
    return "_release" if RELEASE else ""


def classify_model(line):
    """model verdict of drv_sig for the call: ('ok'|'len'|'type'|'panic', detail)"""
    m = re.match(r"civ=(.*?) sig=(.*?) arity=(.*)$", line)
    if not m:
        return ("?", line)
    civ = m.group(1)
    if civ == "ok":
        return ("ok", "")
    if civ.startswith("len"):
        return ("len", civ)
    if civ.startswith("type"):
        return ("type", civ)
    return ("panic", civ)


LEN_MSG = re.compile(r"expected (at least |at most )?\d+ argument\(s\) but received \d+\.")
TYPE_MSG = re.compile(r"'s parameter \".*\" required a \w+ but received a \w+\.|\btodo$")


def judge_matrix_case(case, res, model_line):
    """returns (kind, message) with kind in None | 'spec' | 'tie'"""
    st = res["status"]
    if CRASH.match(st):
        return "spec", "host crash / hang: %s" % st[:200]
    verdict, detail = classify_model(model_line)
    out = res.get("stdout", "")
    m = re.search(r"RES (ok|err) ?(\w+)? ?(.*)", out)
    if verdict in ("len", "type"):
        # the model's signature check rejects: the program must end in the corresponding RuntimeError
        if not m or m.group(1) != "err":
            return "tie", "model rejects (%s) but the program did not raise: %r" % (detail, out[-200:])
        if m.group(2) != "RuntimeError":
            return "tie", "model rejects (%s) but the error class is %s" % (detail, m.group(2))
        msg = m.group(3)
        if verdict == "len" and not LEN_MSG.search(msg):
            return "tie", "model rejects on length (%s), implementation says %r" % (detail, msg[:160])
        if verdict == "type" and not TYPE_MSG.search(msg):
            return "tie", "model rejects on type (%s), implementation says %r" % (detail, msg[:160])
    elif verdict == "ok":
        # accepted: any non-crash outcome is fine, but it must not be a signature error
        if m and m.group(1) == "err" and m.group(2) == "RuntimeError":
            msg = m.group(3)
            name = case["row"]["name"]
            if (LEN_MSG.search(msg) or TYPE_MSG.search(msg)) and (msg.startswith(name + " ") or msg.startswith(name + "'s")):
                return "tie", "model accepts but the implementation's signature check rejects: %r" % msg[:160]
    else:
        return "tie", "model has no verdict: %s" % model_line
    return None, ""


def write_programs(tmp, srcs):
    paths = []
    for i, s in enumerate(srcs):
        p = os.path.join(tmp, "c%06d.lay" % i)
        with open(p, "w") as f:
            f.write(s)
        paths.append(p)
    return paths


RELEASE = False   # thorough tier runs the program streams a second time on the release build
SEARCH = False    # a proof obligation broke: the streams run at ten times the quick budget, looking for a failing input


def run_programs(srcs, timeout=120, extra=""):
    tmp = tempfile.mkdtemp(prefix="c16_")
    cwd = os.getcwd()
    try:
        paths = write_programs(tmp, srcs)
        # the programs run with a scratch working directory: fs natives are called with relative paths too
        os.makedirs(os.path.join(tmp, "cwd"))
        os.chdir(os.path.join(tmp, "cwd"))
        res = common.run_batch(["%s %s %s" % (STEPS, extra, p) for p in paths], timeout=timeout, release=RELEASE)
    finally:
        os.chdir(cwd)
        shutil.rmtree(tmp, ignore_errors=True)
    return res


def model_lines(lines, engine="sig"):
    rc, out, err = common.run_lines([DRV, engine], lines, timeout=600)
    return out


def matrix_stream(ctx, rows, rng):
    cases, unreachable = build_matrix(ctx, rows, rng)
    if RELEASE:
        cases = [c for c in cases if rng.random() < 0.5]
    ctx.stream_stat("matrix" + SUF(), natives=len(rows), unreachable=len(unreachable), cases=len(cases))
    if unreachable:
        ctx.violation("matrix_unreachable", {"kind": "model-vs-implementation", "broken": "a native of the regenerated table has no "
                      "access recipe in vlib/props/c16.py (new class or module?)", "natives": unreachable}, no_input=True)
        return False
    run = [c for c in cases if not c["known"]]
    skipped_known = len(cases) - len(run)
    ml = model_lines([c["sigline"] for c in run])
    if len(ml) != len(run):
        ctx.violation("matrix_driver", {"kind": "driver-failed", "broken": "drv_sig produced %d lines for %d requests" % (len(ml), len(run))},
                      no_input=True)
        return False
    res = run_programs([program(c["imp"], c["call"]) for c in run])
    verdicts = {"ok": 0, "len": 0, "type": 0, "panic": 0, "?": 0}
    outcomes = {}
    per_native = {}
    first = {}
    known_hits = {}
    for c, r, m in zip(run, res, ml):
        v = classify_model(m)[0]
        verdicts[v] = verdicts.get(v, 0) + 1
        st = r["status"].split(":")[0]
        outcomes[st] = outcomes.get(st, 0) + 1
        per_native[c["native"]] = per_native.get(c["native"], 0) + 1
        ctx.count_case([c["native"], c["call"]], nontrivial=True)
        kind, msg = judge_matrix_case(c, r, m)
        if kind:
            # D22 through a value: print invoked with zero arguments by `.call()` / a callback
            if kind == "spec" and "index out of bounds: the len is 0 but the index is 0" in r["status"] and "print" in c["call"]:
                known_hits["D22-print-no-args"] = known_hits.get("D22-print-no-args", 0) + 1
                continue
            if kind not in first:
                first[kind] = (c, r, m, msg)
    ctx.cov["traces_validated_against_impl"] += len(run)
    ctx.stream_stat("matrix" + SUF(), run=len(run), skipped_known_signature=skipped_known, model_accepts=verdicts["ok"],
                    model_rejects_len=verdicts["len"], model_rejects_type=verdicts["type"], outcomes=outcomes,
                    natives_covered=len(per_native), min_cases_per_native=min(per_native.values()) if per_native else 0,
                    known_signature_hits=known_hits)
    if run:
        c0 = run[len(run) // 3]
        ctx.sample({"matrix_case": c0["call"], "model": ml[len(run) // 3], "status": res[len(run) // 3]["status"],
                    "stdout": res[len(run) // 3]["stdout"][-120:]})
    ok = True
    for kind in (("spec",) if "spec" in first else ("tie",)):
        if kind in first:
            c, r, m, msg = first[kind]
            payload = {"engine": "matrix", "kind": "implementation-vs-spec" if kind == "spec" else "model-vs-implementation",
                       "what": msg, "native": c["native"], "call": c["call"], "program": program(c["imp"], c["call"]),
                       "sigline": c["sigline"], "model": m, "status": r["status"], "stdout": r["stdout"][-400:],
                       "stderr": r["stderr"][-400:], "seed": ctx.seed}
            if kind == "spec":
                ctx.cov["impl_vs_spec_failures"] += 1
                ctx.violation("matrix_spec" + SUF(), payload)
            else:
                ctx.cov["model_vs_impl_disagreements"] += 1
                payload["broken"] = "correspondence stream matrix (Model/Signature.lean checkIfValidCall vs call_native)"
                ctx.violation("matrix_tie", payload, no_input=True)
            ok = False
    return ok



# ---------------------------------------------------------------------------------------------
# deep stream: calls the signature accepts, with edge values of the right kinds (body-level panics)

LONG = "x" * 300
POOL = {
    "Number": ["0", "1", "-1", "2", "3", "0.5", "-0.5", "255", "256", "65536", "1e10", "1e300", "-1e300", "(0/0)", "(1/0)", "-(1/0)",
               "4294967296", "9007199254740993", "-0", "1e-300", "2147483648", "-2147483649"],
    "String": ['""', '"a"', '"héllo wörld"', '"日本語"', '"a,b,,c"', '" pad "', '"/nonexistent_c16/x"', '"("', '"[a-"', '"\\\\"',
               '"1"', '"1.5"', '"-"', '"NaN"', '"inf"', '"1e999"', '"0x10"', '"%s{}"', '"' + LONG + '"', '"a+"', '"(a)(b)?"', '"."', '"i"', '"gimsx"'],
    "Bool": ["true", "false"],
    "Callable": ["ffun", "fclo", "fmeth", "|| 1", "|a, b| a", "|a, b, c| a", "|x| { raise Error(\"cb\"); }", "|x| nil", "|x| \"s\"", "|x| x",
                 "print", "clock", "|x| [][5]", "|a, b| a - b", "|a, b| \"s\"", "|a, b| (0/0)", "|x| true", "|x| false", "|a, b| b - a",
                 "|x| [x].iter().map(|y| y).list()", "Number.parse", "K().m", "[1].push", "\"s\".len"],
    "Object": ["nil", "true", "0", "-1", "0.5", "(0/0)", "(1/0)", '""', '"s"', "[]", "[1, [2, [3]]]", "{}", "{1: {2: 3}}", "(1, 2)",
               "fclo", "ffun", "fmeth", "print", "K", "K()", "[1, 2].iter()", "chan(2)", "chan()", 'Error("x")', "List", "Error", "S()", "\"日本\"",
               "[nil, true, \"s\"]", "(1, (2, 3))", "{nil: nil, true: 1, 0.5: 2}"],
}
DEEP_PRELUDE = PRELUDE + "class S { str() { return \"an S\"; } equals(o) { return true; } }\n"
DEEP_RECEIVERS = {
    "String": ['"héllo wörld"', '""', '"日本語"', '"a,b,,c"', '" pad "', '"' + LONG + '"'],
    "List": ["[1, 2, 3]", "[]", "[[1], [2]]", '["b", "a"]', "[3, 1, 2]", "[nil, true, \"s\", K()]", "[(0/0), 1, (1/0)]", "[S(), S()]"],
    "Map": ["{1: 2}", "{}", '{"a": [1]}', "{nil: nil, true: 1, 0.5: 2}", "{(0/0): 1}", "{S(): S()}"],
    "Tuple": ["(1, 2)", "(1, (2, 3))", '("a", nil, true)', "(S(), 1)"],
    "Iter": ["[1, 2, 3].iter()", "[].iter()", '"abc".iter()', "{1: 2}.iter()", "(1, 2).iter()", "3.times()", "[1, 2].iter().map(|x| x)",
             "[1, 2].iter().map(|x| [][x])", "[1, 2].iter().zip([3].iter())", "[1].iter().chain([2].iter())", "0.times()", "1.until(10, 3)",
             "[1, 2, 3].iter().filter(|x| x > 1)", "[1, 2, 3].iter().take(2)", "[1, 2, 3].iter().skip(1)", '"héllo".iter()'],
    "Number": ["3", "0", "-1", "0.5", "(0/0)", "(1/0)", "-(1/0)", "1e300", "255", "-0", "1e10"],
    "Channel": ["chan(2)", "chan()", "chan(1)"],
    "Closure": ["fclo"], "Fun": ["ffun", "|| 1", "|a, b, c| a"], "Method": ["fmeth", "[1].push", "\"s\".len", "K().init"],
    "Native": ["clock", "Number.parse", "Number.cmp"], "Class": ["K", "List", "Error", "S", "Object", "Class"],
    "Object": ["K()", "S()", "1", '"s"', "nil", "[1]", "K", "true", "fclo", "(1, 2)", "chan(1)", "[1].iter()", 'Error("x")'],
    "Error": ['Error("e")', 'ValueError("v")'], "RegExp": ['RegExp("a+")', 'RegExp("(a)(b)?")', 'RegExp("")', 'RegExp("日")'],
    "Bool": ["true", "false"], "Nil": ["nil"],
    "Stdout": ["stdout"], "Stderr": ["stderr"], "Stdin": ["stdin"],
}


def deep_cases(ctx, rows, rng):
    per = 600 if SEARCH else ctx.n(60, 3000)
    out = []
    for row in rows:
        if row["owner"] == "Stdin":
            continue  # harness mock
        imp, pre = IMPORTS.get(row["module"] or "", (None, None))
        lo, hi = arity_counts(row)
        pools = [POOL[pk] for _, pk in row["params"]]
        counts = list(range(lo, (hi if hi is not None else lo + 3) + 1))
        if row["struct"] == "Print":
            counts = [c for c in counts if c > 0]
        if row["owner"] == "":
            heads = [pre + row["name"] + "(%s)"]
        elif row["static"] or not row["is_method"]:
            heads = ["%s.%s(%%s)" % (row["owner"], row["name"])]
        else:
            heads = []
            for rx in DEEP_RECEIVERS.get(row["owner"], []):
                if row["name"] == "[]":
                    heads.append("(%s)[%%s]" % rx)
                elif row["name"] == "[]=":
                    heads.append("(%s)[%%s] = %%s" % rx)
                else:
                    heads.append("(%s).%s(%%s)" % (rx, row["name"]))
            if row["struct"] in CONSTRUCTORS:
                heads.append(CONSTRUCTORS[row["struct"]] + "(%s)")
        if row["struct"] == "Exit":
            pools = [[v for v in POOL["Number"]]]
        seen = set()
        combos = []
        for c in counts:
            ps = [pools[min(i, len(pools) - 1)] for i in range(c)] if pools else []
            total = 1
            for p_ in ps:
                total *= len(p_)
            if total * len(heads) <= per:
                for h in heads:
                    for cb in itertools.product(*ps):
                        combos.append((h, list(cb)))
            else:
                for _ in range(per):
                    combos.append((rng.choice(heads), [rng.choice(p_) for p_ in ps]))
        for h, cb in combos:
            if row["name"] == "[]=":
                if len(cb) != 2:
                    continue
                call = h % (cb[1], cb[0])
            else:
                call = h % ", ".join(cb)
            # signatures of known findings: D24 rows need an iterator / class there
            if row["struct"] in ("ListCollect", "TupleCollect") and not re.search(r"iter\(\)|times\(\)", cb[0] if cb else ""):
                continue
            if row["struct"] in ("IterZip", "IterChain") and any(not re.search(r"iter\(\)$|times\(\)$", a) for a in cb):
                continue
            if row["struct"] == "ObjectIsA" and (not cb or cb[0] not in ("K", "List", "Error")):
                continue
            if "print" in cb and row["struct"] in ("ClosureCall", "FunCall", "MethodCall", "NativeCall"):
                continue
            if call in seen:
                continue
            seen.add(call)
            out.append((row["struct"], imp, call))
    return out


def deep_program(imp, call):
    return (imp + "\n" + DEEP_PRELUDE + "fn t_() { let r = %s; }\n" % call +
            "try { t_(); print(\"RES ok\"); } catch e: Error { print(\"RES err ${e.cls().name()}\"); }\n")


def deep_stream(ctx, rows, rng):
    cases = deep_cases(ctx, rows, rng)
    res = run_programs([deep_program(imp, call) for _, imp, call in cases], timeout=240)
    outcomes, errs = {}, {}
    bad = None
    per_native = {}
    for (st, imp, call), r in zip(cases, res):
        ctx.count_case(["deep", call], nontrivial=True)
        k = r["status"].split(":")[0]
        outcomes[k] = outcomes.get(k, 0) + 1
        per_native[st] = per_native.get(st, 0) + 1
        m = re.search(r"RES err (\w+)", r["stdout"])
        if m:
            errs[m.group(1)] = errs.get(m.group(1), 0) + 1
        if CRASH.match(r["status"]) and bad is None:
            bad = (st, imp, call, r)
    ctx.cov["traces_validated_against_impl"] += len(cases)
    ctx.stream_stat("deep" + SUF(), cases=len(cases), outcomes=outcomes, error_classes=errs, natives_covered=len(per_native))
    if cases:
        i = len(cases) // 2
        ctx.sample({"deep_case": cases[i][2], "status": res[i]["status"], "stdout": res[i]["stdout"][-60:]})
    if bad:
        st, imp, call, r = bad
        ctx.cov["impl_vs_spec_failures"] += 1
        ctx.violation("deep_spec" + SUF(), {"engine": "deep", "kind": "implementation-vs-spec", "what": "host crash / hang: %s" % r["status"][:200],
                                            "native": st, "call": call, "program": deep_program(imp, call), "status": r["status"],
                                            "stdout": r["stdout"][-300:], "stderr": r["stderr"][-300:], "seed": ctx.seed})
        return False
    return True


# ---------------------------------------------------------------------------------------------
# state stream: short random histories over shared containers / iterators / channels

ST_VALUES = ["1", "nil", '"s"', "0.5", "true", "[9]", "(1, 2)", "K()", "fclo"]
ST_INDEX = ["0", "1", "-1", "2", "5", "0.5", "-5", "1e10", "(0/0)"]
ST_KEYS = ["1", '"a"', "nil", "true", "0.5", "(0/0)", '"zz"', "7"]
ST_CMP = ["|a, b| a - b", "|a, b| b - a", "|a, b| 0", "|a, b| { if l.len() < 60 { l.push(1); } return a - b; }", "|a, b| { l.clear(); return 0; }", "|a, b| nil"]


def st_statement(rng, st, depth=0, in_native=False):
    """one statement; `st` tracks whether a map iterator is live (signature of DC16.7: no map growth then);
    inside loops list growth is bounded (termination), inside native callbacks nothing blocks (signature of D6)"""
    x = st_statement_(rng, st, depth, in_native)
    if depth > 0:
        x = re.sub(r"^(l\.push\(.*\);|l\.insert\(.*\);)$", r"if l.len() < 60 { \1 }", x)
    return x


def st_statement_(rng, st, depth, in_native):
    V = lambda: rng.choice(ST_VALUES)
    I = lambda: rng.choice(ST_INDEX)
    K = lambda: rng.choice(ST_KEYS)
    r = rng.random()
    if r < 0.30:
        return rng.choice([
            lambda: "l.push(%s);" % V(), lambda: "l.pop();", lambda: "l.clear();", lambda: "l.insert(%s, %s);" % (I(), V()),
            lambda: "l.remove(%s);" % I(), lambda: "l[%s] = %s;" % (I(), V()), lambda: "let q = l[%s];" % I(),
            lambda: "let q = l.slice(%s, %s);" % (I(), I()), lambda: "l.sort(%s);" % rng.choice(ST_CMP), lambda: "let q = l.rev();",
            lambda: "let q = l.has(%s);" % V(), lambda: "let q = l.index(%s);" % V(), lambda: "let q = l.str();",
            lambda: "l.push(1, 2, 3, 4, 5, 6, 7, 8, 9, 10, 11, 12, 13, 14, 15, 16, 17, 18, 19, 20);",
        ])()
    if r < 0.45:
        return rng.choice([
            lambda: "il.next();", lambda: "let q = il.current();", lambda: "il = l.iter();", lambda: "let q = il.len();",
            lambda: "let q = il.list();", lambda: "let q = il.first();", lambda: "let q = il.last();",
            lambda: "il = l.iter().map(|x| x);", lambda: "il = l.iter().filter(|x| true).take(2);",
            lambda: "il = il.zip(l.iter());", lambda: "il = il.chain(l.iter(), \"ab\".iter());", lambda: "il = [4, 5, 6].iter().skip(1);",
            lambda: "let q = il.reduce(0, |a, x| a);", lambda: "let q = List.collect(il);", lambda: "let q = Tuple.collect(il);",
            lambda: "il = t.iter();", lambda: "il = s.iter();", lambda: "il = 3.times();", lambda: "let q = il.str();",
        ])()
    if r < 0.65:
        grow = not st["map_iter_live"]
        opts = [lambda: "let q = m[%s];" % K(), lambda: "let q = m.get(%s);" % K(), lambda: "m.remove(%s);" % K(),
                lambda: "let q = m.has(%s);" % K(), lambda: "let q = m.len();", lambda: "let q = m.str();",
                lambda: "im.next();", lambda: "let q = im.current();"]
        if grow:
            opts += [lambda: "m[%s] = %s;" % (K(), V()), lambda: "m.set(%s, %s);" % (K(), V()), lambda: "m.insert(%s, %s);" % (K(), V()),
                     lambda: "let j = 0; while j < 40 { m[j + 100] = j; j = j + 1; }"]
        ch = rng.choice(opts + [lambda: "MAPITER"])()
        if ch == "MAPITER":
            st["map_iter_live"] = True
            return "im = m.iter();"
        return ch
    if r < 0.75:
        if in_native:
            return rng.choice([lambda: "c.close();", lambda: "let q = c.len();", lambda: "let q = c.capacity();"])()
        return rng.choice([lambda: "c <- %s;" % V(), lambda: "let q = <- c;", lambda: "c.close();", lambda: "let q = c.len();",
                           lambda: "let q = c.capacity();", lambda: "c = chan(1);", lambda: "c = chan();"])()
    if r < 0.85:
        return rng.choice([lambda: "let q = s[%s];" % I(), lambda: "let q = s.slice(%s, %s);" % (I(), I()), lambda: "let q = s.split(\"l\");",
                           lambda: "let q = t[%s];" % I(), lambda: "let q = t.slice(%s, %s);" % (I(), I()), lambda: "let q = s.has(\"é\");",
                           lambda: "let q = \"${l} ${m} ${t} ${c} ${il}\";"])()
    if depth < 2:
        k = rng.randrange(6)
        inner = st_statement(rng, st, depth + 1, in_native or k in (1, 4, 5))
        grows_map = re.search(r"m\[.*\] =|m\.set|m\.insert", inner)
        return [
            lambda: "for x in l { %s }" % inner, lambda: "l.iter().each(|x| { %s });" % inner,
            lambda: "let n = 0; for x in l { if n < 30 { %s } n = n + 1; }" % inner,
            lambda: ("for kv in m { %s }" if not grows_map else "for x in t { %s }") % inner,
            lambda: "let q = l.iter().map(|x| { %s return x; }).list();" % inner,
            lambda: "3.times().each(|i| { %s });" % inner,
        ][k]()
    return "let q = l.len();"


def state_program(stmts):
    body = "\n".join("  try { (|| { %s })(); } catch e: Error { }" % x for x in stmts)
    return (PRELUDE + "fn t_() {\n  let l = [1, 2, 3]; let m = {1: 2, \"a\": 3}; let s = \"héllo\"; let t = (1, 2); let c = chan(2);\n"
            "  let il = l.iter(); let im = nil; im = [].iter();\n" + body + "\n}\n"
            "try { t_(); print(\"RES ok\"); } catch e: Error { print(\"RES err ${e.cls().name()}\"); }\n")


def state_stream(ctx, rng):
    progs = []
    for _ in range(15000 if SEARCH else ctx.n(1500, 120000)):
        st = {"map_iter_live": False}
        stmts = []
        for _ in range(rng.randint(3, 9)):
            x = st_statement(rng, st)
            if "for kv in m" in x:
                st["map_iter_live"] = False   # the loop's iterator dies with the loop; growth inside was excluded
            stmts.append(x)
        progs.append(stmts)
    res = run_programs([state_program(p_) for p_ in progs], timeout=300)
    outcomes = {}
    bad = None
    for p_, r in zip(progs, res):
        ctx.count_case(["state"] + p_, nontrivial=True)
        k = r["status"].split(":")[0]
        outcomes[k] = outcomes.get(k, 0) + 1
        if CRASH.match(r["status"]) and bad is None:
            bad = (p_, r)
    ctx.cov["traces_validated_against_impl"] += len(progs)
    ctx.stream_stat("state" + SUF(), programs=len(progs), statements=sum(len(p_) for p_ in progs), outcomes=outcomes)
    if progs:
        ctx.sample({"state_case": progs[0], "status": res[0]["status"]})
    if bad:
        p_, r = bad

        def fails(q):
            return bool(CRASH.match(run_programs([state_program(q)], timeout=120)[0]["status"]))
        cur = list(p_)
        changed = True
        while changed and len(cur) > 1:
            changed = False
            for i in range(len(cur)):
                cand = cur[:i] + cur[i + 1:]
                if fails(cand):
                    cur, changed = cand, True
                    break
        r2 = run_programs([state_program(cur)], timeout=120)[0]
        ctx.cov["impl_vs_spec_failures"] += 1
        ctx.violation("state_spec" + SUF(), {"engine": "state", "kind": "implementation-vs-spec", "what": "host crash / hang: %s" % r2["status"][:200],
                                             "statements": cur, "program": state_program(cur), "status": r2["status"],
                                             "stdout": r2["stdout"][-300:], "stderr": r2["stderr"][-300:], "seed": ctx.seed})
        return False
    return True

# ---------------------------------------------------------------------------------------------
# sig stream

PKINDS = ["object", "bool", "number", "string", "callable"]
VK = ["nil", "bool", "number", "string", "list", "map", "tuple", "closure", "fun", "native", "method", "class",
      "instance", "enumerator", "channel"]
SPEC_ALLOWED = {
    "object": set(VK), "bool": {"bool"}, "number": {"number"}, "string": {"string"},
    "callable": {"closure", "fun", "native", "method"},
}


def spec_sig(arity, params, is_method, args):
    """The Spec of the signature check, stated independently of the model: a call may be accepted only if the
    count is inside the arity and every argument is of a kind its parameter allows."""
    if is_method:
        params = ["object"] + params
        arity = (arity[0],) + tuple(x + 1 for x in arity[1:])
    n = len(args)
    if arity[0] == "F" and n != arity[1]:
        return False
    if arity[0] == "V" and n < arity[1]:
        return False
    if arity[0] == "D" and not (arity[1] <= n <= arity[2]):
        return False
    for i, a in enumerate(args):
        p = params[min(i, len(params) - 1)] if arity[0] == "V" else params[i]
        if a not in SPEC_ALLOWED[p]:
            return False
    return True


def gen_sig_case(rng):
    t = rng.choice("FFVVDD")
    if t == "F":
        n = rng.randint(0, 4)
        arity, np = ("F", n), n
    elif t == "V":
        n = rng.randint(0, 3)
        arity, np = ("V", n), n + 1
    else:
        lo = rng.randint(0, 3)
        hi = lo + rng.randint(0, 3)
        arity, np = ("D", lo, hi), hi
    if rng.random() < 0.03:
        np = max(0, np + rng.choice([-1, 1]))   # ill-formed: to_sig asserts
    params = [rng.choice(PKINDS) for _ in range(np)]
    is_method = rng.random() < 0.5
    target = {"F": arity[1], "V": arity[1] + rng.randint(0, 3), "D": rng.randint(arity[1], arity[-1])}[t] + (1 if is_method else 0)
    r = rng.random()
    if r < 0.2:
        target = max(1 if is_method else 0, target + rng.choice([-2, -1, 1, 2]))
    args = []
    full = (["object"] if is_method else []) + params
    for i in range(target):
        p = full[min(i, len(full) - 1)] if full else "object"
        if rng.random() < 0.75:
            args.append(rng.choice(sorted(SPEC_ALLOWED[p])))
        else:
            args.append(rng.choice(VK))
    return arity, params, is_method, args


def fmt_sig_case(c):
    arity, params, is_method, args = c
    return "%s ; %s ; %s ; %s" % (" ".join(str(x) for x in arity), " ".join(params), "m" if is_method else "f", " ".join(args))


def sig_exhaustive():
    """all signatures with ≤ 2 declared parameters × all argument lists of length ≤ 2 over a kind per class"""
    kinds = ["nil", "bool", "number", "string", "fun", "list", "instance"]
    out = []
    for arity in [("F", 0), ("F", 1), ("F", 2), ("V", 0), ("V", 1), ("D", 0, 1), ("D", 0, 2), ("D", 1, 2), ("D", 2, 2)]:
        np = {"F": arity[1], "V": arity[1] + 1, "D": arity[-1]}[arity[0]]
        for params in itertools.product(PKINDS, repeat=np):
            for n in range(0, 4):
                if np == 2 and n == 3:
                    combos = [("number", "string", "fun"), ("nil", "nil", "nil"), ("string", "number", "number")]
                else:
                    combos = itertools.product(kinds, repeat=n)
                for args in combos:
                    out.append((arity, list(params), False, list(args)))
                    if n >= 1:
                        out.append((arity, list(params), True, list(args)))
    return out


def sig_stream(ctx, rng):
    cases = sig_exhaustive() + [gen_sig_case(rng) for _ in range(ctx.n(20000, 400000))]
    lines = [fmt_sig_case(c) for c in cases]
    mo = model_lines(lines)
    rc, io, err = common.run_lines([common.harness_path(bin="vh_sig")], lines, timeout=900)
    ctx.cov["traces_validated_against_impl"] += len(lines)
    acc = sum(1 for l in io if l.startswith("civ=ok"))
    ctx.stream_stat("sig", cases=len(lines), accepted=acc, rejected=len(lines) - acc,
                    ill_formed=sum(1 for l in io if l.startswith("civ=panic")))
    spec_bad = tie_bad = None
    for i, c in enumerate(cases):
        a = io[i] if i < len(io) else "<missing>"
        m = mo[i] if i < len(mo) else "<missing>"
        ctx.count_case(lines[i], nontrivial=not a.startswith("civ=panic"))
        if a.startswith("civ=panic"):
            if m != a and tie_bad is None:
                tie_bad = i
            continue
        ok_civ = a.startswith("civ=ok")
        ok_sig = " sig=ok " in a
        want = spec_sig(*c)
        if (ok_civ and not want) or (ok_sig and not want):
            if spec_bad is None:
                spec_bad = (i, "the signature check accepts an argument list the Spec forbids")
        elif (not ok_civ or not ok_sig) and want:
            if spec_bad is None:
                spec_bad = (i, "the signature check rejects an argument list the Spec allows")
        if a != m and tie_bad is None:
            tie_bad = i
    ctx.sample({"sig_case": lines[len(lines) // 2], "impl": io[len(lines) // 2] if len(io) > len(lines) // 2 else None})
    if spec_bad:
        i, msg = spec_bad
        small = shrink_sig(cases[i], lambda c: sig_spec_fails(c))
        ctx.cov["impl_vs_spec_failures"] += 1
        ctx.violation("sig_spec", {"engine": "sig", "kind": "implementation-vs-spec", "what": msg, "input": fmt_sig_case(small),
                                   "impl": impl_sig(fmt_sig_case(small)), "model": model_lines([fmt_sig_case(small)])[0],
                                   "spec_allows": spec_sig(*small), "seed": ctx.seed})
        return False
    if tie_bad is not None:
        small = shrink_sig(cases[tie_bad], lambda c: impl_sig(fmt_sig_case(c)) != model_lines([fmt_sig_case(c)])[0])
        ctx.cov["model_vs_impl_disagreements"] += 1
        ctx.violation("sig_tie", {"engine": "sig", "kind": "model-vs-implementation",
                                  "broken": "correspondence stream sig (Model/Signature.lean vs check_if_valid_call / NativeSignature::check / Arity::check)",
                                  "input": fmt_sig_case(small), "impl": impl_sig(fmt_sig_case(small)),
                                  "model": model_lines([fmt_sig_case(small)])[0]}, no_input=True)
        return False
    return True


def impl_sig(line):
    rc, io, err = common.run_lines([common.harness_path(bin="vh_sig")], [line])
    return io[0] if io else "<none>"


def sig_spec_fails(c):
    a = impl_sig(fmt_sig_case(c))
    if a.startswith("civ=panic") or a == "bad-op":
        return False
    want = spec_sig(*c)
    return (a.startswith("civ=ok") != want) or ((" sig=ok " in a) != want)


def shrink_sig(case, fails):
    arity, params, is_method, args = case
    changed = True
    while changed:
        changed = False
        for i in range(len(args)):
            cand = (arity, params, is_method, args[:i] + args[i + 1:])
            try:
                if fails(cand):
                    args = cand[3]
                    changed = True
                    break
            except Exception:
                pass
    return (arity, params, is_method, args)


# ---------------------------------------------------------------------------------------------
# frames stream: recursion shapes

# (name, class/fn definitions with {W} wrappers, frame ops of one cycle after the entry call)
# ops: c = guarded Laythe frame (call_closure / call), n = native stub frame pushed, l = stub popped
SHAPES = [
    ("closure", "fn f(n) { return f(n + 1); }", "f(0)", "c"),
    ("method", "class A { m(n) { return self.m(n + 1); } }", "A().m(0)", "c"),
    ("init", "class A { init(n) { self.x = A(n + 1); } }", "A(0)", "c"),
    ("mutual", "fn f(n) { return g(n + 1); } fn g(n) { return f(n + 1); }", "f(0)", "c c"),
    ("lambda", "let h = nil; h = |n| h(n + 1);", "h(0)", "c"),
    ("each", "fn f(n) { [n].iter().each(|x| f(x + 1)); }", "f(0)", "c n c"),
    ("map_list", "fn f(n) { return [n].iter().map(|x| f(x + 1)).list(); }", "f(0)", "c n l c"),
    ("filter_len", "fn f(n) { return [n].iter().filter(|x| f(x + 1)).len(); }", "f(0)", "c n l c"),
    ("reduce", "fn f(n) { return [n].iter().reduce(0, |a, x| f(x + 1)); }", "f(0)", "c n c"),
    ("into", "fn f(n) { return [n].iter().into(|it| f(n + 1)); }", "f(0)", "c n c"),
    ("all", "fn f(n) { return [n].iter().all(|x| f(x + 1)); }", "f(0)", "c n c"),
    ("fun_call", "fn f(n) { return f.call(n + 1); }", "f(0)", "c n"),
    ("method_call", "class A { m(n) { return self.m.call(n + 1); } }", "A().m(0)", "c n"),
    ("str_print", "class A { str() { print(self); return \"a\"; } }", "print(A())", "n c"),
    ("list_str", "class A { str() { return [self].str(); } }", "A().str()", "c n"),
    ("for_in", "fn f(n) { for x in [n] { f(x + 1); } }", "f(0)", "c"),
    ("collect", "fn f(n) { return List.collect([n].iter().map(|x| f(x + 1))); }", "f(0)", "c n l c"),
]


def frames_program(shape, wrappers):
    name, defs, entry, ops = shape
    lines = [defs]
    call = entry
    for i in range(wrappers):
        lines.append("fn w%d() { return %s; }" % (i, call if i == 0 else "w%d()" % (i - 1)))
    if wrappers:
        call = "w%d()" % (wrappers - 1)
    lines.append("try { %s; print(\"RES returned\"); } catch e: Error { print(\"RES caught ${e.message}\"); }" % call)
    lines.append("print(\"RES alive\");")
    return "\n".join(lines) + "\n"


def frames_model_line(shape, wrappers):
    # the script is frame 1; each wrapper adds one guarded frame; `print(A())`-style entries start with the cycle
    return "%d ; %s" % (1 + wrappers, shape[3])


def frames_stream(ctx, rows):
    stack_by_name = {}
    for r in rows:
        stack_by_name.setdefault(r["name"], set()).add(r["stack"])
    cases = []
    for sh in SHAPES:
        for w in range(ctx.n(4, 8)):
            cases.append((sh, w))
    ml = model_lines([frames_model_line(sh, w) for sh, w in cases], engine="frames")
    run, idx = [], []
    predicted_bypass = 0
    for i, ((sh, w), m) in enumerate(zip(cases, ml)):
        if m.startswith("overflow"):
            run.append(frames_program(sh, w))
            idx.append(i)
        else:
            predicted_bypass += 1   # signature of D25 (frame-limit bypass): not run here, the witness is replayed
    res = run_programs(run, timeout=300)
    bad = None
    tie = None
    for i, r in zip(idx, res):
        sh, w = cases[i]
        ctx.count_case(["frames", sh[0], w], nontrivial=True)
        if CRASH.match(r["status"]):
            if bad is None:
                bad = (i, r, "unbounded recursion ended in a host crash / hang instead of the catchable error: %s" % r["status"][:160])
        elif "RES caught Stack overflow." not in r["stdout"] or "RES alive" not in r["stdout"]:
            if tie is None:
                tie = (i, r, "the frame model predicts a catchable `Stack overflow.`; the program printed %r" % r["stdout"][-160:])
    ctx.cov["traces_validated_against_impl"] += len(run)
    ctx.stream_stat("frames" + SUF(), shapes=len(SHAPES), cases=len(cases), run=len(run), predicted_guard_bypass=predicted_bypass)
    # the other direction of the frame tie (thorough tier): cases the model predicts to bypass the guard do crash
    if not ctx.quick() and not RELEASE:
        byp = [(sh, w) for (sh, w), m in zip(cases, ml) if not m.startswith("overflow")][:4]
        confirmed = 0
        for sh, w in byp:
            r = run_programs([frames_program(sh, w)], timeout=180)[0]
            if CRASH.match(r["status"]):
                confirmed += 1
            elif tie is None:
                tie = (cases.index((sh, w)), r, "the frame model predicts the guard bypass (unbounded recursion); the program printed %r" % r["stdout"][-160:])
        ctx.stream_stat("frames", bypass_cases_run=len(byp), bypass_confirmed=confirmed)
    if run:
        ctx.sample({"frames_case": run[len(run) // 2][:200], "model": ml[idx[len(run) // 2]], "stdout": res[len(run) // 2]["stdout"][-80:]})
    ok = True
    if bad:
        i, r, msg = bad
        sh, w = cases[i]
        # shrink: fewest wrappers with the same shape that still crashes
        for w2 in range(w):
            if model_lines([frames_model_line(sh, w2)], engine="frames")[0].startswith("overflow"):
                r2 = run_programs([frames_program(sh, w2)], timeout=300)[0]
                if CRASH.match(r2["status"]):
                    w, r = w2, r2
                    break
        ctx.cov["impl_vs_spec_failures"] += 1
        ctx.violation("frames_spec" + SUF(), {"engine": "frames", "kind": "implementation-vs-spec", "what": msg, "shape": sh[0], "wrappers": w,
                                      "program": frames_program(sh, w), "model": ml[i], "status": r["status"], "stdout": r["stdout"][-300:],
                                      "seed": ctx.seed})
        ok = False
    if tie:
        i, r, msg = tie
        sh, w = cases[i]
        ctx.cov["model_vs_impl_disagreements"] += 1
        ctx.violation("frames_tie", {"engine": "frames", "kind": "model-vs-implementation", "what": msg, "shape": sh[0], "wrappers": w,
                                     "broken": "correspondence stream frames (Model/Signature.lean frameStep vs call_closure/call/call_native)",
                                     "program": frames_program(sh, w), "model": ml[i], "status": r["status"], "stdout": r["stdout"][-300:]},
                      no_input=bad is not None)
        ok = False
    return ok


# ---------------------------------------------------------------------------------------------
# misc stream: fixed shapes over every value kind

NOT_CALLABLE = {"nil", "bool", "number", "string", "list", "map", "tuple", "instance", "enumerator", "channel"}


def misc_cases(ctx):
    """(name, source, expectation) — expectation is a regex the stdout/stderr must match, or None (= only `no crash`)"""
    out = []
    wrap = lambda body: (PRELUDE + "fn t_() { %s }\n" % body +
                         "try { t_(); print(\"RES ok\"); } catch e: Error { print(\"RES err ${e.cls().name()} ${e.message}\"); }\n")
    for ex, k in VALUES:
        for nargs in (0, 1, 2):
            exp = r"RES err RuntimeError \w+( metaClass)? is not callable\." if k in NOT_CALLABLE else None
            if k == "native" and nargs == 0:
                continue   # print() — signature of D22
            out.append(("call_%s_%d" % (k, nargs), wrap("let v = %s; v(%s);" % (ex, ", ".join(["1"] * nargs))), exp))
        exp = None if k == "class" else r"RES err RuntimeError Superclass must be a class\."
        out.append(("inherit_" + k, wrap("let v = %s; class A : v {} let a = A();" % ex), exp))
        out.append(("raise_" + k, wrap("raise %s;" % ex), r"RES err RuntimeError Can only raise an instance of Error"))
        exp = None if k == "instance" else r"RES err RuntimeError Only instances have settable fields\."
        out.append(("setprop_" + k, wrap("let v = %s; v.zz = 1;" % ex), exp))
        out.append(("getprop_" + k, wrap("let v = %s; let q = v.zz;" % ex), None))
        out.append(("invoke_" + k, wrap("let v = %s; v.zz();" % ex), None))
        out.append(("chan_" + k, wrap("let v = %s; let c = chan(v);" % ex), None if k == "number" else r"RES err TypeError"))
        out.append(("send_" + k, wrap("let v = %s; v <- 1;" % ex), None))
        out.append(("recv_" + k, wrap("let v = %s; let q = <- v;" % ex) if k != "channel" else wrap("let v = chan(1); v <- 1; let q = <- v;"), None))
        out.append(("iter_" + k, wrap("let v = %s; for q in v { }" % ex) if k not in ("channel",) else wrap("let v = [chan(1)]; for q in v { }"), None))
        out.append(("index_" + k, wrap("let v = %s; let q = v[0];" % ex), None))
        out.append(("neg_" + k, wrap("let v = %s; let q = -v;" % ex), None))
        out.append(("add_" + k, wrap("let v = %s; let q = v + v;" % ex), None))
        out.append(("less_" + k, wrap("let v = %s; let q = v < 1;" % ex), None))
        out.append(("interp_" + k, wrap("let v = %s; let q = \"a ${v} b\";" % ex), None))
        out.append(("launch_" + k, wrap("let v = %s; launch v(%s);" % (ex, "1" if k == "native" else "")), None))
    # channel capacities (the upper end is a known finding: see D26)
    for cap in ["0", "1", "2", "255", "256", "65536", "-1", "0.5", "1.5", "(0/0)", "(1/0)", "-(1/0)", "-0"]:
        exp = r"RES ok" if cap in ("1", "2", "255", "256", "65536") else r"RES err TypeError buffer must be an positive integer\."
        out.append(("chan_cap_" + cap, wrap("let c = chan(%s); c <- 1;" % cap), exp))
    # errors raised while an error is being handled
    E = [
        ("raise_in_catch", 'try { raise Error("a"); } catch e: Error { raise Error("b", e); }', r"Error: b"),
        ("raise_in_catch_caught", 'try { try { raise Error("a"); } catch e: Error { raise Error("b"); } } catch e: Error { print("RES " + e.message); }', r"RES b"),
        ("error_in_error_init", 'class E : Error { init(m) { raise Error("in init"); } } try { raise E("x"); } catch e: Error { print("RES " + e.message); }', r"RES in init"),
        ("native_error_in_catch", 'try { [][1]; } catch e: Error { [][2]; }', r"IndexError"),
        ("native_error_in_callback_in_catch", 'try { [][1]; } catch e: Error { try { [1].iter().each(|x| [][x]); } catch f: Error { print("RES " + f.cls().name()); } }', r"RES IndexError"),
        ("error_in_str_of_uncaught", 'class E : Error { str() { raise Error("in str"); } } raise E("x");', None),
        ("uncaught_in_callback", '[1].iter().each(|x| [][x]);', r"IndexError"),
        ("uncaught_in_launch", 'fn f() { raise Error("in fiber"); } launch f(); let c = chan(); <- c;', None),
        ("catch_rethrow_loop", 'let i = 0; while i < 50 { try { try { raise Error("a"); } catch e: Error { raise e; } } catch e: Error { i = i + 1; } } print("RES " + i.str());', r"RES 50"),
        ("deep_try", "fn f(n) { try { if n == 0 { raise Error(\"bottom\"); } f(n - 1); } catch e: ValueError { print(\"no\"); } } try { f(100); } catch e: Error { print(\"RES \" + e.message); }", r"RES bottom"),
        ("error_inner_chain", 'let e = Error("a"); let f = Error("b", e); let g = Error("c", f); raise g;', r"Error: c"),
        ("raise_caught_twice", 'let e = Error("a"); try { raise e; } catch x: Error { } try { raise e; } catch x: Error { print("RES ok"); }', r"RES ok"),
        ("stack_overflow_in_catch", 'fn f(n) { return f(n + 1); } try { raise Error("a"); } catch e: Error { try { f(0); } catch g: Error { print("RES " + g.message); } }', r"RES Stack overflow\."),
        ("overflow_twice", 'fn f(n) { return f(n + 1); } try { f(0); } catch e: Error { } try { f(0); } catch e: Error { print("RES " + e.message); }', r"RES Stack overflow\."),
        ("arity_error_user_fn", 'fn f(a) { } try { f(); } catch e: Error { print("RES " + e.cls().name()); }', r"RES RuntimeError"),
        ("arity_error_init", 'class A { init(a) { } } try { A(); } catch e: Error { print("RES " + e.cls().name()); }', r"RES RuntimeError"),
        ("class_no_init_args", 'class A { } try { A(1); } catch e: Error { print("RES " + e.message); }', r"RES Expected 0 arguments but got 1"),
        ("super_missing", 'class A { } class B : A { m() { return super.zz(); } } try { B().m(); } catch e: Error { print("RES " + e.cls().name()); }', r"RES \w+Error"),
        ("import_missing", 'import std.nope;', r"ImportError|Error"),
        ("assert_false", 'assert(false);', r"AssertError|Error"),
        ("exit_in_try", 'try { exit(7); } catch e: Error { print("no"); }', None),
        ("deadlock", 'let c = chan(); <- c;', r"deadlock"),
        ("deadlock_in_try", 'let c = chan(); try { <- c; } catch e: Error { print("RES " + e.cls().name()); }', None),
        ("send_closed", 'let c = chan(1); c.close(); try { c <- 1; } catch e: Error { print("RES " + e.cls().name()); }', r"RES \w*Error"),
        ("close_twice", 'let c = chan(1); c.close(); try { c.close(); } catch e: Error { print("RES " + e.cls().name()); }', r"RES \w*Error"),
    ]
    for name, src, exp in E:
        out.append((name, src + "\n", exp))
    return out


def misc_stream(ctx):
    cases = misc_cases(ctx)
    res = run_programs([c[1] for c in cases], timeout=120)
    bad = tie = None
    outcomes = {}
    for c, r in zip(cases, res):
        ctx.count_case(["misc", c[0]], nontrivial=True)
        st = r["status"].split(":")[0]
        outcomes[st] = outcomes.get(st, 0) + 1
        if CRASH.match(r["status"]):
            if bad is None:
                bad = (c, r)
        elif c[2] and not re.search(c[2], r["stdout"] + r["stderr"]):
            if tie is None:
                tie = (c, r)
    ctx.cov["traces_validated_against_impl"] += len(cases)
    ctx.stream_stat("misc" + SUF(), cases=len(cases), outcomes=outcomes)
    ok = True
    if bad:
        c, r = bad
        ctx.cov["impl_vs_spec_failures"] += 1
        ctx.violation("misc_spec" + SUF(), {"engine": "misc", "kind": "implementation-vs-spec", "what": "host crash / hang: %s" % r["status"][:200],
                                    "case": c[0], "program": c[1], "status": r["status"], "stdout": r["stdout"][-300:],
                                    "stderr": r["stderr"][-300:], "seed": ctx.seed})
        ok = False
    if tie:
        c, r = tie
        ctx.cov["model_vs_impl_disagreements"] += 1
        ctx.violation("misc_tie", {"engine": "misc", "kind": "model-vs-implementation",
                                   "broken": "expected language-level outcome (resolve_call / op_inherit / op_raise / op_set_prop / op_buffered_channel model)",
                                   "what": "expected %r" % c[2], "case": c[0], "program": c[1], "status": r["status"],
                                   "stdout": r["stdout"][-300:], "stderr": r["stderr"][-300:]}, no_input=bad is not None)
        ok = False
    return ok


# ---------------------------------------------------------------------------------------------
# known findings


def replay_known(ctx):
    fs = common.load_findings(PROP)
    reqs, recs = [], []
    for f in fs:
        w = os.path.join(common.VERIF, f["witness"])
        if os.path.isdir(w):
            w = os.path.join(w, "main.lay")
        recs.append(f)
        reqs.append("%s %s" % (f.get("run_options", "--steps 200000000"), w))
    # one process per witness (several abort the process or smash the host stack), in parallel
    import concurrent.futures
    with concurrent.futures.ThreadPoolExecutor(max_workers=8) as ex:
        res = list(ex.map(lambda q: common.run_batch([q], timeout=180, jobs=1)[0], reqs))
    still = 0
    for f, r in zip(recs, res):
        failing = bool(CRASH.match(r["status"]))
        if failing and f.get("expect") and not re.search(f["expect"], r["status"] + " " + r.get("stderr", "")):
            # fails, but differently from the recorded signature: a different defect
            ctx.violation("known_" + f["id"], {"kind": "implementation-vs-spec", "what": "known-finding witness fails in a different way",
                                               "finding": f["id"], "status": r["status"], "expected": f["expect"],
                                               "program": open(reqs[recs.index(f)].split()[-1]).read()[:2000]})
            continue
        if failing:
            still += 1
            ctx.known(f["id"], f["what"][:160])
        else:
            ctx.cov.setdefault("known_findings_no_longer_failing", []).append(f["id"])
    ctx.stream_stat("known_findings", replayed=len(recs), still_failing=still)


# ---------------------------------------------------------------------------------------------


def run(ctx):
    proved = ctx.prove("LaytheVerif.Props.C16", extra_targets=("drv_sig",))
    ok1, out1 = common.cargo_build()
    ok2, out2 = common.cargo_build(bin="vh_sig")
    if not (ok1 and ok2):
        ctx.violation("harness_build", {"kind": "harness-build-failed", "broken": "cargo build of /verif/harness against /repo",
                                        "output": (out1 + out2)[-3000:]}, no_input=True)
        return
    ctx.cov["rule"] = ("sig: (arity, parameter kinds, fun/method, argument kinds) tuples — exhaustive for ≤2 parameters × ≤2 arguments over 7 kinds, "
                       "random beyond (≤4 parameters, ≤7 arguments, 15 kinds, 3% ill-formed signatures); matrix: one program per "
                       "(native of the regenerated table, receiver value, argument value tuple); frames: (recursion shape, number of wrapper "
                       "frames); misc: (operation, value kind).  distinct = distinct request text; non-trivial = reaches the check under test "
                       "(every case does, except ill-formed signatures in `sig`)")
    rng = random.Random(ctx.seed * 7919 + 16)
    rows = None
    try:
        rows, results, fields = load_table()
        ctx.cov["table"] = {"natives": len(rows), "unclassified": sum(1 for r in rows if r["unclassified"]),
                            "sites": sum(len(r["sites"]) for r in rows),
                            "unwrap_sites": sum(1 for r in rows for s_ in r["sites"] if s_[2] != "any"),
                            "guarded_sites": sum(1 for r in rows for s_ in r["sites"] if s_[4]),
                            "with_stack": sum(1 for r in rows if r["stack"]),
                            "callback_result_unwraps": len(results), "field_unwraps": len(fields),
                            "known_bad_rows": sorted(KNOWN_BAD_ROWS)}
    except Exception as e:  # the translator failed: already reported by ctx.prove as a broken obligation
        ctx.cov["table_error"] = str(e)[:300]
    have_driver = os.path.exists(DRV)
    if not proved:
        what, detail = ctx.broken
        # the search is the streams themselves at thorough size (they are cheap): they run below and report a
        # concrete failing input if there is one; remember that an obligation broke
        global SEARCH
        if ctx.tier == "quick":
            SEARCH = True
            ctx.tier = "thorough"
        if not have_driver or "drv_sig" in detail and "error" in detail and not os.path.exists(DRV):
            have_driver = False
    # corpus first
    corpus = os.path.join(common.VERIF, "corpus", "C16")
    if os.path.isdir(corpus):
        srcs = [json.load(open(os.path.join(corpus, f)))["program"] for f in sorted(os.listdir(corpus))]
        for s, r in zip(srcs, run_programs(srcs)):
            if CRASH.match(r["status"]):
                ctx.violation("corpus", {"kind": "implementation-vs-spec", "what": r["status"][:200], "program": s})
                return
    n_before = len(ctx.violations)
    if have_driver:
        ok_b, _ = common.lake_build(["drv_sig"]) if not proved else (True, "")
        sig_stream(ctx, rng)
        if rows is not None:
            table_stream(ctx, rows)
            matrix_stream(ctx, rows, rng)
            deep_stream(ctx, rows, rng)
            frames_stream(ctx, rows)
    else:
        ctx.cov["streams_skipped"] = "drv_sig could not be built"
    misc_stream(ctx)
    state_stream(ctx, rng)
    if not ctx.quick() and not SEARCH:
        global RELEASE
        ok_r, out_r = common.cargo_build(release=True)
        if ok_r:
            RELEASE = True
            try:
                if have_driver and rows is not None:
                    matrix_stream(ctx, rows, rng)
                    deep_stream(ctx, rows, rng)
                    frames_stream(ctx, rows)
                misc_stream(ctx)
                state_stream(ctx, rng)
            finally:
                RELEASE = False
            ctx.cov["release_build_streams"] = True
        else:
            ctx.violation("harness_build_release", {"kind": "harness-build-failed", "broken": "cargo build --release of /verif/harness",
                                                    "output": out_r[-2000:]}, no_input=True)
    replay_known(ctx)
    if not proved:
        what, detail = ctx.broken
        found_input = any(not suffix for _, suffix in ctx.violations[n_before:])
        if not found_input:
            ctx.violation("proof", {"kind": "proof-obligation-failed", "broken": what, "detail": detail,
                                    "search": "sig + matrix + frames + misc streams at thorough size found no failing input"}, no_input=True)
        else:
            ctx.cov["broken_obligation"] = what
    ctx.assumptions += [
        "the table of natives is produced by a purpose-built text scan of laythe_lib (tools/translate_natives.py); bodies it cannot classify are listed as unclassified and break C16_all_classified",
        "kind-agnostic sinks (hooks.call, hooks.get_method, Call::Ok, ==, container insert/contains, iterator adaptor constructors) are assumed to accept every Value",
        "envelope E16: the receiver of a native method is a primitive of the class that owns it (violated by user classes inheriting from built-ins: D11)",
        "host panics, aborts and memory faults are runtime behaviour: the model predicts only where they cannot come from the signature/unwrap and frame-limit mechanisms; everything else is sampled by the matrix, frames and misc streams",
        "known-finding signatures are excluded from the streams: zero-argument print, the D24 rows called with a non-iterator/non-class, recursion shapes whose native stub frame lands on depth 255, channel capacities above 65536, str() returning a non-string, exit inside a native callback, non-string Error.message, RegExp field reassignment, built-in subclassing, >255 slots, a try in the activation that drives a stack-less native whose callback raises, blocking channel operations inside native callbacks, map growth under a live map iterator, skip() over a list that grows afterwards, self-containing containers printed",
    ]


def replay(path):
    r = json.load(open(path))
    common.cargo_build()
    common.cargo_build(bin="vh_sig")
    common.lake_build(["drv_sig"])
    if r.get("engine") == "sig":
        line = r["input"]
        a, m = impl_sig(line), model_lines([line])[0]
        print("input:", line)
        print("impl :", a)
        print("model:", m)
        parts = [p.strip() for p in line.split(";")]
        at = parts[0].split()
        c = ((at[0],) + tuple(int(x) for x in at[1:]), parts[1].split(), parts[2] == "m", parts[3].split())
        bad = sig_spec_fails(c)
        print("implementation breaks spec:", bad)
        return 1 if (bad or a != m) else 0
    if "program" in r:
        res = run_programs([r["program"]], timeout=300)[0]
        print("program:\n" + r["program"])
        print("status :", res["status"])
        print("stdout :", res["stdout"][-400:])
        crashed = bool(CRASH.match(res["status"]))
        print("crash:", crashed)
        if crashed:
            return 1
        if r.get("kind") == "model-vs-implementation" and r.get("status") == res["status"] and r.get("stdout", "")[-100:] == res["stdout"][-100:]:
            return 1
        return 0
    print("no replayable input recorded (broken obligation: %s)" % r.get("broken"))
    return 1
