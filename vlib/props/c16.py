"""C16 — no accepted program can crash the runtime.  DESIGN.md §5 C16.

Streams
  sig        (signature, argument-kind list) pairs through the Lean model (`drv_sig`) and the real
             `Native::check_if_valid_call` / `NativeSignature::check` / `Arity::check` (`vh_sig`);
             Spec = a 12-line Python statement of "accepted ⇒ count in range and every kind allowed"
  matrix     every native of the regenerated table × every combination of argument values
             (arity ≤ 2 exhaustive over 21 values of 15 kinds; arity 3 / variadic tails sampled; the count just
             above a `Default` upper bound always), one call per program, crash-isolated
  deep       calls the signature accepts, with edge values of the right kinds (body-level panics)
  frames     recursion shapes (closures, methods, initialisers, native callbacks, self-containing containers) ×
             call-depth offsets; every Laythe function of a shape counts its activations and the frame model
             predicts exactly how many are admitted before the catchable `Stack overflow.`
  rec        programs of the statement language of Model/RecFrames.lean (vlib/props/c16_rec.py): unbounded recursion through
             every native that runs code of the program (each, reduce, all, any, into, sort comparator, call of functions /
             closures / methods / natives, str() under print / List.str / Map.str / Tuple.str / assertEq / assertNe, lazy map /
             filter driven by list / first / last / len / next / collect / for-in) x every alignment of the frame limit (the entry
             padded by 0..3 frames: the limit falls on a Laythe frame and on the native's stub frame) x the overflow caught at
             every level (script, function, callback of each such native, the recursion itself, a handler) x continuation
             (natives with callbacks once more); plus random terms.  Each program runs twice: as it is, and with the recursion
             bounded (control run, same text) — the model predicts outcome, activations admitted, handlers run and that the
             temporary roots at the end equal those of the control run; the systematic part runs a third time with a collection
             at every allocation (`--gc every:1`)
  misc       non-callables of every kind, `class A : <non-class>`, raising non-errors, property stores on
             non-instances, channel capacities, errors raised while handling errors, fibers that need more
             than 255 slots, exit / str() / raise inside native callbacks, the native `exit` itself as a callback,
             RegExp instances whose fields were reassigned, values formatted by Rust `Display` (containers that
             contain themselves, deep nesting), assertEq / assertNe of values whose str() misbehaves, sort comparators
             that are not an order
  display    graphs of lists (random adjacency with self references and shared items; chains around the depth bound)
             formatted by `Display` (KeyError message, print of a str() answering the list); the Lean model
             `displayText` predicts the text, `[...]` included
  state      short random histories over shared containers / iterators / channels
Judgements
  implementation-vs-Spec: status is never PANIC / CRASH (unless the case carries the signature of a finding
  that is still open);  model-vs-implementation: where the model's signature check rejects, the program ends
  in the corresponding language error; the number of activations before the limit error is the model's.
  The Spec judgement does not need the Lean driver: when the model does not build, the program streams still
  run and report a concrete failing input.
corpus/C16/*.json run first: {"program", optional "expect" (regex over stdout+stderr+" STATUS=<status>"),
  optional "options"}; the witnesses of repaired findings live there with their expected result.
"""
import itertools
import json
import os
import random
import re
import shutil
import sys
import tempfile

from .. import common

PROP = "C16"
LEVEL = "proof"

sys.path.insert(0, os.path.join(common.VERIF, "tools"))

DRV = os.path.join(common.LEAN, ".lake", "build", "bin", "drv_sig")
STEPS = "--steps 2000000"

# ---------------------------------------------------------------------------------------------
# the table (same scan as Gen/Natives.lean)


def load_table():
    import translate_natives as T
    info = T.gen_sigtable(common.REPO, tempfile.mkdtemp(prefix="c16sig"))
    rows, results, fields, skipped, guarded_fields = T.collect_natives(common.REPO, info["casts"])
    return rows, results, fields, info


KINDS_RS = os.path.join(common.HARNESS, "src", "gen", "vh_sig_kinds.rs")


def write_harness_kinds(pkinds):
    """`parse_pkind` of vh_sig, regenerated from the variants of `enum ParameterKind` (so that the harness follows the
    enum instead of failing to compile when a variant is added or removed)"""
    arms = "".join('    "%s" => ParameterKind::%s,\n' % (k.lower(), k) for k in pkinds)
    text = ("// GENERATED by vlib/props/c16.py from `enum ParameterKind` of laythe_core/src/signature.rs — do not edit.\n"
            "fn parse_pkind(s: &str) -> Option<ParameterKind> {\n  Some(match s {\n" + arms + "    _ => return None,\n  })\n}\n")
    os.makedirs(os.path.dirname(KINDS_RS), exist_ok=True)
    if not os.path.exists(KINDS_RS) or open(KINDS_RS).read() != text:
        with open(KINDS_RS, "w") as f:
            f.write(text)

def table_stream(ctx, rows):
    """the regenerated table against the objects the real standard library registers: every row must be found
    under its module / class / meta class and agree on fun-vs-method and on the stack flag"""
    lines = ["%s ; %s ; %d ; %s" % (r["module"] or "", r["owner"], 1 if r["static"] else 0, r["name"]) for r in rows]
    rc, io, err = common.run_lines([common.harness_path(bin="vh_sig"), "natives"], lines, timeout=300)
    bad = []
    for r, l, a in zip(rows, lines, io + ["<missing>"] * (len(lines) - len(io))):
        want = "native method=%d stack=%d" % (1 if r["is_method"] else 0, 1 if r["stack"] else 0)
        ctx.count_case(["table", l], nontrivial=True)
        if a != want:
            bad.append({"row": r["struct"], "request": l, "table": want, "implementation": a})
    ctx.cov["traces_validated_against_impl"] += len(lines)
    ctx.stream_stat("table", rows=len(rows), mismatches=len(bad))
    if bad:
        ctx.cov["model_vs_impl_disagreements"] += 1
        ctx.violation("table_tie", {"engine": "table", "kind": "model-vs-implementation",
                                    "broken": "Gen/Natives.lean (tools/translate_natives.py) vs the natives registered by laythe_lib::create_std_lib",
                                    "mismatches": bad[:10]}, no_input=True)
        return False
    return True


# ---------------------------------------------------------------------------------------------
# values of every kind (expression, model kind)

PRELUDE = '''class K { init() { self.a = 1; } m() { return 1; } }
fn ffun(x) { return x; }
fn mk() { let c = 1; return |x| x + c; }
let fclo = mk();
let fmeth = K().m;
'''

VALUES = [
    ("nil", "nil"), ("true", "bool"), ("false", "bool"),
    ("1", "number"), ("0.5", "number"), ("-1", "number"), ("(0/0)", "number"), ("(1/0)", "number"),
    ('"/nonexistent_c16/s"', "string"), ('""', "string"),
    ("[1]", "list"), ("[]", "list"), ("{1: 2}", "map"), ("(1, 2)", "tuple"),
    ("fclo", "closure"), ("ffun", "fun"), ("fmeth", "method"), ("print", "native"), ("exit", "native"),
    ("K", "class"), ("K()", "instance"), ("[1, 2].iter()", "enumerator"), ("chan(2)", "channel"),
]
QUICK_VALUES = [v for v in VALUES if v[0] not in ("false", "0.5", "[]", '""')]

# receivers by owning class: (expression, model kind)
RECEIVERS = {
    "Bool": [("true", "bool")], "Nil": [("nil", "nil")],
    "Number": [("3", "number"), ("(0/0)", "number"), ("(1/0)", "number"), ("-1.5", "number")],
    "String": [('"héllo"', "string"), ('""', "string")],
    "List": [("[1, 2, 3]", "list"), ("[]", "list")], "Map": [("{1: 2}", "map")], "Tuple": [("(1, 2)", "tuple")],
    "Iter": [("[1, 2].iter()", "enumerator")], "Channel": [("chan(2)", "channel")],
    "Closure": [("fclo", "closure")], "Fun": [("ffun", "fun")], "Method": [("fmeth", "method")],
    "Native": [("clock", "native")], "Class": [("K", "class")],
    "Object": [("K()", "instance"), ("1", "number"), ('"s"', "string"), ("nil", "nil"), ("[1]", "list"), ("K", "class")],
    "Error": [('Error("e")', "instance")],
    "RegExp": [('RegExp("a+")', "instance"), ('(|| { let r = RegExp("a"); r.pattern = 1; return r; })()', "instance")],
    "Stdout": [("stdout", "instance")], "Stderr": [("stderr", "instance")], "Stdin": [("stdin", "instance")],
}
IMPORTS = {
    "std.math": ("import std.math;", "math."), "std.io.fs": ("import std.io.fs;", "fs."),
    "std.env": ("import std.env;", "env."), "std.regexp": ("import std.regexp: {RegExp};", ""),
    "std.io.stdio": ("import std.io.stdio: {stdout, stderr, stdin};", ""), "": ("", ""),
}
CONSTRUCTORS = {"ErrorInit": "Error", "RegExpInit": "RegExp"}


def recipes(row):
    """ways to reach a native from Laythe: list of (imports, template, receiver_kind or None);
    template has one `%s` for the comma-separated arguments (index natives take a list)"""
    imp, pre = IMPORTS.get(row["module"] or "", (None, None))
    if imp is None:
        return None
    out = []
    if row["owner"] == "":
        out.append((imp, pre + row["name"] + "(%s)", None))
    elif row["static"] or not row["is_method"]:
        out.append((imp, "%s.%s(%%s)" % (row["owner"], row["name"]), None))
    else:
        recvs = RECEIVERS.get(row["owner"])
        if recvs is None:
            return None
        for rx, rk in recvs:
            if row["name"] == "[]":
                out.append((imp, "(%s)[%%s]" % rx, rk))
            elif row["name"] == "[]=":
                out.append((imp, "(%s)[%%s] = %%s" % rx, rk))
            else:
                out.append((imp, "(%s).%s(%%s)" % (rx, row["name"]), rk))
        if row["struct"] in CONSTRUCTORS:
            out.append((imp, CONSTRUCTORS[row["struct"]] + "(%s)", "instance"))
    return out


def arity_counts(row):
    ar, a, b = row["arity"]
    if ar == "Fixed":
        return a, a
    if ar == "Variadic":
        return a, None
    return a, b


def sig_line(row, kinds):
    ar, a, b = row["arity"]
    arity = {"Fixed": "F %d" % a, "Variadic": "V %d" % a, "Default": "D %d %s" % (a, b)}[ar]
    return "%s ; %s ; %s ; %s" % (arity, " ".join(k.lower() for _, k in row["params"]),
                                  "m" if row["is_method"] else "f", " ".join(kinds))


def holds(ukind, vkind):
    if ukind == "any":
        return True
    if ukind in ("num", "bool"):
        return vkind == {"num": "number", "bool": "bool"}[ukind]
    objs = {"string": "String", "list": "List", "map": "Map", "tuple": "Tuple", "closure": "Closure", "fun": "Fun",
            "method": "Method", "native": "Native", "class": "Class", "instance": "Instance",
            "enumerator": "Enumerator", "channel": "Channel"}
    if ukind == "obj":
        return vkind in objs
    return objs.get(vkind) == ukind[3:]


def program(imp, call):
    # the `try` is in the activation that calls the native: an error leaving a callback of a stack-less native reaches
    # the handler of that same activation (the shape of the repaired finding D12)
    return (imp + "\n" + PRELUDE + "fn t_() { try { let r = %s; print(\"RES ok\"); } "
            "catch e: Error { print(\"RES err ${e.cls().name()} ${e.message}\"); } }\nt_();\n" % call)


def build_matrix(ctx, rows, rng):
    """list of cases: dict(native, call, kinds, sigline, src, known)"""
    quick = ctx.quick()
    cases = []
    unreachable = []
    for row in rows:
        rs = recipes(row)
        if not rs:
            unreachable.append(row["struct"])
            continue
        lo, hi = arity_counts(row)
        for imp, tmpl, rk in rs:
            is_index = row["name"] in ("[]", "[]=")
            counts = [1] if row["name"] == "[]" else [2] if row["name"] == "[]=" else [0, 1, 2]
            for c in counts:
                vals = QUICK_VALUES if (quick and c == 2) else VALUES
                combos = list(itertools.product(vals, repeat=c))
                for cb in combos:
                    cases.append((row, imp, tmpl, rk, list(cb)))
            # counts 3 and 4: sampled; always the count just above a Default/Fixed upper bound
            if not is_index:
                extra = []
                n3 = ctx.n(6, 60)
                for c in (3, 4):
                    for _ in range(n3 if c == 3 else n3 // 3):
                        extra.append([rng.choice(VALUES) for _ in range(c)])
                if hi is not None and hi + 1 >= 3:
                    # kinds the declared parameters accept, plus one more argument
                    good = []
                    for _, pk in row["params"]:
                        good.append({"Number": ("1", "number"), "String": ('"s"', "string"), "Bool": ("true", "bool"),
                                     "Callable": ("ffun", "fun"), "Object": ("nil", "nil"),
                                     "Enumerator": ("[1, 2].iter()", "enumerator"), "Class": ("K", "class")}[pk])
                    extra.append((good + [("1", "number")] * 4)[:hi + 1])
                for cb in extra:
                    cases.append((row, imp, tmpl, rk, cb))
    out = []
    for row, imp, tmpl, rk, cb in cases:
        exprs = [e for e, _ in cb]
        kinds = [k for _, k in cb]
        if row["name"] == "[]=":
            call = tmpl % (exprs[0], exprs[1])
            mkinds = [kinds[1], kinds[0]]      # x[i] = v  passes (v, i)
        else:
            call = tmpl % ", ".join(exprs)
            mkinds = kinds
        allk = ([rk] if row["is_method"] and rk else []) + mkinds
        known = None
        if row["owner"] == "Stdin" and not mkinds:
            known = "harness-mock"   # the harness' test stdin panics on read ("Not enough test lines"): not the implementation
        out.append({"native": row["struct"], "call": call, "imp": imp, "kinds": allk, "sigline": sig_line(row, allk),
                    "known": known, "row": row})
    return out, unreachable


# STEPLIMIT (the program itself runs long) is counted, not judged; a batch time-out shows up as CRASH:timeout
CRASH = re.compile(r"^(PANIC|CRASH)")


def SUF():
    return "_release" if RELEASE else ""


def classify_model(line):
    """model verdict of drv_sig for the call: ('ok'|'len'|'type'|'panic', detail)"""
    m = re.match(r"civ=(.*?) sig=(.*?) arity=(.*)$", line)
    if not m:
        return ("?", line)
    civ = m.group(1)
    if civ == "ok":
        return ("ok", "")
    if civ.startswith("len"):
        return ("len", civ)
    if civ.startswith("type"):
        return ("type", civ)
    return ("panic", civ)


LEN_MSG = re.compile(r"expected (at least |at most )?\d+ argument\(s\) but received \d+\.")
TYPE_MSG = re.compile(r"'s parameter \".*\" required a \w+ but received a \w+\.|\btodo$")


def judge_matrix_case(case, res, model_line):
    """returns (kind, message) with kind in None | 'spec' | 'tie'"""
    st = res["status"]
    if CRASH.match(st):
        return "spec", "host crash / hang: %s" % st[:200]
    if model_line is None:
        return None, ""
    verdict, detail = classify_model(model_line)
    out = res.get("stdout", "")
    m = re.search(r"RES (ok|err) ?(\w+)? ?(.*)", out)
    if verdict in ("len", "type"):
        # the model's signature check rejects: the program must end in the corresponding RuntimeError
        if not m or m.group(1) != "err":
            return "tie", "model rejects (%s) but the program did not raise: %r" % (detail, out[-200:])
        if m.group(2) != "RuntimeError":
            return "tie", "model rejects (%s) but the error class is %s" % (detail, m.group(2))
        msg = m.group(3)
        if verdict == "len" and not LEN_MSG.search(msg):
            return "tie", "model rejects on length (%s), implementation says %r" % (detail, msg[:160])
        if verdict == "type" and not TYPE_MSG.search(msg):
            return "tie", "model rejects on type (%s), implementation says %r" % (detail, msg[:160])
    elif verdict == "ok":
        # accepted: any non-crash outcome is fine, but it must not be a signature error
        if m and m.group(1) == "err" and m.group(2) == "RuntimeError":
            msg = m.group(3)
            name = case["row"]["name"]
            if (LEN_MSG.search(msg) or TYPE_MSG.search(msg)) and (msg.startswith(name + " ") or msg.startswith(name + "'s")):
                return "tie", "model accepts but the implementation's signature check rejects: %r" % msg[:160]
    else:
        return "tie", "model has no verdict: %s" % model_line
    return None, ""


def write_programs(tmp, srcs):
    paths = []
    for i, s in enumerate(srcs):
        p = os.path.join(tmp, "c%06d.lay" % i)
        with open(p, "w") as f:
            f.write(s)
        paths.append(p)
    return paths


HAVE_DRIVER = True   # False when drv_sig does not build: the tie judgements are skipped, the Spec judgements are not
RELEASE = False   # thorough tier runs the program streams a second time on the release build
SEARCH = False    # a proof obligation broke: the streams run at ten times the quick budget, looking for a failing input


HANG_SEEN = [False]   # a stream has reported a program that hangs the host: the later program streams are skipped (every hanging
                      # program costs a whole batch time-out; the concrete failing input is already reported)


def hang_guard(ctx, name, status=None):
    """with a status: remember a hang; without: True when the stream `name` should not run any more"""
    if status is not None:
        if status.startswith("CRASH:timeout"):
            HANG_SEEN[0] = True
        return False
    if HANG_SEEN[0]:
        ctx.stream_stat(name + SUF(), skipped_after_a_reported_hang=1)
    return HANG_SEEN[0]


def run_programs(srcs, timeout=120, extra=""):
    # a program that hangs the host costs its shard a whole time-out: keep it short for small batches (a shard of a
    # quick-tier batch runs for a few seconds)
    if len(srcs) <= 20000 and "every:1" not in extra:
        timeout = min(timeout, 60)
    tmp = tempfile.mkdtemp(prefix="c16_")
    cwd = os.getcwd()
    try:
        paths = write_programs(tmp, srcs)
        # the programs run with a scratch working directory: fs natives are called with relative paths too
        os.makedirs(os.path.join(tmp, "cwd"))
        os.chdir(os.path.join(tmp, "cwd"))
        res = common.run_batch(["%s %s %s" % (STEPS, extra, p) for p in paths], timeout=timeout, release=RELEASE)
    finally:
        os.chdir(cwd)
        shutil.rmtree(tmp, ignore_errors=True)
    return res


def model_lines(lines, engine="sig"):
    rc, out, err = common.run_lines([DRV, engine], lines, timeout=600)
    return out


def matrix_stream(ctx, rows, rng):
    if hang_guard(ctx, "matrix"):
        return True
    cases, unreachable = build_matrix(ctx, rows, rng)
    if RELEASE:
        cases = [c for c in cases if rng.random() < 0.5]
    ctx.stream_stat("matrix" + SUF(), natives=len(rows), unreachable=len(unreachable), cases=len(cases))
    if unreachable:
        ctx.violation("matrix_unreachable", {"kind": "model-vs-implementation", "broken": "a native of the regenerated table has no "
                      "access recipe in vlib/props/c16.py (new class or module?)", "natives": unreachable}, no_input=True)
        return False
    run = [c for c in cases if not c["known"]]
    skipped_known = len(cases) - len(run)
    if HAVE_DRIVER:
        ml = model_lines([c["sigline"] for c in run])
        if len(ml) != len(run):
            ctx.violation("matrix_driver", {"kind": "driver-failed", "broken": "drv_sig produced %d lines for %d requests" % (len(ml), len(run))},
                          no_input=True)
            return False
    else:
        ml = [None] * len(run)   # no model: the Spec judgement (no host crash) stands on its own
    res = run_programs([program(c["imp"], c["call"]) for c in run])
    verdicts = {"ok": 0, "len": 0, "type": 0, "panic": 0, "?": 0}
    outcomes = {}
    per_native = {}
    first = {}
    for c, r, m in zip(run, res, ml):
        v = classify_model(m)[0] if m is not None else "?"
        verdicts[v] = verdicts.get(v, 0) + 1
        st = r["status"].split(":")[0]
        outcomes[st] = outcomes.get(st, 0) + 1
        per_native[c["native"]] = per_native.get(c["native"], 0) + 1
        ctx.count_case([c["native"], c["call"]], nontrivial=True)
        kind, msg = judge_matrix_case(c, r, m)
        if kind and kind not in first:
            first[kind] = (c, r, m, msg)
    ctx.cov["traces_validated_against_impl"] += len(run)
    ctx.stream_stat("matrix" + SUF(), run=len(run), skipped_known_signature=skipped_known, model_accepts=verdicts["ok"],
                    model_rejects_len=verdicts["len"], model_rejects_type=verdicts["type"], outcomes=outcomes,
                    natives_covered=len(per_native), min_cases_per_native=min(per_native.values()) if per_native else 0)
    if run:
        c0 = run[len(run) // 3]
        ctx.sample({"matrix_case": c0["call"], "model": ml[len(run) // 3], "status": res[len(run) // 3]["status"],
                    "stdout": res[len(run) // 3]["stdout"][-120:]})
    ok = True
    for kind in (("spec",) if "spec" in first else ("tie",)):
        if kind in first:
            c, r, m, msg = first[kind]
            payload = {"engine": "matrix", "kind": "implementation-vs-spec" if kind == "spec" else "model-vs-implementation",
                       "what": msg, "native": c["native"], "call": c["call"], "program": program(c["imp"], c["call"]),
                       "sigline": c["sigline"], "model": m, "status": r["status"], "stdout": r["stdout"][-400:],
                       "stderr": r["stderr"][-400:], "seed": ctx.seed}
            if kind == "spec":
                ctx.cov["impl_vs_spec_failures"] += 1
                ctx.violation("matrix_spec" + SUF(), payload)
                hang_guard(ctx, "matrix", r["status"])
            else:
                ctx.cov["model_vs_impl_disagreements"] += 1
                payload["broken"] = "correspondence stream matrix (Model/Signature.lean checkIfValidCall vs call_native)"
                ctx.violation("matrix_tie", payload, no_input=True)
            ok = False
    return ok



# ---------------------------------------------------------------------------------------------
# deep stream: calls the signature accepts, with edge values of the right kinds (body-level panics)

LONG = "x" * 300
POOL = {
    "Number": ["0", "1", "-1", "2", "3", "0.5", "-0.5", "255", "256", "65536", "1e10", "1e300", "-1e300", "(0/0)", "(1/0)", "-(1/0)",
               "4294967296", "9007199254740993", "-0", "1e-300", "2147483648", "-2147483649"],
    "String": ['""', '"a"', '"héllo wörld"', '"日本語"', '"a,b,,c"', '" pad "', '"/nonexistent_c16/x"', '"("', '"[a-"', '"\\\\"',
               '"1"', '"1.5"', '"-"', '"NaN"', '"inf"', '"1e999"', '"0x10"', '"%s{}"', '"' + LONG + '"', '"a+"', '"(a)(b)?"', '"."', '"i"', '"gimsx"'],
    "Bool": ["true", "false"],
    "Callable": ["ffun", "fclo", "fmeth", "|| 1", "|a, b| a", "|a, b, c| a", "|x| { raise Error(\"cb\"); }", "|x| nil", "|x| \"s\"", "|x| x",
                 "print", "clock", "|x| [][5]", "|a, b| a - b", "|a, b| \"s\"", "|a, b| (0/0)", "|x| true", "|x| false", "|a, b| b - a",
                 "|x| [x].iter().map(|y| y).list()", "Number.parse", "K().m", "[1].push", "\"s\".len",
                 "|x| exit(3)", "|x| [x].iter().each(|y| [][y])", "|x| { raise N(); }", "|x| N()", "|x| print()",
                 "exit", "exit.call", "|a, b| { kk = kk + 1; return ERR[kk - (kk / 7).floor() * 7]; }", "|a, b| 1", "|a, b| -1",
                 "assertEq", "|x| selfl", "|x| ({1: 2})[selfl]"],
    "Object": ["nil", "true", "0", "-1", "0.5", "(0/0)", "(1/0)", '""', '"s"', "[]", "[1, [2, [3]]]", "{}", "{1: {2: 3}}", "(1, 2)",
               "fclo", "ffun", "fmeth", "print", "K", "K()", "[1, 2].iter()", "chan(2)", "chan()", 'Error("x")', "List", "Error", "S()", "\"日本\"",
               "[nil, true, \"s\"]", "(1, (2, 3))", "{nil: nil, true: 1, 0.5: 2}", "N()", "[N()]", "selfl", "selfm",
               "(selfl, selfm)", "SL()", "RS()", "deepl", "mchain", "[1].push", "exit"],
    "Enumerator": ["[1, 2, 3].iter()", "[].iter()", '"héllo".iter()', "{1: 2}.iter()", "(1, 2).iter()", "3.times()", "0.times()",
                   "[1, 2].iter().map(|x| [][x])", "[1, 2].iter().filter(|x| x > 1)", "[1, 2].iter().zip([3].iter())",
                   "[3, 4].iter().skip(1)", "[N()].iter()", "[1, 2].iter().map(|x| exit(3))", "selfl.iter()"],
    "Class": ["K", "S", "N", "List", "Error", "Object", "Class", "Iter", "Number", "Nil"],
}
# N: str() answers a non-string and it is an Error whose message is never set (repaired D23, DC16.4);
# selfl / selfm contain themselves (repaired DC16.6, DC16.11); SL: str() answers a container that contains itself,
# RS: str() raises (repaired DC16.9); deepl: lists nested deeper than Display's bound; mchain: a chain of bound
# methods; ERR / kk: a comparator that is not an order (repaired DC16.15)
DEEP_PRELUDE = (PRELUDE + "class S { str() { return \"an S\"; } equals(o) { return true; } }\n"
                "class N : Error { init() { } str() { return 1; } }\n"
                "let selfl = [1]; selfl.push(selfl); let selfm = {1: 2}; selfm[2] = selfm;\n"
                "class SL { str() { return selfl; } }\nclass RS { str() { raise Error(\"in str\"); } }\n"
                "let deepl = []; let mchain = [1].push; let kk = 0; while kk < 300 { deepl = [deepl]; mchain = mchain.call; kk = kk + 1; }\n"
                "let ERR = [1, -1, -1, 1, 0, 1, -1];\n"
                "let big = []; kk = 0; while kk < 64 { big.push(kk * 37 - kk * kk); kk = kk + 1; }\n")
DEEP_RECEIVERS = {
    "String": ['"héllo wörld"', '""', '"日本語"', '"a,b,,c"', '" pad "', '"' + LONG + '"'],
    "List": ["[1, 2, 3]", "[]", "[[1], [2]]", '["b", "a"]', "[3, 1, 2]", "[nil, true, \"s\", K()]", "[(0/0), 1, (1/0)]", "[S(), S()]",
             "[].iter().list()", "[N(), N()]", "selfl", "big", "deepl", "[SL(), RS()]"],
    "Map": ["{1: 2}", "{}", '{"a": [1]}', "{nil: nil, true: 1, 0.5: 2}", "{(0/0): 1}", "{S(): S()}", "selfm", "{N(): N()}",
            "{selfl: selfm}"],
    "Tuple": ["(1, 2)", "(1, (2, 3))", '("a", nil, true)', "(S(), 1)", "(selfl, N())", "Tuple.collect([].iter())"],
    "Iter": ["[1, 2, 3].iter()", "[].iter()", '"abc".iter()', "{1: 2}.iter()", "(1, 2).iter()", "3.times()", "[1, 2].iter().map(|x| x)",
             "[1, 2].iter().map(|x| [][x])", "[1, 2].iter().zip([3].iter())", "[1].iter().chain([2].iter())", "0.times()", "1.until(10, 3)",
             "[1, 2, 3].iter().filter(|x| x > 1)", "[1, 2, 3].iter().take(2)", "[1, 2, 3].iter().skip(1)", '"héllo".iter()'],
    "Number": ["3", "0", "-1", "0.5", "(0/0)", "(1/0)", "-(1/0)", "1e300", "255", "-0", "1e10"],
    "Channel": ["chan(2)", "chan()", "chan(1)"],
    "Closure": ["fclo"], "Fun": ["ffun", "|| 1", "|a, b, c| a"], "Method": ["fmeth", "[1].push", "\"s\".len", "K().init"],
    "Native": ["clock", "Number.parse", "Number.cmp"], "Class": ["K", "List", "Error", "S", "Object", "Class"],
    "Object": ["K()", "S()", "1", '"s"', "nil", "[1]", "K", "true", "fclo", "(1, 2)", "chan(1)", "[1].iter()", 'Error("x")', "N()", "selfl"],
    "Error": ['Error("e")', 'ValueError("v")'],
    "RegExp": ['RegExp("a+")', 'RegExp("(a)(b)?")', 'RegExp("")', 'RegExp("日")',
               # the pattern / flags fields are ordinary assignable fields (repaired DC16.5)
               '(|| { let r = RegExp("a"); r.pattern = 1; return r; })()', '(|| { let r = RegExp("a"); r.pattern = nil; r.flags = 1; return r; })()',
               '(|| { let r = RegExp("a"); r.pattern = [r]; return r; })()', '(|| { let r = RegExp("a"); r.pattern = "(b+)"; return r; })()',
               '(|| { class R : RegExp { init() { } } return R(); })()'],
    "Bool": ["true", "false"], "Nil": ["nil"],
    "Stdout": ["stdout"], "Stderr": ["stderr"], "Stdin": ["stdin"],
}


def deep_cases(ctx, rows, rng):
    per = 600 if SEARCH else ctx.n(120, 6000)
    out = []
    for row in rows:
        if row["owner"] == "Stdin":
            continue  # harness mock
        imp, pre = IMPORTS.get(row["module"] or "", (None, None))
        lo, hi = arity_counts(row)
        pools = [POOL[pk] for _, pk in row["params"]]
        counts = list(range(lo, (hi if hi is not None else lo + 3) + 1))
        if row["owner"] == "":
            heads = [pre + row["name"] + "(%s)"]
        elif row["static"] or not row["is_method"]:
            heads = ["%s.%s(%%s)" % (row["owner"], row["name"])]
        else:
            heads = []
            for rx in DEEP_RECEIVERS.get(row["owner"], []):
                if row["name"] == "[]":
                    heads.append("(%s)[%%s]" % rx)
                elif row["name"] == "[]=":
                    heads.append("(%s)[%%s] = %%s" % rx)
                else:
                    heads.append("(%s).%s(%%s)" % (rx, row["name"]))
            if row["struct"] in CONSTRUCTORS:
                heads.append(CONSTRUCTORS[row["struct"]] + "(%s)")
        if row["struct"] == "Exit":
            pools = [[v for v in POOL["Number"]]]
        seen = set()
        combos = []
        for c in counts:
            ps = [pools[min(i, len(pools) - 1)] for i in range(c)] if pools else []
            total = 1
            for p_ in ps:
                total *= len(p_)
            if total * len(heads) <= per:
                for h in heads:
                    for cb in itertools.product(*ps):
                        combos.append((h, list(cb)))
            else:
                for _ in range(per):
                    combos.append((rng.choice(heads), [rng.choice(p_) for p_ in ps]))
        for h, cb in combos:
            if row["name"] == "[]=":
                if len(cb) != 2:
                    continue
                call = h % (cb[1], cb[0])
            else:
                call = h % ", ".join(cb)
            if call in seen:
                continue
            seen.add(call)
            out.append((row["struct"], imp, call))
    return out


def deep_program(imp, call):
    # two shapes, chosen by the text of the call: the `try` in the caller of the activation that calls the native, or in
    # that activation itself (an error leaving a callback of a stack-less native then meets a handler of the native's caller)
    if sum(map(ord, call)) % 2:
        return (imp + "\n" + DEEP_PRELUDE + "fn t_() { let r = %s; }\n" % call +
                "try { t_(); print(\"RES ok\"); } catch e: Error { print(\"RES err ${e.cls().name()}\"); }\n")
    return (imp + "\n" + DEEP_PRELUDE + "fn t_() { try { let r = %s; print(\"RES ok\"); } "
            "catch e: Error { print(\"RES err ${e.cls().name()}\"); } }\nt_();\n" % call)


def deep_stream(ctx, rows, rng):
    if hang_guard(ctx, "deep"):
        return True
    cases = deep_cases(ctx, rows, rng)
    res = run_programs([deep_program(imp, call) for _, imp, call in cases], timeout=240)
    outcomes, errs = {}, {}
    bad = None
    per_native = {}
    for (st, imp, call), r in zip(cases, res):
        ctx.count_case(["deep", call], nontrivial=True)
        k = r["status"].split(":")[0]
        outcomes[k] = outcomes.get(k, 0) + 1
        per_native[st] = per_native.get(st, 0) + 1
        m = re.search(r"RES err (\w+)", r["stdout"])
        if m:
            errs[m.group(1)] = errs.get(m.group(1), 0) + 1
        if CRASH.match(r["status"]) and bad is None:
            bad = (st, imp, call, r)
    ctx.cov["traces_validated_against_impl"] += len(cases)
    ctx.stream_stat("deep" + SUF(), cases=len(cases), outcomes=outcomes, error_classes=errs, natives_covered=len(per_native))
    if cases:
        i = len(cases) // 2
        ctx.sample({"deep_case": cases[i][2], "status": res[i]["status"], "stdout": res[i]["stdout"][-60:]})
    if bad:
        st, imp, call, r = bad
        ctx.cov["impl_vs_spec_failures"] += 1
        ctx.violation("deep_spec" + SUF(), {"engine": "deep", "kind": "implementation-vs-spec", "what": "host crash / hang: %s" % r["status"][:200],
                                            "native": st, "call": call, "program": deep_program(imp, call), "status": r["status"],
                                            "stdout": r["stdout"][-300:], "stderr": r["stderr"][-300:], "seed": ctx.seed})
        hang_guard(ctx, "deep", r["status"])
        return False
    return True


# ---------------------------------------------------------------------------------------------
# state stream: short random histories over shared containers / iterators / channels

ST_VALUES = ["1", "nil", '"s"', "0.5", "true", "[9]", "(1, 2)", "K()", "fclo", "l", "m", "t", "NS()", "SL(l)", "RS()", "(l, m)", "l.push"]
ST_INDEX = ["0", "1", "-1", "2", "5", "0.5", "-5", "1e10", "(0/0)"]
ST_KEYS = ["1", '"a"', "nil", "true", "0.5", "(0/0)", '"zz"', "7", "l", "t", "m", "il"]   # a missing key is written by Display
ST_CMP = ["|a, b| a - b", "|a, b| b - a", "|a, b| 0", "|a, b| { if l.len() < 60 { l.push(1); } return a - b; }", "|a, b| { l.clear(); return 0; }", "|a, b| nil",
          "|a, b| 1", "|a, b| -1", "|a, b| { k = k + 1; return [1, -1, -1, 1, 0, 1, -1][k - (k / 7).floor() * 7]; }", "exit.call", "|a, b| { l.pop(); k = k + 1; return k - 9; }"]


def st_statement(rng, st, depth=0, in_native=False):
    """one statement; `st` tracks whether a map iterator is live (signature of the open finding DC16.7: no map growth
    then); inside loops list growth is bounded (termination), inside native callbacks nothing blocks (signature of the
    open finding D6).  Containers may contain themselves, iterators may skip over lists that grow afterwards, lists built
    from empty iterators are pushed to, str() may answer a non-string."""
    x = st_statement_(rng, st, depth, in_native)
    if depth > 0:
        x = re.sub(r"^(l\.push\(.*\);|l\.insert\(.*\);)$", r"if l.len() < 60 { \1 }", x)
    return x


def st_statement_(rng, st, depth, in_native):
    V = lambda: rng.choice(ST_VALUES)
    I = lambda: rng.choice(ST_INDEX)
    K = lambda: rng.choice(ST_KEYS)
    r = rng.random()
    if r < 0.30:
        return rng.choice([
            lambda: "l.push(%s);" % V(), lambda: "l.pop();", lambda: "l.clear();", lambda: "l.insert(%s, %s);" % (I(), V()),
            lambda: "l.remove(%s);" % I(), lambda: "l[%s] = %s;" % (I(), V()), lambda: "let q = l[%s];" % I(),
            lambda: "let q = l.slice(%s, %s);" % (I(), I()), lambda: "l.sort(%s);" % rng.choice(ST_CMP), lambda: "let q = l.rev();",
            lambda: "let q = l.has(%s);" % V(), lambda: "let q = l.index(%s);" % V(), lambda: "let q = l.str();",
            lambda: "l.push(1, 2, 3, 4, 5, 6, 7, 8, 9, 10, 11, 12, 13, 14, 15, 16, 17, 18, 19, 20);",
            lambda: "l = il.list(); l.push(%s);" % V(), lambda: "l = List.collect(il); l.insert(0, %s);" % V(),
            lambda: "l = [].iter().list(); l.push(1, 2, 3, 4, 5, 6, 7, 8, 9, 10, 11, 12, 13, 14, 15, 16, 17, 18, 19, 20); let q = [l, l.str()];",
            lambda: "print(l);", lambda: "let q = l == l;",
            lambda: "assertEq(%s, %s);" % (V(), V()), lambda: "assertNe(%s, %s);" % (V(), V()), lambda: "let q = l.push.call.call;  print(q, \"${q}\");",
            lambda: "let j = 0; while j < 25 { l.push(25 - j); j = j + 1; } let q = l.sort(%s);" % rng.choice(ST_CMP),
            lambda: "let e = Error(\"m\"); e.message = %s; raise e;" % V(),
        ])()
    if r < 0.45:
        return rng.choice([
            lambda: "il.next();", lambda: "let q = il.current();", lambda: "il = l.iter();", lambda: "let q = il.len();",
            lambda: "let q = il.list();", lambda: "let q = il.first();", lambda: "let q = il.last();",
            lambda: "il = l.iter().map(|x| x);", lambda: "il = l.iter().filter(|x| true).take(2);",
            lambda: "il = il.zip(l.iter());", lambda: "il = il.chain(l.iter(), \"ab\".iter());", lambda: "il = [4, 5, 6].iter().skip(1);",
            lambda: "let q = il.reduce(0, |a, x| a);", lambda: "let q = List.collect(il);", lambda: "let q = Tuple.collect(il);",
            lambda: "il = t.iter();", lambda: "il = s.iter();", lambda: "il = 3.times();", lambda: "let q = il.str();",
            lambda: "il = l.iter().skip(%s);" % rng.choice(["0", "1", "2", "5"]), lambda: "il = il.skip(1);",
            lambda: "il = l.iter().map(|x| [][x]);", lambda: "for x in il { }", lambda: "t = Tuple.collect(il);",
        ])()
    if r < 0.65:
        grow = not st["map_iter_live"]
        opts = [lambda: "let q = m[%s];" % K(), lambda: "let q = m.get(%s);" % K(), lambda: "m.remove(%s);" % K(),
                lambda: "let q = m.has(%s);" % K(), lambda: "let q = m.len();", lambda: "let q = m.str();",
                lambda: "im.next();", lambda: "let q = im.current();"]
        if grow:
            opts += [lambda: "m[%s] = %s;" % (K(), V()), lambda: "m.set(%s, %s);" % (K(), V()), lambda: "m.insert(%s, %s);" % (K(), V()),
                     lambda: "let j = 0; while j < 40 { m[j + 100] = j; j = j + 1; }"]
        ch = rng.choice(opts + [lambda: "MAPITER"])()
        if ch == "MAPITER":
            st["map_iter_live"] = True
            return "im = m.iter();"
        return ch
    if r < 0.75:
        if in_native:
            return rng.choice([lambda: "c.close();", lambda: "let q = c.len();", lambda: "let q = c.capacity();"])()
        return rng.choice([lambda: "c <- %s;" % V(), lambda: "let q = <- c;", lambda: "c.close();", lambda: "let q = c.len();",
                           lambda: "let q = c.capacity();", lambda: "c = chan(1);", lambda: "c = chan();"])()
    if r < 0.85:
        return rng.choice([lambda: "let q = s[%s];" % I(), lambda: "let q = s.slice(%s, %s);" % (I(), I()), lambda: "let q = s.split(\"l\");",
                           lambda: "let q = t[%s];" % I(), lambda: "let q = t.slice(%s, %s);" % (I(), I()), lambda: "let q = s.has(\"é\");",
                           lambda: "let q = \"${l} ${m} ${t} ${c} ${il}\";", lambda: "print(t);", lambda: "let q = m.str();"])()
    if depth < 2:
        k = rng.randrange(6)
        inner = st_statement(rng, st, depth + 1, in_native or k in (1, 4, 5))
        grows_map = re.search(r"m\[.*\] =|m\.set|m\.insert", inner)
        return [
            lambda: "for x in l { %s }" % inner, lambda: "l.iter().each(|x| { %s });" % inner,
            lambda: "let n = 0; for x in l { if n < 30 { %s } n = n + 1; }" % inner,
            lambda: ("for kv in m { %s }" if not grows_map else "for x in t { %s }") % inner,
            lambda: "let q = l.iter().map(|x| { %s return x; }).list();" % inner,
            lambda: "3.times().each(|i| { %s });" % inner,
        ][k]()
    return "let q = l.len();"


def state_program(stmts):
    # every statement runs under a `try` of the activation that owns the containers (no wrapper closure: a handler in the
    # frame that drives a native callback is the shape of the repaired finding D12)
    body = "\n".join("  try { %s } catch e: Error { }" % x for x in stmts)
    return (PRELUDE + "class NS { str() { return 1; } }\nclass SL { init(v) { self.v = v; } str() { return self.v; } }\n"
            "class RS { str() { raise Error(\"in str\"); } }\nfn t_() {\n  let l = [1, 2, 3]; let m = {1: 2, \"a\": 3}; let s = \"héllo\"; let t = (1, 2); let c = chan(2);\n"
            "  let il = l.iter(); let im = nil; im = [].iter(); let k = 0;\n" + body + "\n}\n"
            "try { t_(); print(\"RES ok\"); } catch e: Error { print(\"RES err ${e.cls().name()}\"); }\n")


def state_stream(ctx, rng):
    if hang_guard(ctx, "state"):
        return True
    progs = []
    for _ in range(15000 if SEARCH else ctx.n(4000, 300000)):
        st = {"map_iter_live": False}
        stmts = []
        for _ in range(rng.randint(3, 9)):
            x = st_statement(rng, st)
            if "for kv in m" in x:
                st["map_iter_live"] = False   # the loop's iterator dies with the loop; growth inside was excluded
            stmts.append(x)
        progs.append(stmts)
    res = run_programs([state_program(p_) for p_ in progs], timeout=300)
    outcomes = {}
    bad = None
    for p_, r in zip(progs, res):
        ctx.count_case(["state"] + p_, nontrivial=True)
        k = r["status"].split(":")[0]
        outcomes[k] = outcomes.get(k, 0) + 1
        if CRASH.match(r["status"]) and bad is None:
            bad = (p_, r)
    ctx.cov["traces_validated_against_impl"] += len(progs)
    ctx.stream_stat("state" + SUF(), programs=len(progs), statements=sum(len(p_) for p_ in progs), outcomes=outcomes)
    if progs:
        ctx.sample({"state_case": progs[0], "status": res[0]["status"]})
    if bad:
        p_, r = bad

        def fails(q):
            return bool(CRASH.match(run_programs([state_program(q)], timeout=120)[0]["status"]))
        cur = list(p_)
        changed = True
        while changed and len(cur) > 1:
            changed = False
            for i in range(len(cur)):
                cand = cur[:i] + cur[i + 1:]
                if fails(cand):
                    cur, changed = cand, True
                    break
        r2 = run_programs([state_program(cur)], timeout=120)[0]
        ctx.cov["impl_vs_spec_failures"] += 1
        ctx.violation("state_spec" + SUF(), {"engine": "state", "kind": "implementation-vs-spec", "what": "host crash / hang: %s" % r2["status"][:200],
                                             "statements": cur, "program": state_program(cur), "status": r2["status"],
                                             "stdout": r2["stdout"][-300:], "stderr": r2["stderr"][-300:], "seed": ctx.seed})
        return False
    return True

# ---------------------------------------------------------------------------------------------
# display stream: graphs of lists written by Rust `Display`; the Lean model `displayText` predicts the text


def display_cases(ctx, rng):
    """(name, adjacency rows, sink) — object i is a list whose items are the lists adjacency[i]; object 0 is written"""
    cases = []
    # every graph on two lists with up to two items each, self references included
    opts = [[], [0], [1], [0, 0], [0, 1], [1, 0], [1, 1]]
    for a in opts:
        for b in opts:
            cases.append([a, b])
    for _ in range(ctx.n(150, 3000)):
        n = rng.randint(1, 5)
        cases.append([[rng.randrange(n) for _ in range(rng.choice([0, 1, 1, 2, 2, 3]))] for _ in range(n)])
    # chains around the bound of the nesting, one of them with a back edge to the root
    for d in (1, 10, 62, 63, 64, 65, 66, 70, 100, 1000):
        cases.append([[i + 1] for i in range(d)] + [[]])
        cases.append([[i + 1] for i in range(d)] + [[0]])
    return [(adj, rng.choice(["key", "print", "interp", "uncaught"])) for adj in cases]


def display_program(adj, sink):
    n = len(adj)
    if n > 20 and all(adj[i] == [i + 1] for i in range(n - 1)):
        # a chain: built by a loop, innermost first
        last = adj[-1]
        lines = ["let l0 = nil; let cur = []; let first = cur; let i = 0;",
                 "while i < %d { let outer = [cur]; cur = outer; i = i + 1; }" % (n - 1), "l0 = cur;"]
        if last == [0]:
            lines.append("first.push(l0);")
    else:
        lines = ["let l%d = [];" % i for i in range(n)]
        for i, items in enumerate(adj):
            for j in items:
                lines.append("l%d.push(l%d);" % (i, j))
    if sink == "key":
        lines.append("try { let q = ({1: 2})[l0]; } catch e: Error { print(\"RES ${e.message}\"); }")
    elif sink == "print":
        lines.append("class A { str() { return l0; } }\nprint(\"RES\", A(), \"END\");")
    elif sink == "interp":
        lines.append("class A { str() { return l0; } }\nprint(\"RES ${A()} END\");")
    else:
        lines.append("let e = Error(\"a\"); e.message = l0; raise e;")
    return "\n".join(lines) + "\n"


DISPLAY_OUT = {"key": r"RES Key not found\. (.*) is not present\n", "print": r"RES (.*) END\n", "interp": r"RES (.*) END\n",
               "uncaught": r"\nError: (.*)\n"}


def display_stream(ctx, rng):
    if hang_guard(ctx, "display"):
        return True
    cases = display_cases(ctx, rng)
    lines = ["0 ; " + " | ".join(" ".join(str(j) for j in items) for items in adj) for adj, _ in cases]
    if HAVE_DRIVER:
        ml = model_lines(lines, engine="display")
        if len(ml) != len(cases):
            ml = ["<missing>"] * len(cases)
    else:
        ml = [None] * len(cases)
    res = run_programs([display_program(adj, sink) for adj, sink in cases], timeout=300)
    bad = tie = None
    cut = 0
    for i, ((adj, sink), r) in enumerate(zip(cases, res)):
        ctx.count_case(["display", lines[i], sink], nontrivial=True)
        if CRASH.match(r["status"]):
            if bad is None:
                bad = i
            continue
        if ml[i] is None:
            continue
        mm = re.match(r"depth=(\d+) text=(.*)$", ml[i])
        om = re.search(DISPLAY_OUT[sink], r["stdout"] + r["stderr"])
        if mm and "..." in mm.group(2):
            cut += 1
        if (not mm or not om or om.group(1) != mm.group(2)) and tie is None:
            tie = i
    ctx.cov["traces_validated_against_impl"] += len(cases)
    ctx.stream_stat("display" + SUF(), cases=len(cases), texts_compared=0 if not HAVE_DRIVER else len(cases), texts_with_cut=cut,
                    sinks={k: sum(1 for _, s_ in cases if s_ == k) for k in DISPLAY_OUT})
    j = len(cases) // 3
    ctx.sample({"display_case": lines[j], "sink": cases[j][1], "model": (ml[j] or "")[:120], "stdout": res[j]["stdout"][-120:]})
    ok = True
    if bad is not None:
        adj, sink = cases[bad]
        r = res[bad]
        ctx.cov["impl_vs_spec_failures"] += 1
        ctx.violation("display_spec" + SUF(), {"engine": "display", "kind": "implementation-vs-spec", "what": "host crash / hang: %s" % r["status"][:200],
                                               "graph": lines[bad], "sink": sink, "program": display_program(adj, sink)[:4000], "status": r["status"],
                                               "stdout": r["stdout"][-300:], "stderr": r["stderr"][-300:], "seed": ctx.seed})
        ok = False
    if tie is not None:
        adj, sink = cases[tie]
        r = res[tie]
        ctx.cov["model_vs_impl_disagreements"] += 1
        ctx.violation("display_tie", {"engine": "display", "kind": "model-vs-implementation",
                                      "broken": "correspondence stream display (Model/Signature.lean displayText vs laythe_core utils::fmt_nested / Display for List)",
                                      "graph": lines[tie], "sink": sink, "program": display_program(adj, sink)[:4000], "model": (ml[tie] or "")[:600],
                                      "status": r["status"], "stdout": r["stdout"][-600:], "stderr": r["stderr"][-300:]}, no_input=bad is not None)
        ok = False
    return ok


# ---------------------------------------------------------------------------------------------
# sig stream

PKINDS = ["object", "bool", "number", "string", "callable", "enumerator", "class"]   # replaced by the variants of the enum at run time
VK = ["nil", "bool", "number", "string", "list", "map", "tuple", "closure", "fun", "native", "method", "class",
      "instance", "enumerator", "channel"]
SPEC_ALLOWED = {
    "object": set(VK), "bool": {"bool"}, "number": {"number"}, "string": {"string"},
    "callable": {"closure", "fun", "native", "method"}, "enumerator": {"enumerator"}, "class": {"class"},
}


def spec_sig(arity, params, is_method, args):
    """The Spec of the signature check, stated independently of the model: a call may be accepted only if the
    count is inside the arity and every argument is of a kind its parameter allows."""
    if is_method:
        params = ["object"] + params
        arity = (arity[0],) + tuple(x + 1 for x in arity[1:])
    n = len(args)
    if arity[0] == "F" and n != arity[1]:
        return False
    if arity[0] == "V" and n < arity[1]:
        return False
    if arity[0] == "D" and not (arity[1] <= n <= arity[2]):
        return False
    for i, a in enumerate(args):
        p = params[min(i, len(params) - 1)] if arity[0] == "V" else params[i]
        if a not in SPEC_ALLOWED[p]:
            return False
    return True


def gen_sig_case(rng):
    t = rng.choice("FFVVDD")
    if t == "F":
        n = rng.randint(0, 4)
        arity, np = ("F", n), n
    elif t == "V":
        n = rng.randint(0, 3)
        arity, np = ("V", n), n + 1
    else:
        lo = rng.randint(0, 3)
        hi = lo + rng.randint(0, 3)
        arity, np = ("D", lo, hi), hi
    if rng.random() < 0.03:
        np = max(0, np + rng.choice([-1, 1]))   # ill-formed: to_sig asserts
    params = [rng.choice(PKINDS) for _ in range(np)]
    is_method = rng.random() < 0.5
    target = {"F": arity[1], "V": arity[1] + rng.randint(0, 3), "D": rng.randint(arity[1], arity[-1])}[t] + (1 if is_method else 0)
    r = rng.random()
    if r < 0.2:
        target = max(1 if is_method else 0, target + rng.choice([-2, -1, 1, 2]))
    args = []
    full = (["object"] if is_method else []) + params
    for i in range(target):
        p = full[min(i, len(full) - 1)] if full else "object"
        if rng.random() < 0.75:
            args.append(rng.choice(sorted(SPEC_ALLOWED[p])))
        else:
            args.append(rng.choice(VK))
    return arity, params, is_method, args


def fmt_sig_case(c):
    arity, params, is_method, args = c
    return "%s ; %s ; %s ; %s" % (" ".join(str(x) for x in arity), " ".join(params), "m" if is_method else "f", " ".join(args))


def sig_exhaustive():
    """all signatures with ≤ 2 declared parameters × all argument lists of length ≤ 2 over a kind per class"""
    kinds = ["nil", "bool", "number", "string", "fun", "list", "instance", "enumerator", "class"]
    out = []
    for arity in [("F", 0), ("F", 1), ("F", 2), ("V", 0), ("V", 1), ("D", 0, 1), ("D", 0, 2), ("D", 1, 2), ("D", 2, 2)]:
        np = {"F": arity[1], "V": arity[1] + 1, "D": arity[-1]}[arity[0]]
        for params in itertools.product(PKINDS, repeat=np):
            for n in range(0, 4):
                if np == 2 and n == 3:
                    combos = [("number", "string", "fun"), ("nil", "nil", "nil"), ("string", "number", "number"),
                              ("enumerator", "enumerator", "enumerator"), ("class", "enumerator", "list")]
                else:
                    combos = itertools.product(kinds, repeat=n)
                for args in combos:
                    out.append((arity, list(params), False, list(args)))
                    if n >= 1:
                        out.append((arity, list(params), True, list(args)))
    return out


def sig_stream(ctx, rng):
    missing = [k for k in PKINDS if k not in SPEC_ALLOWED]
    if missing:
        ctx.violation("sig_spec_kinds", {"kind": "model-vs-implementation", "broken": "enum ParameterKind has variants the Spec table "
                      "SPEC_ALLOWED of vlib/props/c16.py does not describe", "variants": missing}, no_input=True)
        return False
    cases = sig_exhaustive() + [gen_sig_case(rng) for _ in range(ctx.n(20000, 400000))]
    lines = [fmt_sig_case(c) for c in cases]
    rc, io, err = common.run_lines([common.harness_path(bin="vh_sig")], lines, timeout=900)
    mo = model_lines(lines) if HAVE_DRIVER else list(io)   # no model: only the Spec judges
    ctx.cov["traces_validated_against_impl"] += len(lines)
    acc = sum(1 for l in io if l.startswith("civ=ok"))
    ctx.stream_stat("sig", cases=len(lines), accepted=acc, rejected=len(lines) - acc,
                    ill_formed=sum(1 for l in io if l.startswith("civ=panic")))
    spec_bad = tie_bad = None
    for i, c in enumerate(cases):
        a = io[i] if i < len(io) else "<missing>"
        m = mo[i] if i < len(mo) else "<missing>"
        ctx.count_case(lines[i], nontrivial=not a.startswith("civ=panic"))
        if a.startswith("civ=panic"):
            if m != a and tie_bad is None:
                tie_bad = i
            continue
        ok_civ = a.startswith("civ=ok")
        ok_sig = " sig=ok " in a
        want = spec_sig(*c)
        if (ok_civ and not want) or (ok_sig and not want):
            if spec_bad is None:
                spec_bad = (i, "the signature check accepts an argument list the Spec forbids")
        elif (not ok_civ or not ok_sig) and want:
            if spec_bad is None:
                spec_bad = (i, "the signature check rejects an argument list the Spec allows")
        if a != m and tie_bad is None:
            tie_bad = i
    ctx.sample({"sig_case": lines[len(lines) // 2], "impl": io[len(lines) // 2] if len(io) > len(lines) // 2 else None})
    if spec_bad:
        i, msg = spec_bad
        small = shrink_sig(cases[i], lambda c: sig_spec_fails(c))
        ctx.cov["impl_vs_spec_failures"] += 1
        ctx.violation("sig_spec", {"engine": "sig", "kind": "implementation-vs-spec", "what": msg, "input": fmt_sig_case(small),
                                   "impl": impl_sig(fmt_sig_case(small)),
                                   "model": (model_lines([fmt_sig_case(small)]) or ["<none>"])[0] if HAVE_DRIVER else "<drv_sig not built>",
                                   "spec_allows": spec_sig(*small), "seed": ctx.seed})
        return False
    if tie_bad is not None:
        small = shrink_sig(cases[tie_bad], lambda c: impl_sig(fmt_sig_case(c)) != (model_lines([fmt_sig_case(c)]) or ["<none>"])[0])
        ctx.cov["model_vs_impl_disagreements"] += 1
        ctx.violation("sig_tie", {"engine": "sig", "kind": "model-vs-implementation",
                                  "broken": "correspondence stream sig (Model/Signature.lean vs check_if_valid_call / NativeSignature::check / Arity::check)",
                                  "input": fmt_sig_case(small), "impl": impl_sig(fmt_sig_case(small)),
                                  "model": model_lines([fmt_sig_case(small)])[0]}, no_input=True)
        return False
    return True


def impl_sig(line):
    rc, io, err = common.run_lines([common.harness_path(bin="vh_sig")], [line])
    return io[0] if io else "<none>"


def sig_spec_fails(c):
    a = impl_sig(fmt_sig_case(c))
    if a.startswith("civ=panic") or a == "bad-op":
        return False
    want = spec_sig(*c)
    return (a.startswith("civ=ok") != want) or ((" sig=ok " in a) != want)


def shrink_sig(case, fails):
    arity, params, is_method, args = case
    changed = True
    while changed:
        changed = False
        for i in range(len(args)):
            cand = (arity, params, is_method, args[:i] + args[i + 1:])
            try:
                if fails(cand):
                    args = cand[3]
                    changed = True
                    break
            except Exception:
                pass
    return (arity, params, is_method, args)


# ---------------------------------------------------------------------------------------------
# frames stream: recursion shapes

# (name, definitions, entry call, frame ops of one cycle starting with the entry call)
# ops: c = Laythe frame (call_closure / call), n = stub frame of a stack-using native, l = stub popped again.
# `{D}` (= `d = d + 1;`) sits at the start of every Laythe function of the cycle: `d` counts the activations admitted.
SHAPES = [
    ("closure", "fn f(n) { {D} return f(n + 1); }", "f(0)", "c"),
    ("method", "class A { m(n) { {D} return self.m(n + 1); } }", "A().m(0)", "c"),
    ("init", "class A { init(n) { {D} self.x = A(n + 1); } }", "A(0)", "c"),
    ("mutual", "fn f(n) { {D} return g(n + 1); } fn g(n) { {D} return f(n + 1); }", "f(0)", "c c"),
    ("lambda", "let h = nil; h = |n| { {D} return h(n + 1); };", "h(0)", "c"),
    ("each", "fn f(n) { {D} [n].iter().each(|x| { {D} f(x + 1); }); }", "f(0)", "c n c"),
    ("map_list", "fn f(n) { {D} return [n].iter().map(|x| { {D} return f(x + 1); }).list(); }", "f(0)", "c n l c"),
    ("filter_len", "fn f(n) { {D} return [n].iter().filter(|x| { {D} return f(x + 1); }).len(); }", "f(0)", "c n l c"),
    ("reduce", "fn f(n) { {D} return [n].iter().reduce(0, |a, x| { {D} return f(x + 1); }); }", "f(0)", "c n c"),
    ("into", "fn f(n) { {D} return [n].iter().into(|it| { {D} return f(n + 1); }); }", "f(0)", "c n c"),
    ("all", "fn f(n) { {D} return [n].iter().all(|x| { {D} return f(x + 1); }); }", "f(0)", "c n c"),
    ("sort", "fn f(n) { {D} return [n, n].sort(|a, b| { {D} return f(n + 1); }); }", "f(0)", "c n c"),
    ("fun_call", "fn f(n) { {D} return f.call(n + 1); }", "f(0)", "c n"),
    ("method_call", "class A { m(n) { {D} return self.m.call(n + 1); } }", "A().m(0)", "c n"),
    ("str_print", "class A { str() { {D} print(self); return \"a\"; } }", "print(A())", "n c"),
    ("list_str", "class A { str() { {D} return [self].str(); } }", "A().str()", "c n"),
    ("interpolate", "class A { str() { {D} return \"${self}\"; } }", "A().str()", "c"),
    ("for_in", "fn f(n) { {D} for x in [n] { f(x + 1); } }", "f(0)", "c"),
    ("collect", "fn f(n) { {D} return List.collect([n].iter().map(|x| { {D} return f(x + 1); })); }", "f(0)", "c n l c"),
    # containers that contain themselves: the recursion runs through stub frames only
    ("self_list_str", "let l = [1]; l.push(l);", "l.str()", "n"),
    ("self_map_print", "let m = {1: 2}; m[2] = m;", "print(m)", "n"),
    ("self_tuple_interp", "let l = [1]; let t = (l, 2); l.push(t);", "\"${t}\"", "n"),
]


def frames_program(shape, wrappers):
    name, defs, entry, ops = shape
    lines = ["let d = 0;", defs.replace("{D}", "d = d + 1;")]
    call = entry
    for i in range(wrappers):
        lines.append("fn w%d() { return %s; }" % (i, call if i == 0 else "w%d()" % (i - 1)))
    if wrappers:
        call = "w%d()" % (wrappers - 1)
    lines.append("try { %s; print(\"RES returned\"); } catch e: Error { print(\"RES caught ${e.message}\"); }" % call)
    lines.append("print(\"RES alive d=${d}\");")
    return "\n".join(lines) + "\n"


def frames_model_line(shape, wrappers):
    # the script is frame 1; each wrapper adds one guarded frame; then the cycle repeats up to the first overflow
    return "%d ; %s" % (1 + wrappers, shape[3])


def frames_stream(ctx, rows):
    if hang_guard(ctx, "frames"):
        return True
    cases = []
    for sh in SHAPES:
        for w in range(ctx.n(4, 8)):
            cases.append((sh, w))
    if HAVE_DRIVER:
        ml = model_lines([frames_model_line(sh, w) for sh, w in cases], engine="frames")
        if len(ml) != len(cases):
            ml = ["<missing>"] * len(cases)
    else:
        ml = [None] * len(cases)
    run = [frames_program(sh, w) for sh, w in cases]
    res = run_programs(run, timeout=300)
    bad = None
    tie = None
    for i, r in enumerate(res):
        sh, w = cases[i]
        ctx.count_case(["frames", sh[0], w], nontrivial=True)
        if CRASH.match(r["status"]):
            if bad is None:
                bad = (i, r, "unbounded recursion ended in a host crash / hang instead of the catchable error: %s" % r["status"][:160])
            continue
        if "RES caught Stack overflow." not in r["stdout"] or "RES alive" not in r["stdout"]:
            if bad is None:
                bad = (i, r, "unbounded recursion did not end in a catchable `Stack overflow.`; the program printed %r" % r["stdout"][-160:])
            continue
        if ml[i] is None:
            continue
        mm = re.match(r"overflow frames=(\d+) calls=(\d+) natives=(\d+)$", ml[i])
        dm = re.search(r"RES alive d=(\d+)", r["stdout"])
        if not mm:
            if tie is None:
                tie = (i, r, "the frame model does not reach the limit (%s); the program printed %r" % (ml[i], r["stdout"][-160:]))
        elif not dm or int(dm.group(1)) != int(mm.group(2)):
            if tie is None:
                tie = (i, r, "the frame model admits %s Laythe activations before `Stack overflow.` (%s); the program counted %s"
                       % (mm.group(2), ml[i], dm.group(1) if dm else "?"))
    ctx.cov["traces_validated_against_impl"] += len(run)
    ctx.stream_stat("frames" + SUF(), shapes=len(SHAPES), cases=len(cases), run=len(run),
                    activation_counts_compared=0 if not HAVE_DRIVER else len(run))
    if run:
        j = len(run) // 2
        ctx.sample({"frames_case": run[j][:200], "model": ml[j], "stdout": res[j]["stdout"][-80:]})
    ok = True
    if bad:
        i, r, msg = bad
        sh, w = cases[i]
        # shrink: fewest wrappers with the same shape that still fails in the same way
        crashed = bool(CRASH.match(r["status"]))
        for w2 in range(w):
            r2 = run_programs([frames_program(sh, w2)], timeout=300)[0]
            if bool(CRASH.match(r2["status"])) == crashed and (crashed or "RES caught Stack overflow." not in r2["stdout"]):
                w, r = w2, r2
                break
        ctx.cov["impl_vs_spec_failures"] += 1
        ctx.violation("frames_spec" + SUF(), {"engine": "frames", "kind": "implementation-vs-spec", "what": msg, "shape": sh[0], "wrappers": w,
                                      "program": frames_program(sh, w), "model": ml[i], "status": r["status"], "stdout": r["stdout"][-300:],
                                      "seed": ctx.seed})
        ok = False
    if tie:
        i, r, msg = tie
        sh, w = cases[i]
        ctx.cov["model_vs_impl_disagreements"] += 1
        ctx.violation("frames_tie", {"engine": "frames", "kind": "model-vs-implementation", "what": msg, "shape": sh[0], "wrappers": w,
                                     "broken": "correspondence stream frames (Model/Signature.lean frameStep vs call_closure/call/call_native)",
                                     "program": frames_program(sh, w), "model": ml[i], "status": r["status"], "stdout": r["stdout"][-300:]},
                      no_input=bad is not None)
        ok = False
    return ok


# ---------------------------------------------------------------------------------------------
# rec stream: unbounded recursion through every native that runs user code x every alignment of the frame limit x the overflow
# caught at every level (script, function, callback of an enclosing native, the recursion itself, a handler) x continuation.
# The programs are terms of the statement language of Model/RecFrames.lean (vlib/props/c16_rec.py renders them);
# the model predicts the outcome, the number of activations admitted, the number of handlers run, and that the number of
# temporary roots is the one of the control run (same text, the recursion gives up long before the limit).

REC_MODEL = re.compile(r"out=(\w+) frames=(\d+) roots=(-?\d+) peak=(\d+) calls=(\d+) caught=(\d+) first=(\d)$")
REC_END = re.compile(r"RES end d=(\d+) k=(\d+) bad=(\d+)")
BIG_LIMIT = 10 ** 9


def rec_guarded(defn, main):
    """every entry of the recursion is below a `try` (of the script or of the recursion itself): the run must end normally"""
    def unguarded(node, in_try):
        if node[0] == "rec":
            return not in_try
        if node[0] == "try":
            return unguarded(node[1], True) or unguarded(node[2], in_try)
        return any(unguarded(c, in_try) for c in node[1:] if isinstance(c, tuple))
    return not unguarded(defn, False) or not unguarded(main, False)


def rec_spec(defn, main, r, control):
    """implementation-vs-Spec, no model needed: neither run crashes; the control run ends normally; the run proper ends normally
    having caught only `Stack overflow.` errors — or, when an entry of the recursion is not below any `try`, in that language error"""
    for what, x in (("", r), ("control run (recursion bounded): ", control)):
        if CRASH.match(x["status"]):
            return what + "host crash / hang: %s" % x["status"][:200]
    if control["status"] != "Ok:0" or not REC_END.search(control["stdout"]):
        return "control run (recursion bounded) did not end normally: %s %r" % (control["status"], (control["stdout"] + control["stderr"])[-200:])
    m = REC_END.search(r["stdout"])
    if r["status"] == "Ok:0" and m:
        if int(m.group(3)) != 0:
            return "a handler caught an error that is not `Stack overflow.` (%s of them)" % m.group(3)
        if int(m.group(2)) == 0:
            return "unbounded recursion ended without any error"
        return None
    if r["status"] == "RuntimeError:1" and "Stack overflow." in r["stderr"] and not rec_guarded(defn, main):
        return None
    return "unbounded recursion below a `try` did not end in a caught `Stack overflow.` and normal continuation: %s %r" % (
        r["status"], (r["stdout"][-120:] + r["stderr"][-200:]))


def rec_tie(ml, r, control):
    """model-vs-implementation: outcome, counters, temporary roots"""
    mm = REC_MODEL.match(ml or "")
    if not mm:
        return "the model has no verdict: %s" % ml
    out, calls, caught = mm.group(1), int(mm.group(5)), int(mm.group(6))
    if out == "panic" or int(mm.group(3)) != 0:
        return "the model itself predicts unbalanced temporary roots (%s)" % ml
    m = REC_END.search(r["stdout"])
    if out == "ok":
        if r["status"] != "Ok:0" or not m:
            return "the model predicts a normal end (%s); the program ended %s" % (ml, r["status"])
        if (int(m.group(1)), int(m.group(2))) != (calls, caught):
            return "the model admits %d activations and runs %d handlers; the program counted d=%s k=%s" % (calls, caught, m.group(1), m.group(2))
    else:
        if r["status"] != "RuntimeError:1":
            return "the model predicts the uncaught error (%s); the program ended %s" % (ml, r["status"])
    a, b = r.get("stats_end"), control.get("stats_end")
    if out == "ok" and isinstance(a, dict) and isinstance(b, dict) and a.get("temp_roots") != b.get("temp_roots"):
        return ("temporary roots are not balanced: %s at the end of the run, %s at the end of the control run (same text, recursion bounded); "
                "the model predicts no difference" % (a.get("temp_roots"), b.get("temp_roots")))
    return None


def rec_shrink(defn, main, fails, budget=80):
    """greedy reduction of the two terms: replace a node by a child / by skip, drop an item of a sequence"""
    def variants(node):
        t = node[0]
        if t in ("skip", "rec"):
            return
        kids = [i for i, c in enumerate(node) if isinstance(c, tuple)]
        for i in kids:
            yield node[i]                                  # the node replaced by a child
        if t == "seq" and len(kids) > 1:
            for i in kids:
                yield node[:i] + node[i + 1:]
        for i in kids:
            for v in variants(node[i]):
                yield node[:i] + (v,) + node[i + 1:]
        yield ("skip",)
    import vlib.props.c16_rec as RC
    changed = True
    while changed and budget > 0:
        changed = False
        for which in (1, 0):
            cur = (defn, main)[which]
            for v in variants(cur):
                cand = (v, main) if which == 0 else (defn, v)
                if RC.count_rec(cand[0]) > 1:
                    continue
                budget -= 1
                if budget <= 0:
                    break
                if fails(cand[0], cand[1]):
                    defn, main = cand
                    changed = True
                    break
            if changed:
                break
    return defn, main


def rec_stream(ctx, rows, rng):
    if hang_guard(ctx, "rec"):
        return True
    from . import c16_rec as RC
    kinds = list(RC.KINDS)
    if rows is not None:
        # every native of the regenerated table that runs code of the program (or takes a callable) has a recipe
        covered = RC.covered_natives() | set(RC.NOT_USER_CODE)
        missing = [r["struct"] for r in rows if (r["callsBack"] or any(k == "Callable" for _, k in r["params"])) and r["struct"] not in covered]
        if missing:
            ctx.violation("rec_unreachable", {"kind": "model-vs-implementation", "broken": "a native of the regenerated table that calls back into the "
                          "program has no recursion recipe in vlib/props/c16_rec.py (KINDS)", "natives": missing}, no_input=True)
            return False
    cycle_kinds = ["plain"] + RC.SINGLE
    npads = 4
    cases = RC.systematic(cycle_kinds, kinds, npads)
    if RELEASE:
        cases = [c for c in cases if rng.random() < 0.5]
    for _ in range(10000 if SEARCH else ctx.n(2000, 40000)):
        cases.append(RC.random_case(rng, RC.SINGLE, kinds))
    lines = [RC.model_line(d_, m_) for _, d_, m_ in cases]
    if HAVE_DRIVER:
        ml = model_lines(lines, engine="rec")
        if len(ml) != len(cases):
            ml = ["<missing>"] * len(cases)
    else:
        ml = [None] * len(cases)
    n = len(cases)
    res = run_programs([RC.program(d_, m_, BIG_LIMIT) for _, d_, m_ in cases] + [RC.program(d_, m_, 2) for _, d_, m_ in cases],
                       timeout=300, extra="--stats")
    # once more with a collection at every allocation: the stub `Fun` of a native, the error being raised and the temporaries of
    # the natives on the way must be rooted wherever the overflow strikes
    # (the systematic cases and the first random ones: a collection per allocation makes the long random programs slow)
    ngc = sum(1 for c in cases if "/" in c[0]) + 500
    gres = run_programs([RC.program(d_, m_, BIG_LIMIT) for _, d_, m_ in cases[:ngc]], timeout=300, extra="--gc every:1 --stats")
    gres += res[len(gres):n]
    bad = tie = None
    outcomes, first_by_kind, levels = {}, {}, {}
    for i, (name, d_, m_) in enumerate(cases):
        r, c = res[i], res[n + i]
        ctx.count_case(["rec", lines[i]], nontrivial=True)
        st = r["status"].split(":")[0]
        outcomes[st] = outcomes.get(st, 0) + 1
        mm = REC_MODEL.match(ml[i] or "")
        if mm and "/" in name:
            first_by_kind.setdefault(name.split("/")[0], set()).add(mm.group(7))
            levels[name.split("/")[2]] = levels.get(name.split("/")[2], 0) + 1
        msg = rec_spec(d_, m_, r, c)
        gc = ""
        if not msg:
            msg = rec_spec(d_, m_, gres[i], c)
            gc = " --gc every:1" if msg else ""
        if msg:
            if bad is None:
                bad = (i, msg, gc)
            continue
        if ml[i] is not None and tie is None:
            msg = rec_tie(ml[i], r, c)
            if not msg:
                msg = rec_tie(ml[i], gres[i], c)
                gc = " --gc every:1" if msg else ""
            if msg:
                tie = (i, msg, gc)
    ctx.cov["traces_validated_against_impl"] += 3 * n
    with_stub = [k for k in cycle_kinds if k != "plain" and "nat" in RC.KINDS[k][3]]
    ctx.stream_stat("rec" + SUF(), cases=n, systematic=sum(1 for c in cases if "/" in c[0]), random=sum(1 for c in cases if "/" not in c[0]),
                    cycle_kinds=len(cycle_kinds), enclosing_kinds=len(kinds), pads=npads, outcomes=outcomes,
                    catch_levels=len(levels), counters_and_roots_compared=0 if not HAVE_DRIVER else n, runs_again_under_gc_every_1=min(n, ngc),
                    cycle_kinds_with_a_stub_frame=len(with_stub),
                    of_those_limit_hit_at_the_stub_and_at_a_laythe_frame=sum(1 for k in with_stub if first_by_kind.get(k, set()) >= {"1", "2"}))
    j = n // 3
    ctx.sample({"rec_case": cases[j][0], "model_request": lines[j], "model": ml[j], "status": res[j]["status"], "stdout": res[j]["stdout"][-60:]})
    ok = True
    if HAVE_DRIVER and not RELEASE:
        gaps = [k for k in with_stub if not first_by_kind.get(k, set()) >= {"1", "2"}]
        if gaps and not bad:
            ctx.violation("rec_alignment_gap", {"kind": "model-vs-implementation", "broken": "rec stream: for these recursion shapes the pads 0..%d never "
                          "put the frame limit at the native's stub frame and at a Laythe frame" % (npads - 1), "kinds": gaps}, no_input=True)
            ok = False
    if bad:
        i, msg, gc = bad
        name, d_, m_ = cases[i]
        crashed = "crash" in msg

        def both(d2, m2):
            return run_programs([RC.program(d2, m2, BIG_LIMIT), RC.program(d2, m2, 2)], timeout=120, extra=gc + " --stats")

        def fails(d2, m2):
            rr = both(d2, m2)
            w = rec_spec(d2, m2, rr[0], rr[1])
            return bool(w) and (("crash" in w) == crashed)
        d_, m_ = rec_shrink(d_, m_, fails)
        rr = both(d_, m_)
        msg = rec_spec(d_, m_, rr[0], rr[1]) or msg
        r = rr[1] if CRASH.match(rr[1]["status"]) and not CRASH.match(rr[0]["status"]) else rr[0]
        line = RC.model_line(d_, m_)
        ctx.cov["impl_vs_spec_failures"] += 1
        ctx.violation("rec_spec" + SUF(), {"engine": "rec", "kind": "implementation-vs-spec", "what": msg, "case": name,
                                           "program": RC.program(d_, m_, 2 if r is rr[1] else BIG_LIMIT), "options": STEPS + gc + " --stats",
                                           "model_request": line, "model": (model_lines([line], engine="rec") or [None])[0] if HAVE_DRIVER else None,
                                           "expect": r"RES end d=\d+ k=\d+ bad=0\n STATUS=Ok:0$" if rec_guarded(d_, m_) else None,
                                           "status": r["status"], "stdout": r["stdout"][-300:], "stderr": r["stderr"][-300:], "seed": ctx.seed})
        hang_guard(ctx, "rec", r["status"])
        ok = False
    if tie:
        i, msg, gc = tie
        name, d_, m_ = cases[i]
        ctx.cov["model_vs_impl_disagreements"] += 1
        ctx.violation("rec_tie", {"engine": "rec", "kind": "model-vs-implementation", "what": msg, "case": name,
                                  "broken": "correspondence stream rec (Model/RecFrames.lean run vs call / call_closure / call_native / Fiber::stack_unwind)",
                                  "program": RC.program(d_, m_, BIG_LIMIT), "options": STEPS + gc + " --stats", "model_request": lines[i], "model": ml[i],
                                  "status": (gres if gc else res)[i]["status"], "stdout": (gres if gc else res)[i]["stdout"][-300:],
                                  "temp_roots": [(res[i].get("stats_end") or {}).get("temp_roots"), (res[n + i].get("stats_end") or {}).get("temp_roots")]},
                      no_input=True)
        ok = False
    return ok


# ---------------------------------------------------------------------------------------------
# misc stream: fixed shapes over every value kind

NOT_CALLABLE = {"nil", "bool", "number", "string", "list", "map", "tuple", "instance", "enumerator", "channel"}


def misc_cases(ctx):
    """(name, source, expectation) — expectation is a regex that stdout + stderr + ` STATUS=<status>` must match, or None
    (= only `no crash`)"""
    out = []
    wrap = lambda body: (PRELUDE + "fn t_() { %s }\n" % body +
                         "try { t_(); print(\"RES ok\"); } catch e: Error { print(\"RES err ${e.cls().name()} ${e.message}\"); }\n")
    def add(case):
        """every (operation, kind) case in three storage classes of the operand: a plain local, a local that a closure
        captures (boxed), and a captured variable used from inside the closure"""
        name, src, exp = case
        out.append(case)
        m = re.search(r"fn t_\(\) \{ (let v = .*?;) (.*) \}\ntry \{ t_\(\);", src, re.S)
        if not m:
            return
        decl, rest = m.group(1), m.group(2)
        head, tail = src[:m.start(1)], src[m.end(2):]
        out.append((name + "_boxed", head + decl + " let k_ = || v; " + rest + tail, exp))
        if "launch" not in rest:
            out.append((name + "_captured", head + decl + " let f_ = || { " + rest + " }; f_();" + tail, exp))

    for ex, k in VALUES:
        for nargs in (0, 1, 2):
            exp = r"RES err RuntimeError \w+( metaClass)? is not callable\." if k in NOT_CALLABLE else None
            add(("call_%s_%d" % (k, nargs), wrap("let v = %s; v(%s);" % (ex, ", ".join(["1"] * nargs))), exp))
        exp = None if k == "class" else r"RES err RuntimeError Superclass must be a class\."
        add(("inherit_" + k, wrap("let v = %s; class A : v {} let a = A();" % ex), exp))
        add(("inherit_super_" + k, wrap("let v = %s; class A : v { m() { return super.m(); } n() { return super.m; } p(x) { return super.m(x); } } let a = A();" % ex), exp))
        add(("inherit_super_local_class_" + k, wrap("let v = %s; class A : v { init() { super.init(); } } let a = A();" % ex), exp))
        add(("raise_" + k, wrap("raise %s;" % ex), r"RES err RuntimeError Can only raise an instance of Error"))
        exp = None if k == "instance" else r"RES err RuntimeError Only instances have settable fields\."
        add(("setprop_" + k, wrap("let v = %s; v.zz = 1;" % ex), exp))
        add(("getprop_" + k, wrap("let v = %s; let q = v.zz;" % ex), None))
        add(("invoke_" + k, wrap("let v = %s; v.zz();" % ex), None))
        add(("chan_" + k, wrap("let v = %s; let c = chan(v);" % ex), None if k == "number" else r"RES err TypeError"))
        add(("send_" + k, wrap("let v = %s; v <- 1;" % ex), None))
        add(("recv_" + k, wrap("let v = %s; let q = <- v;" % ex) if k != "channel" else wrap("let v = chan(1); v <- 1; let q = <- v;"), None))
        add(("iter_" + k, wrap("let v = %s; for q in v { }" % ex) if k not in ("channel",) else wrap("let v = [chan(1)]; for q in v { }"), None))
        add(("index_" + k, wrap("let v = %s; let q = v[0];" % ex), None))
        add(("neg_" + k, wrap("let v = %s; let q = -v;" % ex), None))
        add(("add_" + k, wrap("let v = %s; let q = v + v;" % ex), None))
        add(("less_" + k, wrap("let v = %s; let q = v < 1;" % ex), None))
        add(("interp_" + k, wrap("let v = %s; let q = \"a ${v} b\";" % ex), None))
        add(("launch_" + k, wrap("let v = %s; launch v(%s);" % (ex, "1" if k == "native" else "")), None))
    # channel capacities: integral, ≥ 1 and at most MAX_CHANNEL_CAPACITY (the buffer is allocated up front)
    for cap in ["0", "1", "2", "255", "256", "65536", "-1", "0.5", "1.5", "(0/0)", "(1/0)", "-(1/0)", "-0",
                "16777217", "4294967296", "1e10", "1e19", "1e300", "9007199254740993"]:
        exp = (r"RES ok" if cap in ("1", "2", "255", "256", "65536") else
               r"RES err ValueError buffer must be at most \d+\." if cap in ("16777217", "4294967296", "1e10", "1e19", "1e300", "9007199254740993")
               else r"RES err TypeError buffer must be an positive integer\.")
        out.append(("chan_cap_" + cap, wrap("let c = chan(%s); c <- 1;" % cap), exp))
    # a fiber whose first function needs more than 255 stack slots (script, launched function, launched lambda)
    big = ", ".join(str(i) for i in range(300))
    out.append(("big_literal_script", "let l = [%s];\nprint(\"RES ${l.len()}\");\n" % big, r"RES 300"))
    out.append(("big_literal_fn", wrap("let l = [%s]; print(\"RES ${l.len()}\");" % big), r"RES 300"))
    out.append(("big_literal_launch", "let c = chan(1);\nfn f() { let l = [%s]; c <- l.len(); }\nlaunch f();\nprint(\"RES ${<- c}\");\n" % big, r"RES 300"))
    out.append(("big_tuple_map_script", "let t = (%s);\nlet m = {%s};\nprint(\"RES ${t.len()} ${m.len()}\");\n"
                % (big, ", ".join("%d: %d" % (i, i) for i in range(140))), r"RES 300 140"))
    out.append(("big_call_script", "fn f(%s) { return a0; }\nprint(\"RES ${f(%s)}\");\n"
                % (", ".join("a%d" % i for i in range(250)), ", ".join(str(i) for i in range(250))), None))
    # user code run by natives and by the VM's own formatting: str() answering a non-string, exit, errors without a message
    N = "class N : Error { init() { } str() { return 1; } }\nclass S2 { str() { return nil; } }\n"
    out += [
        ("print_no_args", "print();\nprint(\"RES after\");\n", r"^\nRES after"),
        ("print_no_args_call", "print.call();\n[1].iter().each(|x| print());\nprint(\"RES after\");\n", r"^\n\nRES after"),
        ("str_nonstring_print", N + "print(N()); print(S2(), N()); print(\"RES after\");\n", r"1\nnil 1\nRES after"),
        ("str_nonstring_interpolate", N + "let q = \"a ${N()} b ${S2()} c\"; print(\"RES \" + q);\n", r"RES a 1 b nil c"),
        ("str_nonstring_in_list", N + "print([N(), S2()]); print(\"${(N(), 1)} ${{1: N()}}\"); print(\"RES after\");\n", r"RES after|Error"),
        ("uncaught_no_message", N + "raise N();\n", r"N: nil\n STATUS=RuntimeError:1"),
        ("uncaught_message_reassigned", "let e = Error(\"a\"); e.message = 1; raise e;\n", r"Error: 1\n STATUS=RuntimeError:1"),
        ("uncaught_message_list", "let e = Error(\"a\"); e.message = [e]; raise e;\n", r"STATUS=RuntimeError:1"),
        ("uncaught_no_message_in_callback", N + "[1].iter().each(|x| { raise N(); });\n", r"N: nil\n STATUS=RuntimeError:1"),
        ("exit_in_each", "[1].iter().each(|x| exit(3));\nprint(\"no\");\n", r"^ STATUS=\w+:3$"),
        ("exit_in_str_of_print", "class A { str() { exit(4); } }\nprint(A());\nprint(\"no\");\n", r"^ STATUS=\w+:4$"),
        ("exit_in_str_of_interpolate", "class A { str() { exit(5); } }\nlet q = \"${A()}\";\nprint(\"no\");\n", r"^ STATUS=\w+:5$"),
        ("exit_in_lazy_map_for_in", "for x in [1].iter().map(|x| exit(6)) { }\nprint(\"no\");\n", r"^ STATUS=\w+:6$"),
        ("exit_in_nested_callbacks_in_try", "try { [1].iter().each(|x| [x].iter().map(|y| exit(7)).list()); } catch e: Error { print(\"no\"); }\nprint(\"no\");\n",
         r"^ STATUS=\w+:7$"),
        ("exit_in_sort_cmp", "[2, 1].sort(|a, b| exit(0));\nprint(\"no\");\n", r"^ STATUS=Ok:0$"),
        ("exit_in_launched_callback", "fn f() { [1].iter().each(|x| exit(8)); }\nlaunch f();\nlet c = chan(); <- c;\n", r"^ STATUS=\w+:8$"),
        # an error leaving a callback of a stack-less native (or `for … in` over a lazy iterator) into a `try` of the activation that called it
        ("stackless_callback_error_same_activation", "try { [1, 2].iter().map(|x| [][x]).first(); print(\"no\"); } catch e: Error { print(\"RES err ${e.cls().name()}\"); }\n",
         r"RES err IndexError"),
        ("stackless_callback_error_for_in", "let n = 0;\ntry { for x in [1, 2].iter().map(|x| [][x]) { n = n + 1; } } catch e: Error { print(\"RES ${n} ${e.cls().name()} ${e.message}\"); }\n",
         r"RES 0 IndexError "),
        ("stackless_callback_error_loop", "let k = 0;\nfor i in 3000.times() { try { [1].iter().map(|x| [][x]).list(); } catch e: Error { k = k + 1; } }\nprint(\"RES ${k}\");\n", r"RES 3000"),
        ("stackless_callback_error_value_kept", "fn g() { let a = \"keep\"; try { List.collect([1].iter().map(|x| [][x])); } catch e: Error { return a + e.cls().name(); } return \"no\"; }\nprint(\"RES \" + g());\n",
         r"RES keepIndexError"),
        # a list built from an iterator that promised no elements can grow
        ("zero_capacity_list_push", "let l = [].iter().list(); l.push(1); l.push(2); l.insert(0, 3); print(\"RES ${l}\");\n", r"RES \[3, 1, 2\]"),
        ("zero_hint_skip_list", "let l = []; let it = l.iter().skip(1); l.push(1); l.push(2); print(\"RES ${it.list()}\");\n", None),
        ("zero_capacity_push_many", "let l = [].iter().list(); l.push(%s); let k = [l.len()]; let i = 0; while i < 200 { k.push([i, i]); i = i + 1; } "
         "print(\"RES ${l.len()} ${l[39]} ${k.len()}\");\n" % ", ".join(str(i) for i in range(40)), r"RES 40 39 201"),
        ("zero_capacity_collect_push", "let l = List.collect(0.times()); let i = 0; while i < 100 { l.push(i); i = i + 1; } print(\"RES ${l.len()}\");\n", r"RES 100"),
    ]
    # the native `exit` itself handed to a native as its callback, and an exit below a native called by a hook (repaired DC16.10)
    for name, call, code in [("all", "[1, 2].iter().all(exit)", 1), ("each", "[4].iter().each(exit)", 4), ("any", "[5].iter().any(exit)", 5),
                             ("map_list", "[6].iter().map(exit).list()", 6), ("filter_len", "[7].iter().filter(exit).len()", 7),
                             ("into", "[8].iter().into(|i| i).each(exit)", 8), ("call", "exit.call(9)", 9), ("call_call", "exit.call.call(10)", 10),
                             ("for_in_map", "for x in [11].iter().map(exit) { }", 11), ("collect", "List.collect([12].iter().map(exit))", 12),
                             ("reduce_arity", "[13].iter().reduce(0, exit)", None), ("sort_arity", "[2, 1].sort(exit)", None),
                             ("launch", "launch exit(14); let c = chan(); <- c", 14)]:
        exp = r"^ STATUS=\w+:%d$" % code if code is not None else r"^RES err RuntimeError"
        out.append(("exit_native_" + name, "fn t_() { %s }\ntry { t_(); print(\"no\"); } catch e: Error { print(\"RES err ${e.cls().name()}\"); }\n"
                    % (call if call.endswith("}") else call + ";"), exp))
    out += [
        ("exit_in_str_below_list_str", "class A { str() { exit(3); } }\ntry { print([A()]); } catch e: Error { print(\"no\"); }\nprint(\"no\");\n", r"^ STATUS=\w+:3$"),
        ("exit_in_str_below_map_str_interpolate", "class A { str() { exit(4); } }\nlet q = \"${{1: (A(), 2)}}\";\nprint(\"no\");\n", r"^ STATUS=\w+:4$"),
        ("exit_in_str_below_assert", "class A { str() { exit(5); } }\ntry { assertEq([A()], 1); } catch e: Error { print(\"no\"); }\nprint(\"no\");\n", r"^ STATUS=\w+:5$"),
    ]
    # RegExp: the fields are ordinary assignable fields (repaired DC16.5)
    RX = "import std.regexp: {RegExp};\n"
    for ex, k in VALUES:
        if ex == "exit":
            continue
        for meth in ("test", "match", "matchAll", "captures"):
            exp = None if k == "string" else r"RES err SyntaxError Expected pattern to be a string\."
            out.append(("regexp_pattern_%s_%s" % (k, meth), RX + wrap("let v = %s; let r = RegExp(\"a\"); r.pattern = v; r.flags = v; let q = r.%s(\"xaay\"); print(q);" % (ex, meth)), exp))
    out += [
        ("regexp_subclass_no_super", RX + wrap("class R : RegExp { init() { } } let q = R().test(\"a\");"), r"RES err SyntaxError Expected pattern to be a string\."),
        ("regexp_pattern_restored", RX + wrap("let r = RegExp(\"a\"); r.pattern = 1; r.pattern = \"b+\"; print(\"RES ${r.match(\"abbc\")}\");"), r"RES bb"),
        ("regexp_init_again", RX + wrap("let r = RegExp(\"a\"); r.init(\"c\", \"i\"); print(\"RES ${r.test(\"c\")} ${r.flags}\");"), r"RES true i"),
    ]
    # values written by Rust `Display`: bounded on containers that contain themselves and on deep nesting (repaired DC16.11)
    SELF = ("let selfl = [1]; selfl.push(selfl); let selfm = {1: 2}; selfm[2] = selfm; let l2 = [2]; let selft = (l2, 3); l2.push(selft);\n"
            "let twice = [0]; twice.push(twice); twice.push(twice); twice.push(twice);\n"
            "let deepl = []; let mchain = [1].push; let kk = 0; while kk < 3000 { deepl = [deepl]; mchain = mchain.call; kk = kk + 1; }\n"
            "class N : Error { init() { } str() { return 1; } }\n")
    for vn, v, shown in [("selfl", "selfl", r"\[1, \[\.\.\.\]\]"), ("selfm", "selfm", r"\{.*\{\.\.\.\}.*\}"), ("selft", "selft", r"\(\[2, \(\.\.\.\)\], 3\)"),
                         ("twice", "twice", r"\[0, \[\.\.\.\], \[\.\.\.\], \[\.\.\.\]\]"), ("deepl", "deepl", r"\[{64}\[\.\.\.\]\]{64}"),
                         ("mchain", "mchain", r"\.\.\.(\.<call native 0x[0-9a-f]+>){64}"), ("nested_ok", "[[1, (2, {3: [4]})]]", r"\[\[1, \(2, \{3: \[4\]\}\)\]\]")]:
        out += [
            ("display_key_" + vn, SELF + "try { let q = ({1: 2})[%s]; } catch e: Error { print(\"RES ${e.cls().name()} ${e.message}\"); }\n" % v,
             r"RES KeyError Key not found\. %s is not present" % shown),
            ("display_str_print_" + vn, SELF + "class A { str() { return %s; } }\nprint(A()); print(1, A()); print(\"RES after\");\n" % v, r"^%s\n1 %s\nRES after" % (shown, shown)),
            ("display_str_interpolate_" + vn, SELF + "class A { str() { return %s; } }\nprint(\"RES ${A()}|\");\n" % v, r"RES %s\|" % shown),
            ("display_uncaught_message_" + vn, SELF + "let e = Error(\"a\"); e.message = %s; raise e;\n" % v, r"Error: %s\n STATUS=RuntimeError:1" % shown),
            ("display_assert_" + vn, SELF + "class A { str() { return %s; } }\ntry { assertEq(A(), 1); } catch e: Error { print(\"RES ${e.message}\"); }\n" % v,
             r"RES Expected '%s' to equal '1'\." % shown),
            ("display_expected_type_str_" + vn, SELF + "let inner = [N(), %s]; let q = [inner].str(); print(\"RES ${q.cls().name()}\");\n" % v, r"RES \w+"),
        ]
    # assertEq / assertNe: the str() of an argument raises, exits, answers a non-string; the error is the one of str() (repaired DC16.9)
    AS = ("class RS { str() { raise ValueError(\"in str\"); } }\nclass NS { str() { return 5; } }\nclass LS { str() { return [NS()]; } }\n"
          "let selfl = [1]; selfl.push(selfl);\n")
    for fn in ("assertEq", "assertNe"):
        same = fn == "assertNe"
        for vn, v, exp in [("raises", "RS()", r"RES ValueError in str"), ("self_container", "selfl", r"RES RuntimeError Stack overflow\."),
                           ("nonstring", "NS()", r"RES AssertError Expected .*\b5\b"), ("list_of_nonstring", "[NS()]", r"RES \w+Error"),
                           ("str_list", "LS()", r"RES AssertError Expected .*\[<instance NS 0x[0-9a-f]+>\]")]:
            for pos in (0, 1):
                if same:
                    call = "let v = %s; %s(v, v);" % (v, fn)
                else:
                    call = "%s(%s);" % (fn, ", ".join([v, "0"] if pos == 0 else ["0", v]))
                out.append(("%s_%s_%d" % (fn, vn, pos), AS + "try { %s print(\"no\"); } catch e: Error { print(\"RES ${e.cls().name()} ${e.message}\"); }\n" % call, exp))
    # both strings of the message are fresh and the second str() allocates (repaired DC16.12: the first was not rooted) — also under GC stress
    FR = ("class A { str() { return \"aaaa\" + \"bbbb\" + 1.str(); } }\n"
          "class B { str() { let l = []; let i = 0; while i < 50 { l.push(\"x\" + i.str()); i = i + 1; } return \"bb\" + l.len().str(); } }\n")
    out += [
        ("assertEq_fresh_strings", FR + "try { assertEq(A(), B()); } catch e: Error { print(\"RES ${e.message}\"); }\n", r"RES Expected 'aaaabbbb1' to equal 'bb50'\."),
        ("assertNe_fresh_strings", FR + "let a = A(); try { assertNe(a, a); } catch e: Error { print(\"RES ${e.message}\"); }\n", r"RES Expected aaaabbbb1 not to equal aaaabbbb1\."),
        ("assertEq_fresh_nonstring", FR + "class C { str() { return 12345.5; } }\ntry { assertEq(C(), B()); } catch e: Error { print(\"RES ${e.message}\"); }\n",
         r"RES Expected '12345\.5' to equal 'bb50'\."),
    ]
    # sort: a comparator that is not an order gives some permutation (repaired DC16.15)
    SO = ("let l = []; let i = 0; while i < %d { l.push(i * 37 - i * i); i = i + 1; }\nlet k = 0; let ERR = [1, -1, -1, 1, 0, 1, -1];\n"
          "let r = l.sort(%s);\nlet s = 0; for x in r { s = s + x; } let s0 = 0; for x in l { s0 = s0 + x; }\nprint(\"RES ${r.len()} ${s == s0}\");\n")
    for n in (21, 33, 64, 100, 257, 1000):
        for cn, cmp_ in [("cycle7", "|a, b| { k = k + 1; return ERR[k - (k / 7).floor() * 7]; }"), ("always_gt", "|a, b| 1"), ("always_lt", "|a, b| -1"),
                         ("flip", "|a, b| { k = k + 1; if k - (k / 2).floor() * 2 == 0 { return a - b; } return b - a; }"),
                         ("by_mod", "|a, b| { k = k + 1; return (a * k) - (b * 3); }")]:
            out.append(("sort_%s_%d" % (cn, n), SO % (n, cmp_), r"RES %d true" % n))
    out.append(("sort_stable_consistent", "let l = []; let i = 0; while i < 200 { l.push((i * 7 - (i * 7 / 5).floor() * 5, i)); i = i + 1; }\n"
                "let r = l.sort(|a, b| a[0] - b[0]); let ok = true; i = 1;\n"
                "while i < 200 { if r[i - 1][0] > r[i][0] || (r[i - 1][0] == r[i][0] && r[i - 1][1] > r[i][1]) { ok = false; } i = i + 1; }\nprint(\"RES ${ok} ${r.len()}\");\n",
                r"RES true 200"))
    # formatting of deeply nested containers (no cycle): the natives behind str() recurse through stub frames, so 10000 levels end in
    # the catchable `Stack overflow.`; Rust `Display` (KeyError message) cuts at its own bound.  Never a host stack overflow.
    DEPTH = 10000
    BUILD = {
        "tuple_cons": "x = (i, x);", "tuple_snoc": "x = (x, i);", "list_in_list": "x = [x];", "list_cons": "x = [i, x];",
        "map_in_map": "x = {1: x};", "map_two_keys": "x = {\"k\": x, \"i\": i};", "map_as_key": "x = {x: i};",
        "tuple_list": "x = (i, [x]);", "list_map": "x = [{1: x}];", "map_tuple_list": "x = {i: (x, [i])};",
        "alternate": "if i - (i / 3).floor() * 3 == 0 { x = (x, i); } else { if i - (i / 3).floor() * 3 == 1 { x = [x]; } else { x = {i: x}; } }",
    }
    SINKS = {
        "str": ("let q = x.str(); print(\"RES len ${q.len()}\");", r"RES caught Stack overflow\."),
        "print": ("print(x); print(\"RES printed\");", r"RES caught Stack overflow\."),
        "interpolate": ("let q = \"a ${x} b\"; print(\"RES len ${q.len()}\");", r"RES caught Stack overflow\."),
        "in_list_str": ("let q = [1, x].str(); print(\"RES len ${q.len()}\");", r"RES caught Stack overflow\."),
        "in_map_print": ("print({1: x}); print(\"RES printed\");", r"RES caught Stack overflow\."),
        "str_method_value": ("let f = x.str; let q = f(); print(\"RES len ${q.len()}\");", r"RES caught Stack overflow\."),
        "each_str": ("[x].iter().each(|y| y.str()); print(\"RES done\");", r"RES caught Stack overflow\."),
        "assert_eq": ("assertEq(x, 1); print(\"RES no\");", r"RES caught Stack overflow\."),
        "display_key": ("let q = ({1: 2})[x];", r"RES caught Key not found\. [\[({].* cut=true"),
        "display_str_answer": ("class A { init(v) { self.v = v; } str() { return self.v; } } print(\"RES ${A(x)}\".slice(0, 40));", r"RES [\[({]"),
    }
    for bn, b in BUILD.items():
        for sn, (sink, exp) in SINKS.items():
            out.append(("deep_format_%s_%s" % (bn, sn),
                        "let x = nil; let i = 0;\nwhile i < %d { %s i = i + 1; }\n" % (DEPTH, b) +
                        "try { %s } catch e: Error { print(\"RES caught ${e.message.slice(0, 60)} cut=${e.message.has(\"...\")}\"); }\nprint(\"RES alive\");\n" % sink,
                        exp + r"[\s\S]*RES alive"))
    # errors raised while an error is being handled
    E = [
        ("raise_in_catch", 'try { raise Error("a"); } catch e: Error { raise Error("b", e); }', r"Error: b"),
        ("raise_in_catch_caught", 'try { try { raise Error("a"); } catch e: Error { raise Error("b"); } } catch e: Error { print("RES " + e.message); }', r"RES b"),
        ("error_in_error_init", 'class E : Error { init(m) { raise Error("in init"); } } try { raise E("x"); } catch e: Error { print("RES " + e.message); }', r"RES in init"),
        ("native_error_in_catch", 'try { [][1]; } catch e: Error { [][2]; }', r"IndexError"),
        ("native_error_in_callback_in_catch", 'try { [][1]; } catch e: Error { try { [1].iter().each(|x| [][x]); } catch f: Error { print("RES " + f.cls().name()); } }', r"RES IndexError"),
        ("error_in_str_of_uncaught", 'class E : Error { str() { raise Error("in str"); } } raise E("x");', None),
        ("uncaught_in_callback", '[1].iter().each(|x| [][x]);', r"IndexError"),
        ("uncaught_in_launch", 'fn f() { raise Error("in fiber"); } launch f(); let c = chan(); <- c;', None),
        ("catch_rethrow_loop", 'let i = 0; while i < 50 { try { try { raise Error("a"); } catch e: Error { raise e; } } catch e: Error { i = i + 1; } } print("RES " + i.str());', r"RES 50"),
        ("deep_try", "fn f(n) { try { if n == 0 { raise Error(\"bottom\"); } f(n - 1); } catch e: ValueError { print(\"no\"); } } try { f(100); } catch e: Error { print(\"RES \" + e.message); }", r"RES bottom"),
        ("error_inner_chain", 'let e = Error("a"); let f = Error("b", e); let g = Error("c", f); raise g;', r"Error: c"),
        ("raise_caught_twice", 'let e = Error("a"); try { raise e; } catch x: Error { } try { raise e; } catch x: Error { print("RES ok"); }', r"RES ok"),
        ("stack_overflow_in_catch", 'fn f(n) { return f(n + 1); } try { raise Error("a"); } catch e: Error { try { f(0); } catch g: Error { print("RES " + g.message); } }', r"RES Stack overflow\."),
        ("overflow_twice", 'fn f(n) { return f(n + 1); } try { f(0); } catch e: Error { } try { f(0); } catch e: Error { print("RES " + e.message); }', r"RES Stack overflow\."),
        ("arity_error_user_fn", 'fn f(a) { } try { f(); } catch e: Error { print("RES " + e.cls().name()); }', r"RES RuntimeError"),
        ("arity_error_init", 'class A { init(a) { } } try { A(); } catch e: Error { print("RES " + e.cls().name()); }', r"RES RuntimeError"),
        ("class_no_init_args", 'class A { } try { A(1); } catch e: Error { print("RES " + e.message); }', r"RES Expected 0 arguments but got 1"),
        ("super_missing", 'class A { } class B : A { m() { return super.zz(); } } try { B().m(); } catch e: Error { print("RES " + e.cls().name()); }', r"RES \w+Error"),
        ("import_missing", 'import std.nope;', r"ImportError|Error"),
        ("assert_false", 'assert(false);', r"AssertError|Error"),
        ("exit_in_try", 'try { exit(7); } catch e: Error { print("no"); }', None),
        ("deadlock", 'let c = chan(); <- c;', r"deadlock"),
        ("deadlock_in_try", 'let c = chan(); try { <- c; } catch e: Error { print("RES " + e.cls().name()); }', None),
        ("send_closed", 'let c = chan(1); c.close(); try { c <- 1; } catch e: Error { print("RES " + e.cls().name()); }', r"RES \w*Error"),
        ("close_twice", 'let c = chan(1); c.close(); try { c.close(); } catch e: Error { print("RES " + e.cls().name()); }', r"RES \w*Error"),
    ]
    for name, src, exp in E:
        out.append((name, src + "\n", exp))
    return out


def misc_stream(ctx):
    if hang_guard(ctx, "misc"):
        return True
    cases = misc_cases(ctx)
    res = run_programs([c[1] for c in cases], timeout=120)
    bad = tie = None
    outcomes = {}
    for c, r in zip(cases, res):
        ctx.count_case(["misc", c[0]], nontrivial=True)
        st = r["status"].split(":")[0]
        outcomes[st] = outcomes.get(st, 0) + 1
        if CRASH.match(r["status"]):
            if bad is None:
                bad = (c, r)
        elif c[2] and not re.search(c[2], r["stdout"] + r["stderr"] + " STATUS=" + r["status"]):
            if tie is None:
                tie = (c, r)
    # the cases around the repaired natives once more with a collection at every allocation (temporaries of the natives must be rooted
    # across the callbacks: a freed temporary shows as a crash or as a wrong message)
    gc_cases = [c for c in cases if re.match(r"assert(Eq|Ne)_|sort_\w+_(21|33|64)$|sort_stable|display_(key|assert|expected)|regexp_pattern_(list|map|nil|number)_|exit_native_", c[0])]
    if not (bad and CRASH.match(bad[1]["status"]) and bad[1]["status"].startswith("CRASH:timeout")):
        gres = run_programs([c[1] for c in gc_cases], timeout=300, extra="--gc every:1")
        for c, r in zip(gc_cases, gres):
            ctx.count_case(["misc", "gc", c[0]], nontrivial=True)
            c2 = (c[0] + " [--gc every:1]", c[1], c[2])
            if CRASH.match(r["status"]):
                if bad is None:
                    bad = (c2, r)
            elif c[2] and not re.search(c[2], r["stdout"] + r["stderr"] + " STATUS=" + r["status"]):
                if tie is None:
                    tie = (c2, r)
        ctx.cov["traces_validated_against_impl"] += len(gc_cases)
    ctx.cov["traces_validated_against_impl"] += len(cases)
    ctx.stream_stat("misc" + SUF(), cases=len(cases), outcomes=outcomes, cases_again_under_gc_every_1=len(gc_cases))
    ok = True
    if bad:
        c, r = bad
        ctx.cov["impl_vs_spec_failures"] += 1
        ctx.violation("misc_spec" + SUF(), {"engine": "misc", "kind": "implementation-vs-spec", "what": "host crash / hang: %s" % r["status"][:200],
                                    "case": c[0], "program": c[1], "status": r["status"], "stdout": r["stdout"][-300:],
                                    "stderr": r["stderr"][-300:], "seed": ctx.seed,
                                    **({"options": STEPS + " --gc every:1"} if c[0].endswith("[--gc every:1]") else {})})
        hang_guard(ctx, "misc", r["status"])
        ok = False
    if tie:
        c, r = tie
        ctx.cov["model_vs_impl_disagreements"] += 1
        ctx.violation("misc_tie", {"engine": "misc", "kind": "model-vs-implementation",
                                   "broken": "expected language-level outcome (resolve_call / op_inherit / op_raise / op_set_prop / op_buffered_channel model)",
                                   "what": "expected %r" % c[2], "case": c[0], "program": c[1], "status": r["status"], "expect": c[2],
                                   "stdout": r["stdout"][-300:], "stderr": r["stderr"][-300:],
                                   **({"options": STEPS + " --gc every:1"} if c[0].endswith("[--gc every:1]") else {})}, no_input=bad is not None)
        ok = False
    return ok


# ---------------------------------------------------------------------------------------------
# known findings


def replay_known(ctx):
    fs = common.load_findings(PROP)
    reqs, recs = [], []
    for f in fs:
        w = os.path.join(common.VERIF, f["witness"])
        if os.path.isdir(w):
            w = os.path.join(w, "main.lay")
        recs.append(f)
        reqs.append(("%s %s" % (f.get("run_options", "--steps 200000000"), w), f.get("timeout", 180)))
    # one process per witness (several abort the process, smash the host stack or hang), in parallel
    import concurrent.futures
    with concurrent.futures.ThreadPoolExecutor(max_workers=8) as ex:
        res = list(ex.map(lambda q: common.run_batch([q[0]], timeout=q[1], jobs=1)[0], reqs))
    still = 0
    for f, r in zip(recs, res):
        failing = bool(CRASH.match(r["status"]))
        if failing and f.get("expect") and not re.search(f["expect"], r["status"] + " " + r.get("stderr", "")):
            # fails, but differently from the recorded signature: a different defect
            ctx.violation("known_" + f["id"], {"kind": "implementation-vs-spec", "what": "known-finding witness fails in a different way",
                                               "finding": f["id"], "status": r["status"], "expected": f["expect"],
                                               "program": open(reqs[recs.index(f)][0].split()[-1]).read()[:2000]})
            continue
        if failing:
            still += 1
            ctx.known(f["id"], f["what"][:160])
        else:
            ctx.cov.setdefault("known_findings_no_longer_failing", []).append(f["id"])
    ctx.stream_stat("known_findings", replayed=len(recs), still_failing=still)


# ---------------------------------------------------------------------------------------------


def corpus_stream(ctx):
    """corpus/C16/*.json first: minimised past failures and the witnesses of repaired findings, each with the result it
    must have now"""
    corpus = os.path.join(common.VERIF, "corpus", "C16")
    if not os.path.isdir(corpus):
        return True
    items = [(f, json.load(open(os.path.join(corpus, f)))) for f in sorted(os.listdir(corpus)) if f.endswith(".json")]
    # one process per program (a regression of a repaired finding may abort the process or smash the host stack)
    import concurrent.futures
    tmp = tempfile.mkdtemp(prefix="c16corpus_")
    try:
        reqs = []
        for i, (f, it) in enumerate(items):
            path = os.path.join(tmp, "c%03d.lay" % i)
            with open(path, "w") as fh:
                fh.write(it["program"])
            reqs.append("%s %s" % (it.get("options", "--steps 200000000"), path))
        with concurrent.futures.ThreadPoolExecutor(max_workers=8) as ex:
            res = list(ex.map(lambda q: common.run_batch([q], timeout=180, jobs=1)[0], reqs))
    finally:
        shutil.rmtree(tmp, ignore_errors=True)
    ok = True
    for (f, it), r in zip(items, res):
        ctx.count_case(["corpus", f], nontrivial=True)
        text = r.get("stdout", "") + r.get("stderr", "") + " STATUS=" + r["status"]
        what = None
        if CRASH.match(r["status"]):
            what = "host crash / hang: %s" % r["status"][:200]
        elif it.get("expect") and not re.search(it["expect"], text):
            what = "expected %r, got %r" % (it["expect"], text[-300:])
        if what:
            hang_guard(ctx, "corpus", r["status"])
        if what and ok:
            ctx.cov["impl_vs_spec_failures"] += 1
            ctx.violation("corpus_" + f[:-5], {"engine": "corpus", "kind": "implementation-vs-spec", "what": what, "corpus_file": "corpus/C16/" + f,
                                               "finding": it.get("finding"), "program": it["program"], "expect": it.get("expect"),
                                               "options": it.get("options"), "status": r["status"], "stdout": r.get("stdout", "")[-300:],
                                               "stderr": r.get("stderr", "")[-300:]})
            ok = False
    ctx.cov["traces_validated_against_impl"] += len(items)
    ctx.stream_stat("corpus", programs=len(items), with_expected_result=sum(1 for _, it in items if it.get("expect")))
    return ok


def run(ctx):
    proved = ctx.prove("LaytheVerif.Props.C16", extra_targets=("drv_sig",))
    ctx.cov["rule"] = ("sig: (arity, parameter kinds, fun/method, argument kinds) tuples — exhaustive for ≤2 parameters × ≤2 arguments over 9 kinds, "
                       "random beyond (≤4 parameters, ≤7 arguments, 15 kinds, 3% ill-formed signatures); matrix: one program per "
                       "(native of the regenerated table, receiver value, argument value tuple); deep: (native, receiver, edge values of the declared kinds); "
                       "frames: (recursion shape, number of wrapper frames); rec: (body of the recursive function, script) as terms over "
                       "call / native / stack-less native / try / rec — systematic (recursion kind x pad x catch level) and random; misc: (operation, value kind); display: (graph of lists, sink); state: statement lists.  "
                       "distinct = distinct request text; non-trivial = reaches the check under test "
                       "(every case does, except ill-formed signatures in `sig`)")
    rng = random.Random(ctx.seed * 7919 + 16)
    rows = None
    global PKINDS, HAVE_DRIVER, SEARCH, RELEASE
    try:
        rows, results, fields, info = load_table()
        PKINDS = [k.lower() for k in info["pkinds"]]
        write_harness_kinds(info["pkinds"])
        ctx.cov["table"] = {"natives": len(rows), "unclassified": sum(1 for r in rows if r["unclassified"]),
                            "sites": sum(len(r["sites"]) for r in rows),
                            "unwrap_sites": sum(1 for r in rows for s_ in r["sites"] if s_[2] != "any"),
                            "guarded_sites": sum(1 for r in rows for s_ in r["sites"] if s_[4]),
                            "with_stack": sum(1 for r in rows if r["stack"]),
                            "callback_result_unwraps": len(results), "field_unwraps": len(fields),
                            "parameter_kinds": PKINDS}
    except Exception as e:  # the translator failed: already reported by ctx.prove as a broken obligation
        ctx.cov["table_error"] = str(e)[:300]
    ok1, out1 = common.cargo_build()
    ok2, out2 = common.cargo_build(bin="vh_sig")
    if not (ok1 and ok2):
        ctx.violation("harness_build", {"kind": "harness-build-failed", "broken": "cargo build of /verif/harness against /repo",
                                        "output": (out1 + out2)[-3000:]}, no_input=True)
        return
    HAVE_DRIVER = os.path.exists(DRV)
    if not proved:
        # the search is the streams themselves at a larger size (they are cheap): they run below and report a
        # concrete failing input if there is one; remember that an obligation broke.  A driver left over from an
        # earlier build is not the model of this tree: without a fresh one only the Spec judges.
        if ctx.tier == "quick":
            SEARCH = True
            ctx.tier = "thorough"
        ok_b, _ = common.lake_build(["drv_sig"])
        HAVE_DRIVER = ok_b and os.path.exists(DRV)
        if not HAVE_DRIVER:
            ctx.cov["tie_judgements_skipped"] = "drv_sig could not be built: the streams run with the Spec judgement only"
    n_before = len(ctx.violations)
    # corpus first
    corpus_stream(ctx)
    sig_stream(ctx, rng)
    if rows is not None:
        table_stream(ctx, rows)
        matrix_stream(ctx, rows, rng)
        deep_stream(ctx, rows, rng)
    frames_stream(ctx, rows)
    rec_stream(ctx, rows, rng)
    misc_stream(ctx)
    display_stream(ctx, rng)
    state_stream(ctx, rng)
    if not ctx.quick() and not SEARCH:
        ok_r, out_r = common.cargo_build(release=True)
        if ok_r:
            RELEASE = True
            try:
                if rows is not None:
                    matrix_stream(ctx, rows, rng)
                    deep_stream(ctx, rows, rng)
                frames_stream(ctx, rows)
                rec_stream(ctx, rows, rng)
                misc_stream(ctx)
                display_stream(ctx, rng)
                state_stream(ctx, rng)
            finally:
                RELEASE = False
            ctx.cov["release_build_streams"] = True
        else:
            ctx.violation("harness_build_release", {"kind": "harness-build-failed", "broken": "cargo build --release of /verif/harness",
                                                    "output": out_r[-2000:]}, no_input=True)
    replay_known(ctx)
    if not proved:
        what, detail = ctx.broken
        found_input = any(not suffix for _, suffix in ctx.violations[n_before:])
        if not found_input:
            ctx.violation("proof", {"kind": "proof-obligation-failed", "broken": what, "detail": detail,
                                    "search": "corpus + sig + matrix + deep + frames + rec + misc + display + state streams at search size found no failing input"}, no_input=True)
        else:
            ctx.cov["broken_obligation"] = what
    ctx.assumptions += [
        "the table of natives is produced by a purpose-built text scan of laythe_lib (tools/translate_natives.py); bodies it cannot classify are listed as unclassified and break C16_all_classified",
        "kind-agnostic sinks (hooks.call, hooks.get_method, Call::Ok, ==, container insert/contains, iterator adaptor constructors) are assumed to accept every Value",
        "envelope E16: the receiver of a native method is a primitive of the class that owns it (violated by user classes inheriting from built-ins: D11)",
        "host panics, aborts and memory faults are runtime behaviour: the model predicts only where they cannot come from the signature/unwrap and frame-limit mechanisms; everything else is sampled by the matrix, deep, frames, misc and state streams",
        "signatures of the findings that are still open are excluded from the streams: built-in subclassing (D11), blocking channel operations inside native callbacks (D6), map growth under a live map iterator (DC16.7), heap structures nested more than ~10^5 deep alive at a collection (DC16.13: the streams nest at most a few thousand deep), more than ~10^5 stacked lazy iterator adaptors (DC16.14)",
        "Display (DC16.11): a LyBox is never a first-class value and a Closure's Display writes only its Fun — the two Display impls that write a nested value outside fmt_nested (C16_display_bound_text) cannot nest; the model of Display covers graphs of lists (tuples, maps and bound methods go through the same fmt_nested)",
        "structured frame / temporary-root model (Model/RecFrames.lean): the error is taken by the dynamically innermost `try` (C04 proves that selection through the nested execute loops of natives: raiseThrough); the bodies of the laythe_lib natives pop their own temporary roots on their error exits (C04 Gen_nativeRootExits_balanced; sampled here by the rec stream: every such native is recursed through, overflowed in and caught around); the compiler leaves temporary roots of its own per compiled function (peephole.rs), so the roots are compared with a control run of the same text instead of with zero",
        "hooks (DC16.10): `runtime_error` resolves only the VM's own error classes, whose initialiser never exits (its match has no Exit arm: C16_resolve_call_matches_text)",
    ]


def replay(path):
    r = json.load(open(path))
    common.cargo_build()
    common.cargo_build(bin="vh_sig")
    common.lake_build(["drv_sig"])
    if r.get("engine") == "sig":
        line = r["input"]
        a, m = impl_sig(line), model_lines([line])[0]
        print("input:", line)
        print("impl :", a)
        print("model:", m)
        parts = [p.strip() for p in line.split(";")]
        at = parts[0].split()
        c = ((at[0],) + tuple(int(x) for x in at[1:]), parts[1].split(), parts[2] == "m", parts[3].split())
        bad = sig_spec_fails(c)
        print("implementation breaks spec:", bad)
        return 1 if (bad or a != m) else 0
    if "program" in r:
        global STEPS
        if r.get("options"):
            STEPS = r["options"]
        res = run_programs([r["program"]], timeout=300)[0]
        print("program:\n" + r["program"])
        print("status :", res["status"])
        print("stdout :", res["stdout"][-400:])
        crashed = bool(CRASH.match(res["status"]))
        print("crash:", crashed)
        if crashed:
            return 1
        if r.get("expect"):
            met = bool(re.search(r["expect"], res["stdout"] + res["stderr"] + " STATUS=" + res["status"]))
            print("expected result %r met: %s" % (r["expect"], met))
            return 0 if met else 1
        if r.get("engine") == "frames" and r.get("kind") == "implementation-vs-spec":
            return 0 if ("RES caught Stack overflow." in res["stdout"] and "RES alive" in res["stdout"]) else 1
        if r.get("kind") == "model-vs-implementation" and r.get("status") == res["status"] and r.get("stdout", "")[-100:] == res["stdout"][-100:]:
            return 1
        return 0
    print("no replayable input recorded (broken obligation: %s)" % r.get("broken"))
    return 1
