"""C14 — both value representations implement the same language.  DESIGN.md §5 C14.

Streams (each judged twice: implementation-vs-Spec and model-vs-implementation):
  value/<build>   bit patterns and constructors through `vh_value` (built per representation) against
                  `drv_nanbox <enum|boxed>` (the tie) and `drv_nanbox spec` (the Spec: abstract meaning +
                  IEEE equality on bit patterns); pairwise equality over the whole pool.
  programs        generated programs (numbers reachable by arithmetic, ==, map keys, has/index) under both
                  builds of `vharness`: outputs must be identical, and every equality-like result must be the
                  one IEEE/identity semantics demands (Python oracle on tracked values).
  fixtures        the repository's fixture corpus under both builds, outputs diffed.
  corpus          corpus/C14/*.json run first: minimised past failures and the witnesses of the repaired defects
                  D8 (boxed `==`/hash bitwise on numbers) and D9 (enum `Undefined == Undefined` false), each with
                  its expected output.  No signature is excluded any more: generators and judges cover ±0, NaN and
                  `undefined` pairs like every other pair.
Open findings of C14 (none at present) would be replayed from known_findings.jsonl by `replay_known`.
"""
import concurrent.futures
import glob
import json
import math
import os
import random
import re
import shutil
import struct
import tempfile

from .. import common

PROP = "C14"
LEVEL = "proof"
DRV = os.path.join(common.LEAN, ".lake", "build", "bin", "drv_nanbox")
BUILDS = ("enum", "boxed")
NOBJ = 18
CMP_FIELDS = ("kind", "nil", "undef", "bool", "false", "num", "obj", "tonum", "tobool", "toobj")


def vh_path(build):
    return common.harness_path(nan_boxing=(build == "boxed"), bin="vh_value")


# ---------------------------------------------------------------------------------------------
# value stream


def f2b(x):
    return struct.unpack("<Q", struct.pack("<d", x))[0]


def b2f(b):
    return struct.unpack("<d", struct.pack("<Q", b))[0]


def boundary_patterns(addrs=()):
    """≈4000 bit patterns around everything the two representations distinguish."""
    out = []
    exps = [0, 1, 2, 3, 1021, 1022, 1023, 1024, 1025, 1074, 1075, 1076, 1085, 1086, 1087, 1088, 1089,
            2043, 2044, 2045, 2046, 2047]
    mans = [0, 1, 2, 3, 4, 5, 7, 8, (1 << 52) - 1, (1 << 52) - 2, 1 << 51, (1 << 51) + 1, (1 << 51) - 1,
            1 << 50, (1 << 50) + 1, (1 << 50) - 1, 3 << 50, (3 << 50) + 1, (3 << 50) + 2, (3 << 50) + 3, (3 << 50) + 4,
            (3 << 50) + 5, (3 << 50) + 8, (3 << 50) | 0x7f0012345670, 1 << 49, (1 << 49) - 1, 0x5555555555555, 0xaaaaaaaaaaaaa,
            (1 << 52) - 2048, 1 << 11, 1 << 12]
    for s in (0, 1):
        for e in exps:
            for m in mans:
                out.append((s << 63) | (e << 52) | m)
    bases = [0x7ffc, 0xfffc, 0x7ff8, 0xfff8, 0x7ff0, 0xfff0, 0x7ff4, 0xfff4, 0x7ffe, 0xfffe, 0x7fff, 0xffff,
             0xbffc, 0x3ffc, 0x7ffb, 0xfffb, 0x7fec, 0xffec, 0x8000, 0x0000, 0xc000, 0x4000]
    lows = list(range(0, 18)) + [0x3ffffffffffff, 0x3fffffffffff8, 0x2000000000000, 0x1ffffffffffff]
    for k in range(3, 50):
        lows += [1 << k, (1 << k) - 1, (1 << k) + 1]
    for a in addrs:
        lows += [a, a + 8, a - 8, a | 1, a | 7]
    for b in bases:
        for lo in lows:
            out.append((b << 48) | (lo & 0xffffffffffff))
    tags = [0x7ffc000000000001, 0x7ffc000000000002, 0x7ffc000000000003, 0x7ffc000000000004, 0xfffc000000000000,
            0x7ffc000000000000, 0x7ff8000000000000, 0xfff8000000000000]
    tags += [0xfffc000000000000 | a for a in addrs[:3]]
    for t in tags:
        out.append(t)
        for k in range(64):
            out.append(t ^ (1 << k))
    for x in [0.0, -0.0, 5e-324, -5e-324, 2.225073858507201e-308, 2.2250738585072014e-308, 1.0, -1.0, 0.5, 0.25, 1.5, 2.0,
              0.1, 0.2, 0.30000000000000004, 0.3, 1.7976931348623157e308, -1.7976931348623157e308, float("inf"),
              float("-inf"), 9007199254740992.0, 9007199254740993.0, 9223372036854775808.0, 18446744073709551616.0,
              18446744073709549568.0, 4294967296.0, 4294967295.0, 0.9999999999999999, 1.0000000000000002, 1e21, 1e-7,
              255.0, 256.0, 65535.5, -0.5, -1e300, 3.0, 4.0, 1e15, 123456789.0]:
        out.append(f2b(x))
        out.append(f2b(x) ^ (1 << 63))
        out.append(f2b(x) + 1)
        out.append((f2b(x) - 1) & 0xffffffffffffffff)
    seen, res = set(), []
    for p in out:
        p &= 0xffffffffffffffff
        if p not in seen:
            seen.add(p)
            res.append(p)
    return res


def random_patterns(rng, n):
    out = []
    for _ in range(n):
        r = rng.random()
        if r < 0.45:
            out.append(rng.getrandbits(64))
        elif r < 0.6:
            out.append((rng.getrandbits(1) << 63) | (0x7ff << 52) | rng.getrandbits(52))       # NaN space
        elif r < 0.75:
            out.append((rng.choice([0x7ffc, 0xfffc]) << 48) | rng.getrandbits(48))              # tag space
        elif r < 0.85:
            out.append((rng.choice([0x7ffc, 0xfffc]) << 48) | rng.getrandbits(rng.choice([3, 4, 8, 16])))
        else:
            out.append(f2b(rng.choice([1, -1]) * rng.random() * 10 ** rng.randint(-320, 308)))  # ordinary numbers
    return out


CHUNK = 6000


def core_patterns():
    """The few hundred patterns every later chunk is paired with."""
    out = [0x0, 0x8000000000000000, 0x7ff8000000000000, 0xfff8000000000000, 0x7ff0000000000000, 0xfff0000000000000,
           0x7ffc000000000000, 0xfffc000000000000, 0x7ff0000000000001, 0x7ff4000000000000, 0x1, 0x8000000000000001,
           0x3ff0000000000000, 0xbff0000000000000, 0x7fefffffffffffff, 0x0010000000000000, 0x000fffffffffffff]
    for t in (0x7ffc000000000000, 0xfffc000000000000):
        out += [t | k for k in range(1, 17)]
    return out


def pool_specs(rng, nrand, chunk=0):
    """chunk 0: all boundary patterns + up to 1500 random ones; later chunks: the core + CHUNK random ones."""
    specs = ["nil", "undef", "true", "false"] + ["obj %d" % k for k in range(NOBJ)]
    if chunk == 0:
        pats = boundary_patterns([0x55d0c0ffee10, 0x7f3a5c001010, 0x3fffffffffff8])
    else:
        pats = core_patterns()
    pats += random_patterns(rng, nrand)
    seen = set()
    for p in pats:
        if p not in seen:
            seen.add(p)
            specs.append("num %016x" % p)
    return specs


def run_value(build, specs, ops=None):
    """Run one request list through harness, model and Spec. Returns (reqs, H, M, S, notes)."""
    reqs = ["objs"] + (ops if ops is not None else ["pool " + s for s in specs] + ["alleq"])
    notes = []
    rc, H, err = common.run_lines([vh_path(build)], reqs, timeout=900)
    if rc != 0:
        notes.append("vh_value(%s) rc=%s %s" % (build, rc, (err or "")[-300:]))
    objs_line = H[0] if H and H[0].startswith("objs") else "objs"
    dreqs = [objs_line] + reqs[1:]
    with concurrent.futures.ThreadPoolExecutor(max_workers=2) as ex:
        fm = ex.submit(common.run_lines, [DRV, build], dreqs, 900)
        fs = ex.submit(common.run_lines, [DRV, "spec"], dreqs, 900)
        rcm, M, errm = fm.result()
        rcs, S, errs = fs.result()
    if rcm != 0:
        notes.append("drv_nanbox %s rc=%s %s" % (build, rcm, (errm or "")[-300:]))
    if rcs != 0:
        notes.append("drv_nanbox spec rc=%s %s" % (rcs, (errs or "")[-300:]))
    return reqs, H, M, S, notes


def parse_fields(line):
    main = line.split(" | ")[0]
    d = {}
    for tok in main.split(" "):
        if "=" in tok:
            k, _, v = tok.partition("=")
            d[k] = v
    return d


def parse_extra(line):
    parts = line.split(" | ", 1)
    if len(parts) < 2:
        return {}
    d = {}
    m = re.match(r"h=(\S+) type=(\S+) disp=(.*)$", parts[1])
    if m:
        d = {"h": m.group(1), "type": m.group(2), "disp": m.group(3)}
    return d


def parse_pairs(s):
    out = set()
    for t in s.split():
        if "-" in t:
            a, _, b = t.partition("-")
            out.add((int(a), int(b)))
    return out


def is_nan_bits(b):
    return (b >> 52) & 0x7ff == 0x7ff and (b & ((1 << 52) - 1)) != 0


def is_zero_bits(b):
    return (b & 0x7fffffffffffffff) == 0


def judge_value(build, specs, reqs, H, M, S, notes):
    """Returns dict(spec_fail=[..], tie_fail=[..], stats={..})."""
    res = {"spec_fail": [], "tie_fail": [], "stats": {}}
    n = len(reqs)
    if notes or len(H) != n or len(M) != n or len(S) != n:
        res["tie_fail"].append({"what": "engine failure or missing output lines", "notes": notes,
                                "lens": [n, len(H), len(M), len(S)]})
        return res
    inenv = []
    kinds = {}
    for i in range(1, n):
        req = reqs[i]
        hmain = H[i].split(" | ")[0].strip()
        if req.startswith("pool ") or req.startswith("v "):
            spec = req.split(" ", 1)[1]
            if hmain != M[i].strip() and len(res["tie_fail"]) < 5:
                res["tie_fail"].append({"what": "model and implementation describe the value differently", "specs": [spec],
                                        "impl": H[i], "model": M[i]})
            hf, sf = parse_fields(H[i]), parse_fields(S[i])
            if sf.get("selfcheck") != "1":
                res["tie_fail"].append({"what": "Spec self-check (bit-level IEEE definitions vs Lean Float) failed", "specs": [spec], "spec": S[i]})
            # the envelope (numbers without the QNAN bits, pointers below 2^50) limits the boxed build only
            env = sf.get("inenv") == "1" or build == "enum"
            if req.startswith("pool "):
                inenv.append(env)
            if env:
                kinds[sf["kind"]] = kinds.get(sf["kind"], 0) + 1
                bad = [k for k in CMP_FIELDS if hf.get(k) != sf.get(k)]
                if "ALT-MISMATCH" in H[i]:
                    bad.append("constructors-disagree")
                if bad and len(res["spec_fail"]) < 5:
                    res["spec_fail"].append({"what": "value does not read back as what was stored (%s)" % ",".join(bad),
                                             "specs": [spec], "impl": H[i], "spec": S[i], "model": M[i]})
        elif req == "alleq":
            hp = parse_pairs(hmain)
            mp = parse_pairs(M[i])
            sp = parse_pairs(S[i].split("IEEE-SELFCHECK")[0])
            if "IEEE-SELFCHECK-FAILED" in S[i]:
                res["tie_fail"].append({"what": "Spec self-check (ieeeEq vs Lean Float ==) failed", "spec": S[i][-200:]})
            if hp != mp:
                d = sorted(hp ^ mp)[:3]
                for a, b in d:
                    res["tie_fail"].append({"what": "model and implementation disagree on ==", "specs": [specs[a], specs[b]],
                                            "impl": (a, b) in hp, "model": (a, b) in mp})
            extra = H[i].split(" | ")[1] if " | " in H[i] else ""
            m = re.match(r"asym=(\S*) hneq=(\S*)", extra)
            if not m:
                res["tie_fail"].append({"what": "alleq extras missing", "impl": H[i][-200:]})
            else:
                for name, what in ((1, "== is not symmetric / != is not its negation"), (2, "equal values hash differently")):
                    if m.group(name):
                        a, b = [int(x) for x in m.group(name).split(",")[0].split("-")]
                        res["spec_fail"].append({"what": what, "specs": [specs[a], specs[b]], "impl": m.group(name)[:200]})
            okidx = [k for k, e in enumerate(inenv) if e]
            okset = set(okidx)
            diff = [(a, b) for (a, b) in (hp ^ sp) if a in okset and b in okset]
            for a, b in sorted(diff):
                if len(res["spec_fail"]) < 5:
                    res["spec_fail"].append({"what": "== differs from the Spec (IEEE on numbers, identity otherwise)",
                                             "specs": [specs[a], specs[b]], "impl": (a, b) in hp, "spec": (a, b) in sp})
            res["stats"]["eq_pairs_true"] = len(hp)
            res["stats"]["pairs_compared"] = len(inenv) * (len(inenv) + 1) // 2
    res["stats"]["values"] = len(inenv)
    res["stats"]["in_envelope"] = sum(1 for e in inenv if e)
    res["stats"]["kinds"] = kinds
    return res


def confirm_value(build, specs):
    """Re-run a (shrunk) value case on its own. Returns (fails, detail)."""
    reqs, H, M, S, notes = run_value(build, specs)
    r = judge_value(build, specs, reqs, H, M, S, notes)
    return bool(r["spec_fail"]), {"impl": H[1:], "model": M[1:], "spec": S[1:], "judgement": r, "tie_fails": bool(r["tie_fail"])}


def value_stream(ctx, build, nrand, seed_mix=0, first_chunk=0):
    """All-pairs value stream, in chunks (the pairwise part is quadratic). Returns the judgement of the first
    chunk that shows a failure (else of the first chunk), its specs and raw outputs."""
    rng = random.Random(ctx.seed * 65537 + 14 + seed_mix)
    plan = []
    left = nrand
    chunk = first_chunk
    while True:
        k = min(left, 1500 if chunk == 0 else CHUNK)
        plan.append((chunk, k))
        left -= k
        chunk += 1
        if left <= 0:
            break
    first = None
    for chunk, k in plan:
        specs = pool_specs(rng, k, chunk)
        reqs, H, M, S, notes = run_value(build, specs)
        r = judge_value(build, specs, reqs, H, M, S, notes)
        st = {k2: v for k2, v in r["stats"].items() if isinstance(v, int)}
        st["chunks"] = 1
        ctx.stream_stat("value/" + build, **st)
        if "kinds" in r["stats"] and chunk == 0:
            ctx.stream_stat("value/" + build, kinds=r["stats"]["kinds"])
        ctx.cov["traces_validated_against_impl"] += len(specs)
        for s in specs:
            special = not s.startswith("num ") or is_nan_bits(int(s[4:], 16)) or is_zero_bits(int(s[4:], 16)) or \
                ((int(s[4:], 16) >> 52) & 0x7ff) in (0, 0x7fe, 0x7ff, 1)
            ctx.count_case([build, s], nontrivial=special)
        if first is None:
            first = (r, specs, (H, M, S))
        if r["spec_fail"] or r["tie_fail"]:
            return r, specs, (H, M, S)
    return first


# ---------------------------------------------------------------------------------------------
# program stream


def fdiv(a, b):
    if math.isnan(a) or math.isnan(b):
        return float("nan")
    if b == 0:
        if a == 0:
            return float("nan")
        neg = (math.copysign(1, a) < 0) != (math.copysign(1, b) < 0)
        return float("-inf") if neg else float("inf")
    try:
        return a / b
    except OverflowError:
        neg = (a < 0) != (b < 0)
        return float("-inf") if neg else float("inf")


ATOMS = [
    ("0", 0.0), ("(0 * -1)", -0.0), ("(1 / 0)", float("inf")), ("(-1 / 0)", float("-inf")), ("(0 / 0)", float("nan")),
    ("5e-324", 5e-324), ("2.2250738585072014e-308", 2.2250738585072014e-308), ("1.7976931348623157e308", 1.7976931348623157e308),
    ("1e-320", 1e-320), ("1", 1.0), ("-1", -1.0), ("2", 2.0), ("0.5", 0.5), ("1.5", 1.5), ("3", 3.0), ("0.1", 0.1), ("0.2", 0.2),
    ("0.3", 0.3), ("9007199254740992", 9007199254740992.0), ("9007199254740993", 9007199254740993.0), ("1e308", 1e308),
    ("123456789", 123456789.0), ("-2.5", -2.5), ("1e21", 1e21), ("10", 10.0), ("-0.0", -0.0), ("1e-310", 1e-310),
    ("Number.parse('NaN')", float("nan")), ("Number.parse('-0')", -0.0), ("Number.parse('inf')", float("inf")),
    ("Number.parse('1e400')", float("inf")), ("Number.parse('4e-324')", 5e-324), ("Number.parse('1e-400')", 0.0),
]


def is_num(v):
    return isinstance(v, float)


def spec_eq(a, b):
    """Equality the language promises: IEEE on numbers; identity on everything else (strings are interned)."""
    if is_num(a) and is_num(b):
        return a == b
    if is_num(a) or is_num(b):
        return False
    if isinstance(a, bool) or isinstance(b, bool):
        return isinstance(a, bool) and isinstance(b, bool) and a == b
    return type(a) == type(b) and a == b


def is_special(v):
    return is_num(v) and (v == 0 or math.isnan(v) or math.isinf(v) or abs(v) < 2.3e-308)


def lay_bool(b):
    return "true" if b else "false"


class ProgGen:
    def __init__(self, rng):
        self.rng = rng
        self.items = []      # (source line, prints one line?, expected text or None)
        self.vars = []       # (name, python value)
        self.stats = {"eq_ops": 0, "eq_special": 0, "eq_zero_pair": 0, "eq_nan_pair": 0, "map_ops": 0, "has_index": 0, "arith": 0,
                      "map_dumps": 0}

    def emit(self, src, exp=None, prints=True):
        self.items.append((src, prints, exp))

    def note_pair(self, a, b):
        """count the equality tests that meet the signature of the repaired D8"""
        if is_num(a) and is_num(b):
            if a == 0 and b == 0 and math.copysign(1, a) != math.copysign(1, b):
                self.stats["eq_zero_pair"] += 1
            if math.isnan(a) and math.isnan(b):
                self.stats["eq_nan_pair"] += 1

    def num_expr(self, depth=0):
        rng = self.rng
        if self.vars and rng.random() < 0.45:
            nums = [(n, v) for n, v in self.vars if is_num(v)]
            if nums:
                return rng.choice(nums)
        if depth < 2 and rng.random() < 0.5:
            (sa, a), (sb, b) = self.num_expr(depth + 1), self.num_expr(depth + 1)
            op = rng.choice("+-*/")
            if op == "+":
                v = a + b
            elif op == "-":
                v = a - b
            elif op == "*":
                v = a * b
            else:
                v = fdiv(a, b)
            return "(%s %s %s)" % (sa, op, sb), v
        if depth < 2 and rng.random() < 0.15:
            s, a = self.num_expr(depth + 1)
            return "(-%s)" % s, -a
        return rng.choice(ATOMS)

    def any_expr(self):
        rng = self.rng
        r = rng.random()
        if r < 0.68:
            return self.num_expr()
        others = [(n, v) for n, v in self.vars if not is_num(v)]
        if others and r < 0.8:
            return rng.choice(others)
        return rng.choice([("nil", None), ("true", True), ("false", False), ("'a'", "s:a"), ("'b'", "s:b"), ("''", "s:"),
                           ("'0'", "s:0"), ("('a' + '')", "s:a"), ("'nil'", "s:nil")])

    def gen(self):
        rng = self.rng
        nvars = rng.randint(4, 9)
        for i in range(nvars):
            s, v = self.num_expr() if rng.random() < 0.8 else self.any_expr()
            name = "v%d" % i
            self.emit("let %s = %s;" % (name, s), prints=False)
            self.vars.append((name, v))
        self.emit("let lst0 = [1];", prints=False)
        self.emit("let lst1 = [1];", prints=False)
        self.vars += [("lst0", "o:lst0"), ("lst1", "o:lst1")]
        maps = []
        for _ in range(rng.randint(14, 34)):
            r = rng.random()
            if r < 0.30:
                (sa, a), (sb, b) = self.any_expr(), self.any_expr()
                if is_num(a) and rng.random() < 0.2:
                    # the pairs on which bitwise and IEEE equality differ: a zero of each sign, NaN with NaN
                    if a == 0:
                        sb, b = rng.choice([x for x in ATOMS if x[1] == 0])
                    elif math.isnan(a):
                        sb, b = rng.choice([(sa, a)] + [x for x in ATOMS if math.isnan(x[1])])
                self.note_pair(a, b)
                op = rng.choice(["==", "!=", "equals"])
                e = spec_eq(a, b)
                self.stats["eq_ops"] += 1
                self.stats["eq_special"] += is_special(a) or is_special(b)
                if op == "equals":
                    if a is None:
                        continue
                    recv = sa if not re.fullmatch(r"-?[0-9.e-]+", sa) else "(%s)" % sa
                    self.emit("print(%s.equals(%s));" % (recv, sb), lay_bool(e))
                else:
                    self.emit("print(%s %s %s);" % (sa, op, sb), lay_bool(e if op == "==" else not e))
            elif r < 0.42:
                (sa, a), (sb, b) = self.num_expr(), self.num_expr()
                op = rng.choice(["<", "<=", ">", ">="])
                e = {"<": a < b, "<=": a <= b, ">": a > b, ">=": a >= b}[op]
                self.emit("print(%s %s %s);" % (sa, op, sb), lay_bool(e))
            elif r < 0.55:
                s, v = self.num_expr()
                self.stats["arith"] += 1
                exp = None
                if math.isnan(v):
                    exp = "NaN"
                elif math.isinf(v):
                    exp = "inf" if v > 0 else "-inf"
                elif v == 0:
                    exp = "-0" if math.copysign(1, v) < 0 else "0"
                self.emit("print(%s);" % s, exp)
            elif r < 0.72:
                items = [self.any_expr() for _ in range(rng.randint(0, 5))]
                sx, x = self.any_expr() if rng.random() < 0.5 or not items else rng.choice(items)
                for _, v in items:
                    self.note_pair(x, v)
                self.stats["has_index"] += 1
                self.stats["eq_special"] += is_special(x)
                tup = rng.random() < 0.35 and len(items) >= 2
                lit = ("(%s)" if tup else "[%s]") % ", ".join(s for s, _ in items)
                idx = next((k for k, (_, v) in enumerate(items) if spec_eq(x, v)), None)
                if rng.random() < 0.5:
                    self.emit("print(%s.has(%s));" % (lit, sx), lay_bool(idx is not None))
                else:
                    self.emit("print(%s.index(%s));" % (lit, sx), "nil" if idx is None else str(idx))
            elif r < 0.95:
                if not maps or (len(maps) < 3 and rng.random() < 0.2):
                    name = "m%d" % len(maps)
                    self.emit("let %s = {};" % name, prints=False)
                    pre = []
                    if rng.random() < 0.3:
                        # a table of hundreds of slots: keys whose hashes differ (only) in high-order input bytes no longer
                        # meet by accident, as they do in a table of four (FNV: 0 / -0 hashed as raw words differ in the last byte)
                        lo, n = rng.choice([1, 1000, -300]), rng.randint(60, 420)
                        self.emit("let i%s = %d; while i%s < %d { %s[i%s] = i%s; i%s = i%s + 1; }" % (name, lo, name, lo + n, name, name, name, name, name),
                                  prints=False)
                        pre = [(str(k), float(k), str(k)) for k in range(lo, lo + n)]
                        self.stats["map_prefilled"] = self.stats.get("map_prefilled", 0) + 1
                    maps.append((name, pre))
                name, entries = rng.choice(maps)
                sk, k = self.any_expr() if rng.random() < 0.6 or not entries else rng.choice([(s, v) for s, v, _ in entries])
                for _, ek, _ in entries:
                    self.note_pair(k, ek)
                self.stats["map_ops"] += 1
                self.stats["eq_special"] += is_special(k)
                pos = next((i for i, (_, ek, _) in enumerate(entries) if spec_eq(k, ek)), None)
                op = rng.choice(["set", "set", "iset", "insert", "get", "get", "iget", "has", "has", "remove", "len", "dump"])
                val = str(rng.randint(100, 999))
                if op == "dump":
                    # iteration order: a number feeds the hasher the same writes in both builds (C14_hash_numbers_agree) and
                    # the hasher is deterministic, so a map with number keys only prints identically.  Not dumped: object
                    # keys (order depends on addresses) and nil/bool keys (open finding DC14.1).
                    if len(entries) <= 1 or all(is_num(ek) for _, ek, _ in entries):
                        self.stats["map_dumps"] += 1
                        self.emit("print(%s);" % name, None)
                    continue
                if op in ("set", "iset", "insert"):
                    # a NaN key is never found again under IEEE equality: every store adds an entry
                    old = entries[pos][2] if pos is not None else None
                    if pos is not None:
                        entries[pos] = (entries[pos][0], entries[pos][1], val)
                    else:
                        entries.append((sk, k, val))
                    if op == "set":
                        self.emit("print(%s.set(%s, %s));" % (name, sk, val), old if old is not None else "nil")
                    elif op == "insert":
                        self.emit("print(%s.insert(%s, %s));" % (name, sk, val), old if old is not None else "nil")
                    else:
                        self.emit("print(%s[%s] = %s);" % (name, sk, val), val)
                elif op == "get":
                    self.emit("print(%s.get(%s));" % (name, sk), entries[pos][2] if pos is not None else "nil")
                elif op == "iget":
                    if pos is None:
                        continue
                    self.emit("print(%s[%s]);" % (name, sk), entries[pos][2])
                elif op == "has":
                    self.emit("print(%s.has(%s));" % (name, sk), lay_bool(pos is not None))
                elif op == "remove":
                    if pos is None:
                        continue
                    self.emit("print(%s.remove(%s));" % (name, sk), entries[pos][2])
                    del entries[pos]
                else:
                    self.emit("print(%s.len());" % name, str(len(entries)))
            else:
                s, v = self.any_expr()
                tmpl, f = rng.choice([("print(!%s);", lambda v: lay_bool(v is None or v is False)),
                                      ("print(%s ? 1 : 2);", lambda v: "2" if (v is None or v is False) else "1"),
                                      ("print(%s == nil);", lambda v: lay_bool(v is None)),
                                      ("print('<${%s == %s}>');", None)])
                if f is None:
                    self.note_pair(v, v)
                    self.emit(tmpl % (s, s), "<%s>" % lay_bool(spec_eq(v, v)))
                else:
                    self.emit(tmpl % s, f(v))
        if rng.random() < 0.25:
            self.emit(rng.choice(["print(-nil);", "print(1 + 'a');", "print(nil < 1);", "print(true * 2);", "print(nil.foo);",
                                  "print({}[1]);", "print([1][5]);", "assertEq(1, 2);"]), None)
        return self.items


def render(items):
    """(source text, per-printed-line expectations) of a list of statements"""
    return "\n".join(i[0] for i in items) + "\n", [i[2] for i in items if i[1]]


def mask_addr(s):
    return re.sub(r"0x[0-9a-fA-F]+", "0x?", s)


def mask(s):
    s = re.sub(r"0x[0-9a-fA-F]+", "0x?", s)
    return s


def outcome(r):
    return (r.get("status", "?"), mask(r.get("stdout", "")), mask(r.get("stderr", "")))


def run_both(reqs, timeout=600):
    with concurrent.futures.ThreadPoolExecutor(max_workers=2) as ex:
        fa = ex.submit(common.run_batch, reqs, False, False, max(2, common.NCPU // 2), timeout)
        fb = ex.submit(common.run_batch, reqs, True, False, max(2, common.NCPU // 2), timeout)
        return fa.result(), fb.result()


def check_expect(expect, stdout):
    """Compare the printed lines with the oracle's expectations. Returns (line_no, expected, got) or None."""
    got = stdout.split("\n")
    if got and got[-1] == "":
        got.pop()
    for i, e in enumerate(expect):
        if i >= len(got):
            return None          # the program stopped early (runtime error): nothing more to judge
        if e is not None and got[i] != e:
            return (i, e, got[i])
    return None


def judge_program(expect, a, b):
    """a, b: outcomes of the enum and the boxed build. Returns (kind, detail) or None."""
    if a != b:
        return "build-difference", {"enum": a, "boxed": b}
    for name, o in (("enum", a), ("boxed", b)):
        bad = check_expect(expect or [], o[1])
        if bad:
            return "oracle", {"build": name, "line": bad[0], "expected": bad[1], "got": bad[2], "outcome": o}
        if o[0].startswith(("PANIC", "CRASH")):
            return "host-failure", {"build": name, "outcome": o}
    return None


def program_fails(src, expect=None):
    """Does this program distinguish the builds, break the oracle, or bring the host down?"""
    d = tempfile.mkdtemp(prefix="c14_one_")
    path = os.path.join(d, "case.lay")
    with open(path, "w") as f:
        f.write(src)
    ra, rb = run_both(["--steps 2000000 " + path])
    shutil.rmtree(d, ignore_errors=True)
    return judge_program(expect, outcome(ra[0]), outcome(rb[0]))


def shrink_items(items, kind):
    """Delta debugging on the statement list; a candidate counts only if it fails in the same way."""
    def fails(its):
        src, exp = render(its)
        r = program_fails(src, exp)
        return r is not None and r[0] == kind
    cur = list(items)
    changed = True
    while changed and len(cur) > 1:
        changed = False
        i = len(cur) - 1
        while i >= 0 and len(cur) > 1:
            cand = cur[:i] + cur[i + 1:]
            if fails(cand):
                cur = cand
                changed = True
            i -= 1
    return cur


def program_stream(ctx, nprog, tmp, seed_mix=0):
    rng = random.Random(ctx.seed * 2654435761 % (1 << 32) + 140 + seed_mix)
    progs = []
    tot = {}
    for i in range(nprog):
        g = ProgGen(rng)
        items = g.gen()
        src, expect = render(items)
        path = os.path.join(tmp, "g%05d.lay" % i)
        with open(path, "w") as f:
            f.write(src)
        progs.append((path, items, src, expect))
        for k, v in g.stats.items():
            tot[k] = tot.get(k, 0) + int(v)
    reqs = ["--steps 2000000 " + p for p, _, _, _ in progs]
    ra, rb = run_both(reqs)
    ok_runs = 0
    statuses = {}
    fail = None
    judged = 0
    for (path, items, src, expect), a, b in zip(progs, ra, rb):
        oa, ob = outcome(a), outcome(b)
        statuses[oa[0].split(":")[0]] = statuses.get(oa[0].split(":")[0], 0) + 1
        ctx.count_case(src, nontrivial=True)
        judged += min(len(oa[1].split("\n")) - 1, sum(1 for e in expect if e is not None))
        r = judge_program(expect, oa, ob)
        if r and fail is None:
            fail = (r[0], items, r[1])
        ok_runs += oa[0].startswith("Ok")
    ctx.stream_stat("programs", programs=len(progs), status_ok=ok_runs, statuses=statuses, oracle_judged_lines=judged, **tot)
    ctx.cov["traces_validated_against_impl"] += 2 * len(progs)
    if progs:
        ctx.sample({"program": progs[0][2][:600], "enum_stdout": ra[0].get("stdout", "")[:200], "boxed_stdout": rb[0].get("stdout", "")[:200]})
    return fail


WHAT = {"build-difference": "the two builds behave differently on the same program",
        "oracle": "a build prints a result that differs from IEEE/identity semantics",
        "host-failure": "host failure (panic/crash) on a generated program"}


def zoo_stream(ctx):
    """object-zoo programs (vlib/zoo.py: heap values and numeric special values held across bursts of garbage) under a
    collection at every allocation, in both builds: same outcome"""
    from .. import sched_stream
    files = sched_stream.write_zoo(ctx, ctx.n(150, 4000), "zoo")
    for mode in (["--gc every:1"] if ctx.quick() else ["--gc every:1", "--gc every:2 --full 1", ""]):
        ra, rb = run_both(["%s --steps 400000 %s" % (mode, f) for f in files])
        for f, a, b in zip(files, ra, rb):
            oa, ob = outcome(a), outcome(b)
            ctx.count_case((f, mode), nontrivial=True)
            if "STEPLIMIT" in (oa[0], ob[0]):
                continue
            if oa != ob or not oa[0].startswith(("Ok", "RuntimeError")):
                ctx.cov["impl_vs_spec_failures"] += 1
                ctx.violation("zoo", {"engine": "program", "kind": "implementation-vs-spec",
                                      "what": "the two builds behave differently (or a build crashes) on a program whose values live across collections",
                                      "mode": mode or "default", "source": open(f).read(), "enum": list(oa), "boxed": list(ob)})
                return False
        ctx.stream_stat("zoo", programs=len(files), modes=1)
    ctx.cov["traces_validated_against_impl"] += 2 * len(files)
    return True


def report_program_failure(ctx, fail, name):
    kind, items, detail = fail
    small = shrink_items(items, kind)
    src, expect = render(small)
    r = program_fails(src, expect)
    ctx.cov["impl_vs_spec_failures"] += 1
    ctx.violation(name, {"engine": "program", "kind": "implementation-vs-spec", "what": WHAT[kind], "failure": kind,
                         "source": src, "expect": expect, "detail": r[1] if r else detail, "seed": ctx.seed,
                         "replay": "./check C14 --replay <this file>"})


# ---------------------------------------------------------------------------------------------
# fixtures

SKIP_FIXTURES = ("/stdin/", "lox_interpreter/lox.lay",       # need stdin
                 # outcome depends on the clock, the environment or randomness: flaky in a two-build differential
                 "native/clock.lay", "/benchmark/", "/std_lib/env/", "math/utils/rand.lay", "/std_lib/io/")
SLOW_FIXTURES = ("limit/too_many_module_symbols.lay",)       # 20 s of compile errors: thorough tier only


def fixture_files(thorough):
    fs = sorted(glob.glob(os.path.join(common.REPO, "laythe_vm", "fixture", "**", "*.lay"), recursive=True))
    out = []
    for f in fs:
        if any(s in f for s in SKIP_FIXTURES):
            continue
        if not thorough and any(s in f for s in SLOW_FIXTURES):
            continue
        out.append(f)
    return out


def fixture_stream(ctx):
    files = fixture_files(not ctx.quick())
    steps = ctx.n(400000, 5000000)
    reqs = ["--steps %d %s" % (steps, f) for f in files]
    ra, rb = run_both(reqs, timeout=900)
    diffs = [i for i in range(len(files)) if outcome(ra[i]) != outcome(rb[i])]
    flaky = []
    real = []
    if diffs:
        # nondeterministic programs (random, time, address-ordered maps) differ between two runs of the *same* build
        sub = [reqs[i] for i in diffs]
        ra2, rb2 = run_both(sub, timeout=900)
        for k, i in enumerate(diffs):
            if outcome(ra2[k]) != outcome(ra[i]) or outcome(rb2[k]) != outcome(rb[i]):
                flaky.append(files[i])
            else:
                real.append(i)
    st = {}
    for r in ra:
        k = r.get("status", "?").split(":")[0]
        st[k] = st.get(k, 0) + 1
    ctx.stream_stat("fixtures", files=len(files), statuses=st, flaky=len(flaky), differing=len(real), steps=steps)
    if flaky:
        ctx.cov.setdefault("flaky_fixtures", []).extend(os.path.relpath(f, common.REPO) for f in flaky[:10])
    ctx.cov["traces_validated_against_impl"] += 2 * len(files)
    for f in files:
        ctx.count_case(["fixture", os.path.relpath(f, common.REPO)], nontrivial=True)
    if real:
        i = real[0]
        src = open(files[i]).read()
        ctx.cov["impl_vs_spec_failures"] += 1
        ctx.violation("fixture_diff", {"engine": "program", "kind": "implementation-vs-spec",
                                       "what": "the two builds behave differently on a fixture program",
                                       "file": os.path.relpath(files[i], common.REPO), "source_file": files[i],
                                       "detail": {"enum": outcome(ra[i]), "boxed": outcome(rb[i])},
                                       "others": [os.path.relpath(files[j], common.REPO) for j in real[1:10]]})
        return False
    return True


# ---------------------------------------------------------------------------------------------
# known findings


def replay_known(ctx):
    """Replay the committed witnesses of the open findings C14 owns (programs: the two builds still differ;
    value cases: the Spec still fails); KNOWN-FINDING line while they still reproduce."""
    still = {}
    for rec in common.load_findings(PROP):
        wdir = os.path.join(common.VERIF, rec["witness"])
        reproduced = []
        lays = sorted(glob.glob(os.path.join(wdir, "*.lay")))
        if lays:
            ra, rb = run_both(["--steps 2000000 " + f for f in lays])
            for f, a, b in zip(lays, ra, rb):
                if outcome(a) != outcome(b):
                    reproduced.append(os.path.basename(f))
        for vf in sorted(glob.glob(os.path.join(wdir, "*.json"))):
            w = json.load(open(vf))
            reqs, H, M, S, notes = run_value(w["build"], w["specs"])
            r = judge_value(w["build"], w["specs"], reqs, H, M, S, notes)
            if r["spec_fail"]:
                reproduced.append(os.path.basename(vf))
        still[rec["id"]] = reproduced
        if reproduced:
            ctx.known(rec["id"], rec["what"])
        else:
            ctx.cov.setdefault("known_findings_not_reproducing", []).append(rec["id"])
    ctx.cov["known_witnesses_reproduced"] = still
    return still


# ---------------------------------------------------------------------------------------------


def report_value(ctx, build, r, label):
    """Turn the judgement of a value stream into violations. Returns True if clean."""
    if r["spec_fail"]:
        f = r["spec_fail"][0]
        fails, detail = confirm_value(build, f.get("specs", []))
        ctx.cov["impl_vs_spec_failures"] += 1
        ctx.violation("value_%s_spec" % build, {"engine": "value", "kind": "implementation-vs-spec", "build": build, "what": f["what"],
                                                "specs": f.get("specs", []), "first": f, "isolated_rerun_fails": fails,
                                                "isolated": detail, "seed": ctx.seed, "found_by": label,
                                                "replay": "./check C14 --replay <this file>"})
        return False
    return True


def search_value(ctx, why):
    """Bigger, Spec-judged value streams on both builds: look for a concrete failing input."""
    for build in BUILDS:
        r, specs, _ = value_stream(ctx, build, ctx.n(4 * CHUNK, 20 * CHUNK), seed_mix=977, first_chunk=1)
        if r["spec_fail"]:
            report_value(ctx, build, r, "search after: " + why)
            return True
    return False


def run(ctx):
    proved = ctx.prove("LaytheVerif.Props.C14", extra_targets=("drv_nanbox",))
    if not proved:
        # the driver only needs Gen + Model: rebuild it on its own so that the tie runs against the *current* tables
        ok_d, out_d = common.lake_build(["drv_nanbox"])
        if not ok_d and os.path.exists(DRV):
            os.unlink(DRV)
    builds = [("vh_value", False), ("vh_value", True), ("vharness", False), ("vharness", True)]
    with concurrent.futures.ThreadPoolExecutor(max_workers=2) as ex:
        # the two target directories are independent; binaries of one directory build one after the other
        def build_cfg(nb):
            for b, n in builds:
                if n == nb:
                    ok, out = common.cargo_build(bin=b, nan_boxing=nb)
                    if not ok:
                        return (b, nb, out)
            return None
        fails = [x for x in ex.map(build_cfg, (False, True)) if x]
    if fails:
        b, nb, out = fails[0]
        ctx.violation("harness_build", {"kind": "harness-build-failed", "broken": "cargo build --bin %s%s against the repository" % (b, " --features nan_boxing" if nb else ""),
                                        "output": out[-3000:]}, no_input=True)
        return
    ctx.cov["rule"] = ("value stream: every constructor and ~%d boundary bit patterns (exponent boundaries, subnormals, ±0, ±inf, quiet/"
                       "signalling NaNs with payloads, neighbours and single-bit flips of every tag, real object addresses) plus seeded random "
                       "patterns, per build, all pairs for ==/hash; non-trivial = non-number, zero, NaN, inf, subnormal or extreme exponent; "
                       "program stream: generated programs over numbers reachable by arithmetic/parsing with ==, !=, equals, has/index, "
                       "map get/set/has/insert/remove/len (distinct by source text) and the fixture corpus, run under both builds") % len(boundary_patterns())
    spec_found = False
    tie_broken = []
    extras = {}
    # -- corpus first: minimised past failures and the witnesses of repaired defects (D8, D9) -------
    corpus = os.path.join(common.VERIF, "corpus", PROP)
    if os.path.isdir(corpus) and not os.environ.get("C14_NO_CORPUS"):   # the knob: do the generated streams alone catch a change?
        ncorpus = 0
        for f in sorted(os.listdir(corpus)):
            rec = json.load(open(os.path.join(corpus, f)))
            if rec.get("engine") == "program":
                res = program_fails(rec["source"], rec.get("expect"))
                if res:
                    ctx.cov["impl_vs_spec_failures"] += 1
                    ctx.violation("corpus_" + f.replace(".json", ""), dict(rec, kind="implementation-vs-spec", what="corpus case fails again: " + WHAT[res[0]],
                                                                          failure=res[0], detail=res[1]))
                    spec_found = True
            elif rec.get("engine") == "value" and os.path.exists(DRV):
                fails, detail = confirm_value(rec["build"], rec["specs"])
                if fails:
                    ctx.cov["impl_vs_spec_failures"] += 1
                    ctx.violation("corpus_" + f.replace(".json", ""), dict(rec, kind="implementation-vs-spec", what="corpus case fails again",
                                                                          first=detail["judgement"]["spec_fail"][:2]))
                    spec_found = True
                elif detail["tie_fails"]:
                    tie_broken.append((rec["build"], detail["judgement"]["tie_fail"]))
            ctx.count_case(["corpus", f], nontrivial=True)
            ncorpus += 1
        ctx.stream_stat("corpus", cases=ncorpus)
    # -- value streams ------------------------------------------------------------------------
    if os.path.exists(DRV):
        for build in BUILDS:
            r, specs, (H, M, S) = value_stream(ctx, build, ctx.n(1500, 180000))
            if not report_value(ctx, build, r, "value stream"):
                spec_found = True
            elif r["tie_fail"]:
                tie_broken.append((build, r["tie_fail"]))
            extras[build] = [parse_extra(h) for h in H[1:1 + len(specs)]]
            extras["specs"] = specs
            if build == "boxed" and len(H) > 30:
                ctx.sample({"build": build, "request": "pool " + specs[30], "impl": H[31], "model": M[31]})
            if build == "enum" and len(H) > 3:
                ctx.sample({"build": build, "request": "pool " + specs[2], "impl": H[3], "model": M[3]})
    else:
        tie_broken.append(("both", [{"what": "drv_nanbox was not built"}]))
    # cross-build: value_type / Display of the same in-envelope value must not depend on the representation
    if len(extras) == 3 and not spec_found:
        ctx.stream_stat("value/cross-build", display_compared=sum(
            1 for ta, tb in zip(extras["enum"], extras["boxed"]) if ta and tb and "-" not in (ta.get("type"), tb.get("type"))))
        for spec, (ta, tb) in zip(extras["specs"], zip(extras["enum"], extras["boxed"])):
            if ta and tb and "-" not in (ta.get("type"), tb.get("type")) and \
                    (ta.get("type"), mask_addr(ta.get("disp", ""))) != (tb.get("type"), mask_addr(tb.get("disp", ""))):
                fails, detail = confirm_value("boxed", [spec])
                ctx.cov["impl_vs_spec_failures"] += 1
                ctx.violation("value_display", {"engine": "value", "kind": "implementation-vs-spec", "build": "boxed", "specs": [spec],
                                                "what": "value_type()/Display of the same value differ between the builds",
                                                "enum": ta, "boxed": tb, "seed": ctx.seed})
                spec_found = True
                break
    # -- program streams ----------------------------------------------------------------------
    tmp = tempfile.mkdtemp(prefix="c14_")
    try:
        fail = program_stream(ctx, ctx.n(400, 25000), tmp)
        if fail:
            report_program_failure(ctx, fail, "programs")
            spec_found = True
        if not fixture_stream(ctx):
            spec_found = True
        if not spec_found and not zoo_stream(ctx):
            spec_found = True
        replay_known(ctx)
    finally:
        shutil.rmtree(tmp, ignore_errors=True)
    # -- broken obligations / broken tie: search, then report ------------------------------------
    if not proved:
        what, detail = ctx.broken
        if not spec_found and not search_value(ctx, what):
            ctx.violation("proof", {"kind": "proof-obligation-failed", "broken": what, "detail": detail}, no_input=True)
    if tie_broken and not spec_found:
        ctx.cov["model_vs_impl_disagreements"] += sum(len(t) for _, t in tie_broken)
        if not search_value(ctx, "tie"):
            build, t = tie_broken[0]
            ctx.violation("value_%s_tie" % build, {"engine": "value", "kind": "model-vs-implementation", "build": build,
                                                   "broken": "correspondence stream value/%s (Model/NanBoxModel.lean + Gen/NanBox.lean vs laythe_core::value)" % build,
                                                   "specs": t[0].get("specs", []), "first": t[:3]}, no_input=True)
    ctx.assumptions += [
        "the boxed half of the model is generated from value.rs by tools/translate.py (trusted); its agreement with the compiled code is sampled by the value stream, not proved",
        "Rust's `==`/Hash on u64 and the derived PartialEq/Hash on `ObjectRef` are bitwise/by-address (std semantics), the derived Hash of the field-less `ValueKind` writes its discriminant, `f64 ==` is IEEE-754 and `f64 as u64` saturates (Model/Ieee64.lean): each is checked on the value stream",
        "IEEE-754 binary64 arithmetic is identical in Rust, Lean's Float (Spec self-check) and Python floats (program oracle)",
        "pointers handed out by the allocator are below 2^50 (ptrOk): observed on every harness object, not proved",
        "program-level agreement of the two builds is sampled (generated programs + fixture corpus), not proved; no LayRef oracle is used here",
    ]


def replay(path):
    r = json.load(open(path))
    for nb in (False, True):
        for b in ("vh_value", "vharness"):
            common.cargo_build(bin=b, nan_boxing=nb)
    common.translate()
    common.lake_build(["drv_nanbox"])
    if r.get("engine") == "value":
        fails, detail = confirm_value(r["build"], r["specs"])
        for k in ("impl", "model", "spec"):
            for line in detail[k]:
                print("%-5s %s" % (k, line[:300]))
        print("judgement:", json.dumps(detail["judgement"])[:1500])
        return 1 if (fails or detail["tie_fails"]) else 0
    if r.get("engine") == "program":
        src = r.get("source")
        if src is None and r.get("source_file"):
            src = open(r["source_file"]).read()
        res = program_fails(src, r.get("expect"))
        print(src)
        print("result:", res)
        return 1 if res else 0
    print("nothing to replay: %s" % r.get("kind"))
    return 1
