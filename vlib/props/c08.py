"""C08 — fibers make progress; deadlock is reported exactly when nothing can run.  DESIGN.md §5 C08.

Obligations: lean/LaytheVerif/Props/C08.lean (+ Props/C07Sched.lean) over the exact scheduler model
Model/Sched.lean.  Tie: random fiber/channel networks rendered both as the model's input (driver
`drv_sched`) and as Laythe programs (run through `vharness runbatch --steps 500000`); stdout, the
"Fatal error deadlock." report, the raised error and host panics are compared.

Two judgements per network:
  implementation-vs-Spec   the Lean Spec (abstract process network, `Sched.explains`) decides whether the
                           implementation's observed outcome is one the network can produce at all;
  model-vs-implementation  the exact model must predict the implementation's outcome verbatim.
Envelope (DESIGN): a network is a regression case iff the exact model agrees with the Spec on it.
Networks on which the model itself deviates are instances of D4/D5/D17/D18/D26 (classified by signature,
counted, never raised) — but the implementation must still do what the model predicts.
"""
import json
import os
import random
import re
import shutil
import tempfile

from .. import common

PROP = "C08"
LEVEL = "proof"
DRV = os.path.join(common.LEAN, ".lake", "build", "bin", "drv_sched")
STEPS = "500000"
KNOWN_SIGS = ("D4", "D5", "D17", "D18", "D26")
FINDING_IDS = {"D4": "D4-close-no-wakeup", "D5": "D5-multiwake-lost-wakeup",
               "D17": "D17-duplicate-runqueue-entry", "D18": "D18-self-wake-unblock", "D6": "D6-callback-blocking-receive",
               "D26": "D26-stale-wakeup-sync-sender-proceeds"}

# ---------------------------------------------------------------------------------------------
# networks: {"caps": [None|int], "bodies": [[op,...],...], "arity": [int,...], "mode": "args"|"capture"}
# op: ["s", p, v] | ["r", p] | ["c", p] | ["L", t, [args]] | ["p", v]


def op_text(op):
    if op[0] == "L":
        return " ".join(["L", str(op[1])] + [str(a) for a in op[2]])
    return " ".join(str(x) for x in op)


def net_text(net):
    caps = " ".join("s" if c is None else str(c) for c in net["caps"])
    return "|".join([caps] + [",".join(op_text(o) for o in b) for b in net["bodies"]])


def parse_net_text(txt, mode="args"):
    parts = txt.split("|")
    caps = [None if w == "s" else int(w) for w in parts[0].split()]
    bodies = []
    for b in parts[1:]:
        ops = []
        for o in b.split(","):
            w = o.split()
            if not w:
                continue
            if w[0] == "L":
                ops.append(["L", int(w[1]), [int(x) for x in w[2:]]])
            else:
                ops.append([w[0]] + [int(x) for x in w[1:]])
        bodies.append(ops)
    return fix_arity({"caps": caps, "bodies": bodies, "mode": mode})


def fix_arity(net):
    """Recompute arities from use (launch argument counts and highest parameter used)."""
    nb = len(net["bodies"])
    ar = [0] * nb
    ar[0] = len(net["caps"])
    for t, b in enumerate(net["bodies"]):
        for o in b:
            if o[0] == "L":
                if o[1] < nb:
                    ar[o[1]] = max(ar[o[1]], len(o[2]))
    for t, b in enumerate(net["bodies"]):
        if t == 0:
            continue
        for o in b:
            if o[0] in ("s", "r", "c"):
                ar[t] = max(ar[t], o[1] + 1)
            elif o[0] == "L":
                for a in o[2]:
                    ar[t] = max(ar[t], a + 1)
    net["arity"] = ar
    return net


def well_formed(net):
    """Renderable as Laythe: launches go to later templates with exactly arity-many in-range
    arguments, parameters in range; capture mode needs identity environments."""
    nb = len(net["bodies"])
    ar = net["arity"]
    if ar[0] != len(net["caps"]) or not net["caps"]:
        return False
    for t, b in enumerate(net["bodies"]):
        for o in b:
            if o[0] in ("s", "r", "c") and not (0 <= o[1] < ar[t]):
                return False
            if o[0] == "L":
                if not (t < o[1] < nb) or len(o[2]) != ar[o[1]] or any(not (0 <= a < ar[t]) for a in o[2]):
                    return False
                if net["mode"] == "capture" and o[2] != list(range(len(net["caps"]))):
                    return False
    if net["mode"] == "capture" and any(a != len(net["caps"]) for a in ar):
        return False
    return True


def render(net):
    """The same network as a Laythe program."""
    cap = net["mode"] == "capture"
    nch = len(net["caps"])
    ind = "  " if cap else ""
    out = []

    def body_lines(t, names, pad):
        ls = []
        k = 0
        for o in net["bodies"][t]:
            if o[0] == "s":
                ls.append("%s%s <- %d;" % (pad, names[o[1]], o[2]))
            elif o[0] == "r":
                k += 1
                ls.append("%slet x%d = <- %s;" % (pad, k, names[o[1]]))
                ls.append('%sprint("f%d got ${x%d}");' % (pad, t, k))
            elif o[0] == "c":
                ls.append("%s%s.close();" % (pad, names[o[1]]))
            elif o[0] == "p":
                ls.append('%sprint("f%d print %d");' % (pad, t, o[1]))
            elif o[0] == "L":
                args = "" if cap else ", ".join(names[a] for a in o[2])
                ls.append("%slaunch f%d(%s);" % (pad, o[1], args))
        return ls

    gl = ["c%d" % i for i in range(nch)]
    if cap:
        out.append("fn main_() {")
    for i, c in enumerate(net["caps"]):
        out.append("%slet c%d = %s;" % (ind, i, "chan()" if c is None else "chan(%d)" % c))
    order = range(len(net["bodies"]) - 1, 0, -1) if cap else range(1, len(net["bodies"]))
    for t in order:
        names = gl if cap else ["p%d" % i for i in range(net["arity"][t])]
        out.append("%sfn f%d(%s) {" % (ind, t, "" if cap else ", ".join(names)))
        out += body_lines(t, names, ind + "  ")
        out.append("%s}" % ind)
    out += body_lines(0, gl, ind)
    if cap:
        out.append("}")
        out.append("main_();")
    return "\n".join(out) + "\n"


# ---------------------------------------------------------------------------------------------
# generator


def _instances(net):
    """number of fibers the network creates (templates launched more than once count each time)"""
    memo = {}

    def inst(t):
        if t not in memo:
            memo[t] = 1 + sum(inst(o[1]) for o in net["bodies"][t] if o[0] == "L")
        return memo[t]
    return inst(0)


def gen_net(rng):
    nch = rng.randint(1, 4)
    caps = [rng.choice([None, None, 1, 1, 2, 3]) for _ in range(nch)]
    nt = rng.choice([2, 3, 3, 4, 4, 5])
    mode = "capture" if rng.random() < 0.2 else "args"
    arity = [nch] + [nch if mode == "capture" else rng.randint(1, nch) for _ in range(nt - 1)]
    parent = [None] + [0 if rng.random() < 0.6 else rng.randrange(0, t) for t in range(1, nt)]
    env = [list(range(nch))]
    largs = [None]
    for t in range(1, nt):
        p = parent[t]
        if mode == "capture":
            a = list(range(nch))
        elif rng.random() < 0.8 and arity[t] <= arity[p]:
            a = rng.sample(range(arity[p]), arity[t])
        else:
            a = [rng.randrange(arity[p]) for _ in range(arity[t])]
        largs.append(a)
        env.append([env[p][x] for x in a])
    bodies = [[] for _ in range(nt)]
    val = [0]

    def fresh():
        val[0] += 1
        return val[0]

    def rand_op(t):
        r = rng.random()
        p = rng.randrange(arity[t])
        if r < 0.42:
            return ["s", p, fresh()]
        if r < 0.84:
            return ["r", p]
        if r < 0.93:
            return ["c", p]
        return ["p", 90 + rng.randrange(9)]

    style = rng.random()
    if style < 0.65:
        # paired: every message gets a sender and a receiver that can reach the channel
        for _ in range(rng.randint(0, 9)):
            g = rng.randrange(nch)
            can = [t for t in range(nt) if g in env[t]]
            if not can:
                continue
            s, r = rng.choice(can), rng.choice(can)
            if 0 in can and rng.random() < 0.35:
                # keep the main fiber involved (otherwise it exits before anything interesting happens)
                if rng.random() < 0.7:
                    r = 0
                else:
                    s = 0
            bodies[s].append(["s", env[s].index(g), fresh()])
            bodies[r].append(["r", env[r].index(g)])
        for t in range(nt):
            if rng.random() < 0.25:
                rng.shuffle(bodies[t])
            while rng.random() < 0.25:
                bodies[t].insert(rng.randint(0, len(bodies[t])), rand_op(t))
    else:
        for t in range(nt):
            bodies[t] = [rand_op(t) for _ in range(rng.randint(0, 6))]
    for t in range(nt):
        bodies[t] = bodies[t][:6 - sum(1 for u in range(1, nt) if parent[u] == t)]
    for t in range(nt - 1, 0, -1):
        p = parent[t]
        pos = 0 if (p == 0 and rng.random() < 0.5) else rng.randint(0, len(bodies[p]))
        bodies[p].insert(pos, ["L", t, list(largs[t])])
    net = {"caps": caps, "bodies": bodies, "arity": arity, "mode": mode}
    if rng.random() < 0.1 and nt >= 2:
        # launch one template a second time (possibly with other arguments)
        t = rng.randrange(1, nt)
        p = parent[t]
        a = list(largs[t]) if (mode == "capture" or rng.random() < 0.5) else [rng.randrange(arity[p]) for _ in range(arity[t])]
        bodies[p].insert(rng.randint(0, len(bodies[p])), ["L", t, a])
        if _instances(net) > 6:
            bodies[p].remove(["L", t, a])
    bodies[0].append(["p", 99])
    assert well_formed(net), net
    return net


# ---------------------------------------------------------------------------------------------
# running both sides

_EV = re.compile(r"^f(\d+) (got|print) (\S+)$")


def parse_impl(rec):
    """(kind, events) of an implementation run, in the driver's notation."""
    st = rec.get("status", "")
    err = rec.get("stderr", "")
    evs = []
    garbage = False
    for line in rec.get("stdout", "").split("\n"):
        if not line:
            continue
        m = _EV.match(line)
        if not m:
            garbage = True
            evs.append("?" + line[:40].replace(" ", "_").replace(";", "_"))
        elif m.group(2) == "got":
            evs.append("g%s:%s" % (m.group(1), m.group(3)))
        else:
            evs.append("p%s:%s" % (m.group(1), m.group(3)))
    if st == "Ok:0":
        kind = "exit"
    elif st.startswith("PANIC:"):
        if "FiberState::Pending | FiberState::Unwinding" in st:
            kind = "panic:activate"
        elif "FiberState::Blocked | FiberState::Pending" in st:
            kind = "panic:unblock"
        else:
            kind = "panic:other:" + st[6:80].replace(";", ",")
    elif st == "STEPLIMIT":
        kind = "steplimit"
    elif st.startswith("CRASH"):
        kind = "crash:" + st[6:]
    elif st == "RuntimeError:1":
        if "Fatal error deadlock." in err:
            kind = "deadlock"
        elif "Attempted to send into a closed channel." in err:
            kind = "error:sendClosed"
        elif "Channel already closed." in err:
            kind = "error:alreadyClosed"
        else:
            kind = "runtime-error:" + err.strip().split("\n")[0][:80].replace(";", ",")
    else:
        kind = "status:" + st
    if garbage:
        kind += "+garbage"
    return kind, (" ".join(evs) if evs else "-")


def _drive(lines):
    """run request lines through drv_sched, sharded over processes (the Spec search is single-threaded)"""
    import concurrent.futures
    if not lines:
        return []
    n = max(1, min(common.NCPU, (len(lines) + 199) // 200))
    shards = [lines[k::n] for k in range(n)]

    def one(sh_):
        rc, out, err = common.run_lines([DRV], sh_, timeout=3000)
        return [out[i] if i < len(out) else "driver-failure rc=%s %s" % (rc, (err or "")[-200:].replace(";", ",")) for i in range(len(sh_))]
    with concurrent.futures.ThreadPoolExecutor(max_workers=n) as ex:
        outs = list(ex.map(one, shards))
    res = [None] * len(lines)
    for k, o in enumerate(outs):
        for j, r in enumerate(o):
            res[k + j * n] = r
    return res


def run_model(nets):
    """[(kind, events, v1, v2, sig, stats)] from drv_sched."""
    out = _drive(["run " + net_text(n) for n in nets])
    res = []
    for line in out:
        f = line.split(";")
        res.append(tuple(f) if len(f) == 6 else ("driver-failure", "-", "unfinished", "no", "other", line))
    return res


def judge(items):
    """items: [(kind, events, net)] → ['yes'|'no'|'unknown'] : can the abstract network produce this?"""
    return _drive(["judge %s;%s;%s" % (k, e, net_text(n)) for k, e, n in items])


class Work:
    """scratch directory for the generated programs of one stream"""

    def __init__(self):
        self.dir = tempfile.mkdtemp(prefix="c08_")
        self.n = 0

    def write(self, src):
        self.n += 1
        p = os.path.join(self.dir, "n%06d.lay" % self.n)
        with open(p, "w") as f:
            f.write(src)
        return p

    def close(self):
        shutil.rmtree(self.dir, ignore_errors=True)


def run_impl(nets, work, extra=()):
    files = [work.write(render(n)) for n in nets]
    reqs = [" ".join(["--steps", STEPS] + list(extra) + [f]) for f in files]
    recs = common.run_batch(reqs)
    return [parse_impl(r) if r else ("crash:none", "-") for r in recs]


def both(nets, work):
    m = run_model(nets)
    i = run_impl(nets, work)
    return m, i


# ---------------------------------------------------------------------------------------------
# shrinking


def _variants(net):
    """smaller networks: drop one operation, drop a whole unlaunched tail template, lower a capacity"""
    nb = len(net["bodies"])
    for t in range(nb):
        for k in range(len(net["bodies"][t])):
            op = net["bodies"][t][k]
            if op[0] == "L":
                continue
            b = [list(x) for x in net["bodies"]]
            del b[t][k]
            yield dict(net, bodies=b)
    # drop a template that launches nothing, together with its launch sites
    for t in range(nb - 1, 0, -1):
        if any(o[0] == "L" for o in net["bodies"][t]):
            continue
        b = []
        for u, body in enumerate(net["bodies"]):
            if u == t:
                continue
            nbody = []
            for o in body:
                if o[0] == "L":
                    if o[1] == t:
                        continue
                    nbody.append(["L", o[1] - (1 if o[1] > t else 0), list(o[2])])
                else:
                    nbody.append(list(o))
            b.append(nbody)
        ar = [a for u, a in enumerate(net["arity"]) if u != t]
        yield dict(net, bodies=b, arity=ar)


def shrink(net, fails, budget=150):
    cur = net
    changed = True
    while changed and budget > 0:
        changed = False
        for cand in _variants(cur):
            if budget <= 0:
                break
            if not well_formed(cand):
                continue
            budget -= 1
            if fails(cand):
                cur = cand
                changed = True
                break
    return cur


# ---------------------------------------------------------------------------------------------
# the stream


def classify(net, m, i, jv):
    """Returns (category, detail). m = model tuple, i = impl (kind, events), jv = Spec verdict on the
    implementation's outcome (None if not computed: implementation == model)."""
    mk, me, v1, v2, sig, _ = m
    same = (mk, me) == i
    if sig == "in":
        if same:
            return "ok", ""
        if jv == "no":
            return "spec", "implementation's outcome %s [%s] cannot be produced by the network (model predicts %s [%s])" % (i[0], i[1], mk, me)
        return "tie", "implementation %s [%s], model %s [%s]; the Spec allows the implementation's outcome" % (i[0], i[1], mk, me)
    if sig in KNOWN_SIGS:
        if same:
            return "known:" + sig, ""
        return "tie", "on a %s-signature network the implementation gave %s [%s], the model predicts %s [%s]" % (sig, i[0], i[1], mk, me)
    # the exact model deviates from the Spec in a way none of the known findings explains
    if same or jv == "no":
        return "spec", "outcome %s [%s] deviates from the Spec (v1=%s v2=%s) and matches no known-finding signature" % (i[0], i[1], v1, v2)
    return "tie", "model deviates from the Spec (unclassified: %s/%s) and the implementation differs from it: %s [%s]" % (v1, v2, i[0], i[1])


def evaluate(nets, work):
    """Run both sides and both judgements. Returns list of dicts."""
    m, im = both(nets, work)
    need = [k for k in range(len(nets)) if (m[k][0], m[k][1]) != im[k]]
    jv = dict(zip(need, judge([(im[k][0], im[k][1], nets[k]) for k in need])))
    res = []
    for k, n in enumerate(nets):
        cat, detail = classify(n, m[k], im[k], jv.get(k))
        res.append({"net": n, "model": m[k], "impl": im[k], "impl_spec": jv.get(k, "same-as-model"), "cat": cat, "detail": detail})
    return res


def payload(r, kind, seed, found_by="stream"):
    n = r["net"]
    return {"engine": "sched", "kind": kind, "seed": seed, "what": r["detail"], "found_by": found_by,
            "net": net_text(n), "mode": n["mode"], "program": render(n),
            "model": {"outcome": r["model"][0], "events": r["model"][1], "spec_state_verdict": r["model"][2],
                      "spec_trace_verdict": r["model"][3], "signature": r["model"][4]},
            "impl": {"outcome": r["impl"][0], "events": r["impl"][1], "spec_verdict": r["impl_spec"]},
            "replay": "./check C08 --replay <this file>"}


def shrink_case(r, work, want):
    """delta-debug a failing network, keeping the failure category"""
    def fails(cand):
        rr = evaluate([cand], work)[0]
        return rr["cat"] == want
    small = shrink(r["net"], fails)
    return evaluate([small], work)[0]


CHUNK = 40000


def stream(ctx, n, label="networks", seed_mul=1):
    """the main differential stream (in chunks, to bound memory); returns
    ([shrunk spec failure], [shrunk tie failure], #spec failures, #tie failures)"""
    rng = random.Random(ctx.seed * 1000003 + 17 * seed_mul)
    corpus = []
    cdir = os.path.join(common.VERIF, "corpus", "C08")
    if os.path.isdir(cdir) and label == "networks":
        for f in sorted(os.listdir(cdir)):
            if f.endswith(".json"):
                c = json.load(open(os.path.join(cdir, f)))
                corpus.append(parse_net_text(c["net"], c.get("mode", "args")))
    st = {"networks": 0, "corpus": len(corpus), "in_envelope": 0, "agree": 0,
          "exit": 0, "deadlock": 0, "error": 0, "panic": 0, "capture_mode": 0,
          "switches": 0, "wake_direct": 0, "wake_scan": 0, "wake_parent": 0, "retries": 0, "events": 0}
    for s in KNOWN_SIGS:
        st["known_" + s] = 0
    spec_f, tie_f = [], []
    nspec = ntie = 0
    work = Work()
    try:
        left = n
        first = True
        while left > 0 or first:
            k = min(left, CHUNK)
            nets = (corpus if first else []) + [gen_net(rng) for _ in range(k)]
            ncorpus = len(corpus) if first else 0
            left -= k
            res = evaluate(nets, work)
            for r in res:
                mk = r["model"][0]
                st["networks"] += 1
                st["in_envelope"] += r["model"][4] == "in"
                st["agree"] += (r["model"][0], r["model"][1]) == r["impl"]
                st[mk.split(":")[0]] = st.get(mk.split(":")[0], 0) + 1
                st["capture_mode"] += r["net"]["mode"] == "capture"
                if r["cat"].startswith("known:"):
                    st["known_" + r["cat"][6:]] += 1
                kv = dict(x.split("=") for x in r["model"][5].split() if "=" in x)
                st["switches"] += int(kv.get("switch", 0))
                st["wake_direct"] += int(kv.get("wdirect", 0))
                st["wake_scan"] += int(kv.get("wscan", 0))
                st["wake_parent"] += int(kv.get("wparent", 0))
                st["retries"] += int(kv.get("retry", 0))
                st["events"] += int(kv.get("out", 0))
                nontriv = int(kv.get("switch", 0)) >= 2 and int(kv.get("out", 0)) >= 2
                ctx.count_case(net_text(r["net"]) + r["net"]["mode"], nontriv)
                if r["cat"] == "spec":
                    nspec += 1
                    if not spec_f:
                        spec_f.append(r)
                elif r["cat"] == "tie":
                    ntie += 1
                    if not tie_f:
                        tie_f.append(r)
            if first and label == "networks":
                for r in res[ncorpus:ncorpus + 400]:
                    if int(dict(x.split("=") for x in r["model"][5].split() if "=" in x).get("switch", 0)) >= 4:
                        ctx.sample({"net": net_text(r["net"]), "mode": r["net"]["mode"], "model": r["model"][0] + " [" + r["model"][1] + "]",
                                    "impl": r["impl"][0] + " [" + r["impl"][1] + "]", "signature": r["model"][4]}, cap=4)
            first = False
            work.close()
            work = Work()
            if spec_f:
                break        # a concrete violation: stop generating, shrink it
        ctx.stream_stat(label, **st)
        ctx.cov["traces_validated_against_impl"] += st["networks"]
        out_spec, out_tie = [], []
        if spec_f:
            out_spec.append(shrink_case(spec_f[0], work, "spec"))
            if out_spec[0]["cat"] != "spec":
                out_spec[0] = spec_f[0]
        if tie_f:
            out_tie.append(shrink_case(tie_f[0], work, "tie"))
            if out_tie[0]["cat"] != "tie":
                out_tie[0] = tie_f[0]
        return out_spec, out_tie, nspec, ntie
    finally:
        work.close()


def search(ctx, n):
    """Spec-judged search for a concrete network on which the implementation breaks the property
    (outside the known-finding signatures). Returns an evaluated case or None."""
    for round_ in range(4):
        spec_f, _, ns, _ = stream(ctx, n // 4, label="search", seed_mul=101 + round_)
        if spec_f:
            return spec_f[0]
    return None


# ---------------------------------------------------------------------------------------------
# known findings


def replay_known(ctx):
    """Replay the committed witnesses of the known findings; KNOWN-FINDING while they still reproduce."""
    recs = [r for r in common.load_findings(PROP)]
    still = []
    for r in recs:
        w = os.path.join(common.VERIF, r["witness"])
        exp = r.get("expect", {})
        if not os.path.exists(w):
            ctx.assumptions.append("known finding %s: witness %s missing" % (r["id"], r["witness"]))
            continue
        rec = common.run_batch(["--steps %s %s" % (STEPS, w)])[0]
        st, err, out = rec.get("status", ""), rec.get("stderr", ""), rec.get("stdout", "")
        ok = True
        if "status_prefix" in exp:
            ok = ok and st.startswith(exp["status_prefix"])
        if "status_contains" in exp:
            ok = ok and exp["status_contains"] in st
        if "stderr_contains" in exp:
            ok = ok and exp["stderr_contains"] in err
        if "stdout" in exp:
            ok = ok and out == exp["stdout"]
        if ok:
            ctx.known(r["id"], r["what"])
            still.append(r["id"])
        else:
            ctx.assumptions.append("known finding %s no longer reproduces (status %s)" % (r["id"], st))
        # the witness network: the model must show the finding's signature and predict the implementation verbatim
        if r.get("net"):
            net = parse_net_text(r["net"], r.get("mode", "args"))
            work = Work()
            try:
                e = evaluate([net], work)[0]
            finally:
                work.close()
            ctx.stream_stat("known_witnesses", **{r["id"]: "model %s sig=%s impl %s" % (e["model"][0], e["model"][4], e["impl"][0])})
            if (e["cat"] == "tie" or e["cat"] == "spec") and not ctx.violations:
                # the implementation no longer does what the exact model predicts on a committed witness
                ctx.cov["model_vs_impl_disagreements"] += 1
                p = payload(e, "model-vs-implementation", ctx.seed, "known-finding witness " + r["id"])
                p["broken"] = "known-finding witness %s: implementation and exact model differ" % r["id"]
                ctx.violation("sched_witness_" + r["id"].split("-")[0], p, no_input=(e["cat"] == "tie"))
    return still


# ---------------------------------------------------------------------------------------------


def run(ctx):
    proved = ctx.prove("LaytheVerif.Props.C08", extra_targets=("drv_sched",))
    if proved:
        # the fiber-level half of C07 lives in its own module; its import closure contains Props/C08, so the
        # obligation counts recorded by this second call cover both
        proved = ctx.prove("LaytheVerif.Props.C07Sched", extra_targets=("drv_sched",))
    ok_c, out_c = common.cargo_build()
    if not ok_c:
        ctx.violation("harness_build", {"kind": "harness-build-failed", "broken": "cargo build of /verif/harness against /repo",
                                        "output": out_c[-3000:]}, no_input=True)
        return
    if not os.path.exists(DRV):
        ok_l, out_l = common.lake_build(["drv_sched"])
        if not ok_l:
            ctx.violation("driver_build", {"kind": "driver-build-failed", "broken": "lake build drv_sched", "output": out_l[-3000:]}, no_input=True)
            return
    ctx.cov["rule"] = ("random fiber/channel networks (<=5 functions, <=4 channels sync/1/2/3, <=6 operations per fiber, launches at any "
                       "point, closes, arguments permuted/aliased or captured); non-trivial = at least two context switches and two "
                       "printed events; distinct by hash of the network text")
    n = ctx.n(60000, 1000000)
    if not proved:
        what, detail = ctx.broken
        found = search(ctx, 10 * ctx.n(1500, 4000))
        if found:
            p = payload(found, "implementation-vs-spec", ctx.seed, "search")
            p["broken_obligation"] = what
            ctx.cov["impl_vs_spec_failures"] += 1
            ctx.violation("sched_spec", p)
        else:
            ctx.violation("proof", {"kind": "proof-obligation-failed", "broken": what, "detail": detail}, no_input=True)
    spec_f, tie_f, ns, nt = stream(ctx, n)
    ctx.cov["impl_vs_spec_failures"] += ns
    ctx.cov["model_vs_impl_disagreements"] += nt
    if spec_f:
        ctx.violation("sched_spec", payload(spec_f[0], "implementation-vs-spec", ctx.seed))
    elif tie_f:
        found = search(ctx, 10 * ctx.n(1500, 4000))
        if found:
            p = payload(found, "implementation-vs-spec", ctx.seed, "search")
            p["tie_failure"] = payload(tie_f[0], "model-vs-implementation", ctx.seed)
            ctx.cov["impl_vs_spec_failures"] += 1
            ctx.violation("sched_spec", p)
        else:
            p = payload(tie_f[0], "model-vs-implementation", ctx.seed)
            p["broken"] = "correspondence stream sched (Model/Sched.lean vs the VM's scheduler)"
            ctx.violation("sched_tie", p, no_input=True)
    replay_known(ctx)
    ctx.assumptions += [
        "the scheduler model (Model/Sched.lean) is hand-written from ops.rs/basic.rs/mod.rs/fiber/mod.rs; agreement is checked on the network stream, not proved",
        "C08_full is false on the pinned code (D4, D5, D17, D18; D26 for the rendezvous clause of C07): the regression envelope is computed per network (exact model agrees with the Spec)",
        "networks are straight-line (no loops, no error handlers, no native callbacks); D6 (blocking receive inside a native callback) is outside the model and replayed as a witness only",
        "the scheduler event log hook of DESIGN 2.4 does not exist; the tie compares stdout/stderr/status only",
    ]


def replay(path):
    r = json.load(open(path))
    if "net" not in r:
        print("replay file has no network (kind=%s broken=%s)" % (r.get("kind"), r.get("broken")))
        return 1
    ok_c, _ = common.cargo_build()
    common.lake_build(["drv_sched"])
    net = parse_net_text(r["net"], r.get("mode", "args"))
    work = Work()
    try:
        e = evaluate([net], work)[0]
    finally:
        work.close()
    print("net    :", net_text(net), "(%s)" % net["mode"])
    print("model  : %s [%s] v1=%s v2=%s sig=%s" % e["model"][:5])
    print("impl   : %s [%s] spec=%s" % (e["impl"][0], e["impl"][1], e["impl_spec"]))
    print("verdict:", e["cat"], e["detail"])
    return 1 if e["cat"] in ("spec", "tie") else 0
