"""C18 — errors are reported faithfully: class, message, call chain and exit status.  DESIGN.md §5 C18.

Obligations: lean/LaytheVerif/Props/C18.lean (C18_enc_table, C18_lines_aligned, C18_saved_ip_line,
C18_opt_slots_owned, C18_backtrace_frames, C18_traceback_ip_source, C18_traceback_frames (full: however many catch
clauses declined the error on its way), C18_traceback_no_handler, C18_traceback_all_frames, C18_nested_catch_above_bottom,
C18_unwind_across_natives, C18_traceback_across_natives, C18_exit_through_natives, C18_exit_status_anywhere, C18_status,
C18_status_kind + the witness of the open finding D186, C18_witness_filter_error_keeps_abandoned_frames).

Streams:
  lines   (tie A)  for every function of the compile dump of the fixture corpus and of the generated
                   call-chain programs: the model's encoded line table (peephole MODEL on the PRE stream,
                   then Model/Lines.lean `encodeLines`) must equal the real `LINES`; Spec monitor: one line
                   entry per code byte, every entry is a line of the pre-optimisation stream.
  chains  (tie B)  seeded call-chain programs with randomised line layout (vlib/props/c18gen.py), run with
                   the release harness; judged by `drv_lines judge` (Lean): Spec verdict (the property),
                   model verdict (Model/Lines.lean run on the chain), anchor verdict (documented compiler rule).
  corpus           corpus/C18/*.json first: plans (judged like the chains) and raw multi-file programs with their
                   expected result (`files` + `correct`), among them the witnesses of the repaired findings
                   D181–D185 as regression inputs.
"""
import copy
import json
import os
import random
import re
import shutil
from urllib.parse import quote, unquote

from .. import common
from . import c12, c18gen

PROP = "C18"
LEVEL = "proof"
DRV = os.path.join(common.LEAN, ".lake", "build", "bin", "drv_lines")
WORK = os.path.join(common.VERIF, ".work", "c18")
RELEASE = True   # debug assertions of unrelated subsystems (temp-root accounting of natives) would abort chains


def harness():
    return common.harness_path(release=RELEASE)


# ---------------------------------------------------------------------------------------------
# tie A: line tables


def line_spec_monitor(fun):
    """The property of a line table, independent of the model.  Returns None or a message."""
    code = fun.get("CODE", "")
    lines = [x for x in fun.get("LINES", "").split(",") if x != ""]
    if len(lines) != len(code) // 2:
        return "line table has %d entries for %d code bytes" % (len(lines), len(code) // 2)
    pre_lines = {p.rsplit("@", 1)[1] for p in fun.get("PRE", "").split(";") if "@" in p}
    extra = [l for l in lines if l not in pre_lines]
    if extra:
        return "line %s appears in the table but no instruction of the function carries it" % extra[0]
    return None


def model_table(pres):
    rc, out, err = common.run_lines([DRV, "table"], pres, timeout=1200)
    res = []
    for o in out:
        try:
            res.append(dict(p.split("=", 1) for p in o.split(" ")))
        except ValueError:
            res.append({"bad": o})
    return res, rc, err


def dump(files):
    """Compile-only dump, sharded over processes."""
    import concurrent.futures
    n = max(1, min(common.NCPU, (len(files) + 15) // 16))
    shards = [files[k::n] for k in range(n)]
    with concurrent.futures.ThreadPoolExecutor(max_workers=n) as ex:
        outs = list(ex.map(lambda fs: c12.dump_functions(fs, harness=harness()), shards))
    funs = []
    rc_all = 0
    for f, rc in outs:
        funs += f
        rc_all = rc_all or rc
    return funs, rc_all


def stream_lines(ctx, label, files):
    funs, rc = dump(files)
    funs = [f for f in funs if f.get("PRE") is not None and f.get("CODE") is not None]
    ctx.stream_stat(label, files=len(files), functions=len(funs))
    if not funs:
        ctx.violation(label + "_tie", {"kind": "model-vs-implementation", "broken": "compile dump produced no functions (harness `dump`)",
                                       "files": files[:3]}, no_input=True)
        return False
    tables, rc_m, err = model_table([f["PRE"] for f in funs])
    multi = 0
    for f, t in zip(funs, tables):
        msg = line_spec_monitor(f)
        distinct_lines = len(set(f.get("LINES", "").split(",")))
        multi += distinct_lines > 1
        ctx.count_case(["lines", f["PRE"]], nontrivial=distinct_lines > 1)
        if msg:
            ctx.cov["impl_vs_spec_failures"] += 1
            ctx.violation(label + "_spec", {"kind": "implementation-vs-spec", "stream": "lines", "what": msg, "file": f["file"],
                                            "function": f["head"], "PRE": f["PRE"], "CODE": f["CODE"], "LINES": f["LINES"],
                                            "source": _read(f["file"])})
            return False
    ctx.stream_stat(label, multi_line_functions=multi)
    ctx.cov["traces_validated_against_impl"] += len(funs)
    if len(tables) != len(funs):
        tables += [{"bad": "<missing>"}] * (len(funs) - len(tables))
    for f, t in zip(funs, tables):
        ok = ("bad" not in t and t.get("lines") == f.get("LINES", "") and int(t.get("len", -1)) == len(f["CODE"]) // 2
              and t.get("ws") == "1" and t.get("wsp") == "1")
        if not ok:
            ctx.cov["model_vs_impl_disagreements"] += 1
            what = "encoded line table of the model differs from the compiler's"
            if t.get("ws") == "0":
                what = "hypothesis wellSlotted (C18_opt_slots_owned / C18_saved_ip_line) does not hold of a stream the compiler produced"
            payload = {"kind": "model-vs-implementation", "stream": "lines", "what": what, "file": f["file"], "function": f["head"],
                       "PRE": f["PRE"], "POST": f.get("POST"), "CODE": f["CODE"], "LINES": f["LINES"], "model": t,
                       "broken": "correspondence stream lines (Model/Lines.lean encodeLines ∘ Model/Peephole.lean opt vs ByteCodeEncoder)",
                       "source": _read(f["file"])}
            found = search(ctx)
            if found:
                found["tie_failure"] = payload
                ctx.violation("chain_spec", found)
            else:
                ctx.violation(label + "_tie", payload, no_input=True)
            return False
    return True


def _read(path):
    try:
        return open(path).read()[:20000]
    except OSError:
        return None


# ---------------------------------------------------------------------------------------------
# tie B: call chains


def write_case(d, files):
    os.makedirs(d, exist_ok=True)
    for n, t in files.items():
        with open(os.path.join(d, n), "w") as f:
            f.write(t)


def mask(text, d):
    pref = os.path.realpath(d) + os.sep
    return text.replace(pref, "@/")


def judge_requests(descs, results, dirs):
    reqs = []
    for desc, r, d in zip(descs, results, dirs):
        reqs.append("%s\t%s\t%s\t%s" % (desc, r["status"].replace("\t", " "), quote(mask(r.get("stdout", ""), d), safe=""),
                                      quote(mask(r.get("stderr", ""), d), safe="")))
    rc, outs, err = common.run_lines([DRV, "judge"], reqs, timeout=1200)
    verdicts = []
    for o in outs:
        if o.startswith("bad-"):
            raise RuntimeError("drv_lines judge rejected a request (%s): generator and driver disagree on the description format" % o)
        v = o.split("\t")
        verdicts.append(v if len(v) == 3 else [o, o, o])
    while len(verdicts) < len(reqs):
        verdicts.append(["no-verdict (driver died)"] * 3)
    return verdicts


def expect_of(desc):
    rc, outs, err = common.run_lines([DRV, "expect"], [desc])
    if not outs:
        return None
    p = outs[0].split("\t")
    res = {}
    for k in range(0, len(p) - 3, 4):
        res[p[k]] = {"status": p[k + 1], "stdout": unquote(p[k + 2]), "stderr": unquote(p[k + 3])}
    return res


def run_plans(plans, tag):
    """Render, run and judge plans.  Returns list of dict(plan, files, desc, dir, result, verdict)."""
    root = os.path.join(WORK, tag)
    shutil.rmtree(root, ignore_errors=True)
    cases = []
    for i, plan in enumerate(plans):
        files, desc = c18gen.render(plan)
        d = os.path.join(root, "c%d" % i)
        write_case(d, files)
        cases.append({"plan": plan, "files": files, "desc": desc, "dir": d})
    results = common.run_batch([os.path.join(c["dir"], "main.lay") for c in cases], release=RELEASE)
    verdicts = judge_requests([c["desc"] for c in cases], results, [c["dir"] for c in cases])
    for c, r, v in zip(cases, results, verdicts):
        c["result"] = {"status": r["status"], "stdout": mask(r.get("stdout", ""), c["dir"]), "stderr": mask(r.get("stderr", ""), c["dir"])}
        c["verdict"] = v
    return cases


def verdict_of(plan, tag="single"):
    return run_plans([plan], tag)[0]


def shrink_plan(plan, which):
    """Delta-debugging on the plan; `which` = index of the verdict (0 spec, 1 model, 2 anchor) that must stay bad."""
    def fails(p):
        try:
            return verdict_of(p, "shrink")["verdict"][which] != "ok"
        except Exception:
            return False

    cur = copy.deepcopy(plan)
    changed = True
    rounds = 0
    while changed and rounds < 12:
        changed = False
        rounds += 1
        cands = []
        # shorter chains (keep the final action)
        for k in range(1, len(cur["frames"])):
            c = copy.deepcopy(cur)
            c["frames"] = c["frames"][:k]
            cands.append(c)
        # drop single frames
        for k in range(1, len(cur["frames"])):
            c = copy.deepcopy(cur)
            del c["frames"][k]
            cands.append(c)
        # drop handlers, fillers
        for i, f in enumerate(cur["frames"]):
            if f.get("handler"):
                c = copy.deepcopy(cur)
                c["frames"][i]["handler"] = None
                cands.append(c)
                if f["handler"].get("printcls"):
                    c = copy.deepcopy(cur)
                    c["frames"][i]["handler"]["printcls"] = False
                    cands.append(c)
            if f.get("fill"):
                c = copy.deepcopy(cur)
                c["frames"][i]["fill"] = []
                cands.append(c)
            if f.get("params") and f["kind"] in ("fn", "method", "init", "static", "super", "lamlet", "call"):
                c = copy.deepcopy(cur)
                c["frames"][i]["params"] = 0
                cands.append(c)
        # calmer layout
        for key, val in (("p_tok", 0.0), ("p_blank", 0.0), ("p_comment", 0.0), ("p_stmt", 1.0)):
            if cur["layout"][key] != val:
                c = copy.deepcopy(cur)
                c["layout"][key] = val
                cands.append(c)
        for c in cands:
            c = c18gen.normalize(c)
            if c is None or c == cur:
                continue
            if fails(c):
                cur = c
                changed = True
                break
    return cur


def chain_payload(case, kind, which):
    exp = expect_of(case["desc"]) or {}
    return {"engine": "chain", "kind": kind, "what": case["verdict"][which], "plan": case["plan"], "files": case["files"],
            "description": case["desc"], "observed": case["result"], "verdicts": case["verdict"],
            "spec_expected": exp.get("spec"), "spec_line_spans": exp.get("span"), "model_expected": exp.get("model")}


def stream_chains(ctx, label, plans, report=True):
    """Returns (ok, first failing case or None)."""
    if not plans:
        return True, None
    cases = run_plans(plans, label)
    stats = {}
    spec_bad = tie_bad = None
    for c in cases:
        for k, v in c18gen.features(c["plan"]).items():
            stats[k] = stats.get(k, 0) + v
        st = c["result"]["status"].split(":")[0]
        stats["status_" + st] = stats.get("status_" + st, 0) + 1
        nontrivial = c["plan"]["final"]["kind"] != "finish" and len(c["plan"]["frames"]) > 1
        ctx.count_case(["chain", c["desc"]], nontrivial=nontrivial)
        if c["verdict"][0] != "ok" and spec_bad is None:
            spec_bad = c
        if (c["verdict"][1] != "ok" or c["verdict"][2] != "ok") and tie_bad is None:
            tie_bad = c
    ctx.stream_stat(label, programs=len(cases), **stats)
    ctx.cov["traces_validated_against_impl"] += len(cases)
    if not report:
        return spec_bad is None and tie_bad is None, spec_bad or tie_bad
    if spec_bad:
        ctx.cov["impl_vs_spec_failures"] += 1
        small = shrink_plan(spec_bad["plan"], 0)
        case = verdict_of(small, "final")
        if case["verdict"][0] == "ok":
            case = spec_bad
        ctx.violation("chain_spec", chain_payload(case, "implementation-vs-spec", 0))
        return False, spec_bad
    if tie_bad:
        ctx.cov["model_vs_impl_disagreements"] += 1
        which = 1 if tie_bad["verdict"][1] != "ok" else 2
        small = shrink_plan(tie_bad["plan"], which)
        case = verdict_of(small, "final")
        if case["verdict"][which] == "ok":
            case = tie_bad
        found = search(ctx)
        if found:
            found["tie_failure"] = chain_payload(case, "model-vs-implementation", which)
            ctx.violation("chain_spec", found)
        else:
            p = chain_payload(case, "model-vs-implementation", which)
            p["broken"] = ("correspondence stream chains: " +
                           ("Model/Lines.lean (unwindRun / printError / backtraceText / status) vs the VM" if which == 1 else
                            "documented anchor rule (which token's line the compiler attaches) vs the compiler"))
            ctx.violation("chain_tie", p, no_input=True)
        return False, tie_bad
    return True, None


_search_done = {}


def search(ctx):
    """Bigger, Spec-judged budget of call-chain programs: a concrete program on which the implementation breaks
    the property, or None."""
    if "r" in _search_done:
        return _search_done["r"]
    rng = random.Random(ctx.seed * 7907 + 18)
    n = ctx.n(20000, 60000)
    found = None
    for k in range(0, n, 5000):
        plans = [c18gen.gen_plan(rng) for _ in range(5000)]
        cases = run_plans(plans, "search")
        ctx.stream_stat("search", programs=len(cases))
        bad = [c for c in cases if c["verdict"][0] != "ok"]
        if bad:
            small = shrink_plan(bad[0]["plan"], 0)
            case = verdict_of(small, "final")
            if case["verdict"][0] == "ok":
                case = bad[0]
            found = chain_payload(case, "implementation-vs-spec", 0)
            found["found_by"] = "search"
            break
    _search_done["r"] = found
    return found


# ---------------------------------------------------------------------------------------------
# hand table of natives used by the generator vs the source text


def check_native_table():
    base = os.path.join(common.REPO, "laythe_lib", "src", "global", "primitives")
    bad = []
    for table, want in ((c18gen.STACK_NATIVES, True), (c18gen.STACKLESS_NATIVES, False)):
        for name, (rel, const) in table.items():
            try:
                src = open(os.path.normpath(os.path.join(base, rel))).read()
            except OSError as e:
                bad.append("%s: %s" % (name, e))
                continue
            m = re.search(r"const\s+%s\s*:\s*NativeMetaBuilder\s*=(.*?);" % const, src, flags=re.S)
            if not m:
                bad.append("%s: constant %s not found in %s" % (name, const, rel))
            elif (".with_stack()" in m.group(1)) != want:
                bad.append("%s: with_stack is %s in %s, the generator assumes %s" % (name, not want, rel, want))
    return bad


# ---------------------------------------------------------------------------------------------
# known findings


def run_raw_case(case, tag):
    """A program given as files with its expected result (`correct`).  Returns (None or what differs, observed)."""
    d = os.path.join(WORK, "raw", tag)
    shutil.rmtree(d, ignore_errors=True)
    write_case(d, case["files"])
    r = common.run_batch([os.path.join(d, "main.lay")], release=RELEASE)[0]
    obs = {"status": r["status"], "stdout": mask(r.get("stdout", ""), d), "stderr": mask(r.get("stderr", ""), d)}
    exp = case["correct"]
    bad = None
    if "status" in exp and obs["status"] != exp["status"]:
        bad = "status expected %s got %s" % (exp["status"], obs["status"])
    elif "status_not" in exp and obs["status"] == exp["status_not"]:
        bad = "status must not be %s" % exp["status_not"]
    elif "stdout" in exp and obs["stdout"] != exp["stdout"]:
        bad = "stdout expected %r got %r" % (exp["stdout"], obs["stdout"])
    elif "stderr" in exp and obs["stderr"] != exp["stderr"]:
        bad = "stderr expected %r got %r" % (exp["stderr"], obs["stderr"])
    elif "stderr_first" in exp and obs["stderr"].split("\n")[0] != exp["stderr_first"]:
        bad = "first stderr line expected %r got %r" % (exp["stderr_first"], obs["stderr"].split("\n")[0])
    elif "stderr_last" in exp and obs["stderr"].strip().split("\n")[-1] != exp["stderr_last"]:
        bad = "last stderr line expected %r got %r" % (exp["stderr_last"], obs["stderr"].strip().split("\n")[-1])
    return bad, obs


def replay_finding(rec):
    """True iff the witness still shows the defect."""
    case = json.load(open(os.path.join(common.VERIF, rec["witness"])))
    if case.get("plan"):
        # judged by the Lean Spec from the plan (the files on disk are the rendering of that plan)
        return verdict_of(case["plan"], "known_" + rec["id"])["verdict"][0] != "ok"
    return run_raw_case(case, "known_" + rec["id"])[0] is not None


# ---------------------------------------------------------------------------------------------


def run(ctx):
    os.makedirs(WORK, exist_ok=True)
    proved = ctx.prove("LaytheVerif.Props.C18", extra_targets=("drv_lines",))
    ok_c, out_c = common.cargo_build(release=RELEASE)
    if not ok_c:
        ctx.violation("harness_build", {"kind": "harness-build-failed", "broken": "cargo build of /verif/harness against /repo",
                                        "output": out_c[-3000:]}, no_input=True)
        return
    ctx.cov["rule"] = ("(lines) every function of the compile dump of the 637 fixture programs and of the generated programs; non-trivial = "
                       "the function spans more than one source line; (chains) seeded call-chain programs: depth 0..8 over link kinds "
                       "fn/method/init/static/super/let-lambda/each/map+list/reduce/any/all/filter+list/for-in/call()/print->str()/"
                       "List.sort comparator/second module with callback/module imported mid-script, innermost action raise Error/subclass/"
                       "custom-init subclass/subclass whose message stays nil, 1+nil, undefined property, nil(), index out of range, raise 5, "
                       "exit(n)/exit() (also inside native callbacks), import of a module that does not compile (import m / import m: {f}, "
                       "5 kinds of compile error), normal finish; try/catch in any frame (also frames with parameters and the frame that "
                       "drives a lazy iterator) with blank/Error/exact/super/unrelated filters and actions continue/exit(n)/wrap(+inner)/"
                       "rethrow, every outcome incl. unhandled after any number of declining clauses; print() fillers; layout: each "
                       "token boundary breaks the line with p in {0,.05,.2,.5,.9}, blank lines, comment lines, several statements per "
                       "line; non-trivial = depth>=1 and not a plain finish; distinct by chain description (includes all line numbers)")
    if not proved:
        what, detail = ctx.broken
        found = search(ctx)
        if found:
            found["broken_obligation"] = what
            ctx.violation("chain_spec", found)
        else:
            ctx.violation("proof", {"kind": "proof-obligation-failed", "broken": what, "detail": detail}, no_input=True)
        return
    bad = check_native_table()
    if bad:
        ctx.violation("natives_tie", {"kind": "model-vs-implementation", "broken": "generator's table of natives with a stack frame (c18gen.STACK_NATIVES)",
                                      "detail": bad}, no_input=True)
        return
    # corpus first
    corpus = os.path.join(common.VERIF, "corpus", "C18")
    pre = []
    raw = []
    if os.path.isdir(corpus):
        for f in sorted(os.listdir(corpus)):
            r = json.load(open(os.path.join(corpus, f)))
            if r.get("plan"):
                pre.append(r["plan"])
            elif r.get("files") and r.get("correct"):
                raw.append((f, r))
    ok, _ = stream_chains(ctx, "corpus", pre)
    if not ok:
        return
    for f, r in raw:
        bad, obs = run_raw_case(r, f)
        ctx.count_case(["raw", f], nontrivial=True)
        if bad:
            ctx.cov["impl_vs_spec_failures"] += 1
            ctx.violation("corpus_spec", {"engine": "raw", "kind": "implementation-vs-spec", "what": bad, "corpus_file": f, "why": r.get("why"),
                                          "files": r["files"], "correct": r["correct"], "observed": obs})
            return
    ctx.stream_stat("corpus", raw_programs=len(raw))
    ctx.cov["traces_validated_against_impl"] += len(raw)
    # tie B
    rng = random.Random(ctx.seed * 1000003 + 18)
    n = ctx.n(12000, 300000)
    first_dirs = []
    for k in range(0, n, 6000):
        plans = [c18gen.gen_plan(rng) for _ in range(min(6000, n - k))]
        ok, _ = stream_chains(ctx, "chains", plans)
        if not ok:
            return
        if k == 0:
            cs = run_plans(plans[:ctx.n(400, 1500)], "dumped")
            first_dirs = [c["dir"] for c in cs]
            ctx.sample({"chain_program": cs[3]["files"], "description": cs[3]["desc"], "observed": cs[3]["result"], "verdicts": cs[3]["verdict"]})
            deep = [c for c in cs if len(c["plan"]["frames"]) >= 5 and c["result"]["stderr"]]
            if deep:
                ctx.sample({"chain_program": deep[0]["files"], "observed": deep[0]["result"], "verdicts": deep[0]["verdict"]})
    # tie A
    files = c12.fixture_files()
    if not stream_lines(ctx, "lines_fixtures", files):
        return
    gen_files = []
    for d in first_dirs:
        gen_files += [os.path.join(d, f) for f in sorted(os.listdir(d)) if f.endswith(".lay")]
    if not stream_lines(ctx, "lines_generated", gen_files):
        return
    # known findings
    for rec in common.load_findings(PROP):
        if rec.get("status") != "known":
            continue
        try:
            still = replay_finding(rec)
        except Exception as e:   # a broken witness must not hide a violation
            common.log("known finding %s: witness could not be replayed: %s" % (rec["id"], e))
            still = False
        if still:
            ctx.known(rec["id"], rec["what"])
        else:
            ctx.cov.setdefault("known_findings_no_longer_failing", []).append(rec["id"])
    ctx.assumptions += [
        "the release build of the harness is used for the chain programs (debug assertions of unrelated subsystems — the temp-root "
        "accounting of natives after an error crossed them — would abort chains; they belong to C05/C16)",
        "C18_saved_ip_line's hypothesis (the saved ip lies inside the suspended / raising instruction incl. its cache slot) is a fact about "
        "the VM's operand decoding; it is sampled by the chain stream (every reported line is compared), not proved",
        "which token's line the compiler attaches to an instruction (compiler/mod.rs) is documented in c18gen.py and sampled (anchor "
        "verdict); the Spec itself only demands a line inside the source span of the call / raise expression",
        "native stub frames print as `native:0 in name()`; lambdas are named after the enclosing `let` (parser let_name) else `lambda`",
        "exit(n): Spec for integral n in 0..65535 (the u16 of LyError::Exit); outside, Rust's saturating cast is documented "
        "(C18_status_saturates); the operating system keeps the low 8 bits of what process::exit receives",
        "errors raised while a module is being imported run on the import fiber: their traceback stops at that module's script frame "
        "(fibers are outside this stream)",
        "an imported module's script frame runs on the import fiber; the stream ends such chains with exit / finish / a failing "
        "import only (an error raised there does not reach the importing frames: fibers are outside this stream)",
        "a failing import: the Spec demands the compile-error status, that nothing after the import ran, and that diagnostics were "
        "written (first stderr line starts with `error`); the text of the diagnostics belongs to C17",
        "the generator avoids no shape: those of the repaired D1, D20, D181–D185 (D181: an unhandled error that passed declining "
        "catch clauses) are generated and judged by the Spec; catch filters are always classes, so the signature of the open finding "
        "D186 (the TypeError of a catch filter that is no subclass of Error lists the abandoned frames) is only replayed, not generated",
    ]


def replay(path):
    r = json.load(open(path))
    common.cargo_build(release=RELEASE)
    common.lake_build(["drv_lines"])
    if r.get("plan"):
        case = verdict_of(r["plan"], "replay")
        print("description:", case["desc"])
        for n, t in case["files"].items():
            print("---- %s" % n)
            print(t)
        print("observed:", json.dumps(case["result"], indent=1))
        print("verdicts (spec, model, anchor):", case["verdict"])
        return 1 if any(v != "ok" for v in case["verdict"]) else 0
    if r.get("PRE"):
        d = os.path.join(WORK, "replay_lines")
        shutil.rmtree(d, ignore_errors=True)
        os.makedirs(d)
        bad = 0
        if r.get("source"):
            f = os.path.join(d, os.path.basename(r.get("file") or "main.lay"))
            open(f, "w").write(r["source"])
            funs, _ = c12.dump_functions([f], harness=harness())
            tables, _, _ = model_table([x["PRE"] for x in funs])
            for x, t in zip(funs, tables):
                m = line_spec_monitor(x)
                if m or t.get("lines") != x.get("LINES") or t.get("ws") != "1" or t.get("wsp") != "1":
                    print("function", x["head"], "spec:", m, "model:", t.get("lines"), "impl:", x.get("LINES"))
                    bad = 1
        return bad
    print("nothing to replay in", path)
    return 0
