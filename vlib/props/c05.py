"""C05 — garbage collection is invisible: no live object is ever freed.  DESIGN.md §5 C05."""
import json
import os

from .. import alloc_stream, common, sched_stream

PROP = "C05"
LEVEL = "proof"


def run(ctx):
    proved = ctx.prove("LaytheVerif.Props.C05")
    ok_c, out_c = common.cargo_build()
    ok_a, out_a = common.cargo_build(bin="vh_alloc")
    if not (ok_c and ok_a):
        ctx.violation("harness_build", {"kind": "harness-build-failed", "broken": "cargo build of /verif/harness against /repo",
                                        "output": (out_c + out_a)[-3000:]}, no_input=True)
        return
    ctx.cov["rule"] = ("(a) random mutator/collector histories against the real Allocator (boxes, tuples, interned strings, plain-heap objects; "
                       "roots, temp roots, schedules every-k, byte thresholds, forced nursery/full) judged by a reachability monitor and replayed "
                       "through the Lean model; (b) generated programs and fixtures run under several collection schedules (every allocation, "
                       "every k-th, seeded coin, never; forced nursery/full) — outcomes must be identical; the generated part includes object-zoo programs (iterator "
                       "pipelines advanced part of the way and held in every kind of container, channels, bound methods, closures: vlib/zoo.py); non-trivial = at least one collection "
                       "happened; distinct by (program, schedule)")
    if not proved:
        what, detail = ctx.broken
        ctx.cov["search"] = "alloc histories x10 + schedule stream"
        ok = alloc_stream.run_stream(ctx, ctx.n(600, 4000), 150, "C05")
        if ok:
            # the schedule stream with a larger budget: generated programs, object-zoo programs, fixtures
            modes = sched_stream.SCHEDULES_THOROUGH
            corpus = os.path.join(common.VERIF, "corpus", "C05")
            cf = sorted(os.path.join(corpus, f) for f in os.listdir(corpus) if f.endswith(".lay")) if os.path.isdir(corpus) else []
            files = cf + sched_stream.write_zoo(ctx, ctx.n(500, 4000), "zoo_search") + sched_stream.write_generated(ctx, ctx.n(200, 3000), "gen_search") \
                + sched_stream.fixture_programs(ctx.n(150, None))
            ok = sched_stream.compare_modes(ctx, "search_schedules", files, modes, steps=ctx.n(150000, 400000))
            if ok and common.cargo_build(nan_boxing=True)[0]:
                nb = cf + sched_stream.write_zoo(ctx, ctx.n(400, 3000), "zoo_search_nb", salt=2)
                ok = sched_stream.compare_modes(ctx, "search_schedules_nan_boxing", nb, ["--gc every:1", "--gc every:3 --full 1", "--gc every:2 --full 0"],
                                                steps=ctx.n(150000, 400000), nan_boxing=True)
            if ok:
                ctx.violation("proof", {"kind": "proof-obligation-failed", "broken": what, "detail": detail}, no_input=True)
            else:
                # name the broken obligation inside the concrete replay
                ctx.cov["broken_obligation"] = what
        return
    if not alloc_stream.run_stream(ctx, ctx.n(120, 3000), ctx.n(120, 300), "C05"):
        return
    modes = sched_stream.SCHEDULES_QUICK if ctx.quick() else sched_stream.SCHEDULES_THOROUGH
    corpus = os.path.join(common.VERIF, "corpus", "C05")
    cf = sorted(os.path.join(corpus, f) for f in os.listdir(corpus) if f.endswith(".lay")) if os.path.isdir(corpus) else []
    files = cf + sched_stream.write_generated(ctx, ctx.n(70, 3000), "gen") + sched_stream.write_zoo(ctx, ctx.n(120, 3000)) \
        + sched_stream.fixture_programs(ctx.n(120, None))
    if not sched_stream.compare_modes(ctx, "schedules", files, modes, steps=ctx.n(150000, 400000)):
        return
    # "in both value representations": the zoo and a part of the generated programs again in the NaN-boxed build
    ok_nb, out_nb = common.cargo_build(nan_boxing=True)
    if not ok_nb:
        ctx.violation("harness_build_nb", {"kind": "harness-build-failed", "broken": "cargo build --features nan_boxing of /verif/harness against /repo",
                                           "output": out_nb[-3000:]}, no_input=True)
        return
    nb_files = cf + sched_stream.write_zoo(ctx, ctx.n(120, 2000), "zoo_nb", salt=1) + files[len(cf):len(cf) + ctx.n(40, 1500)]
    if not sched_stream.compare_modes(ctx, "schedules_nan_boxing", nb_files, ["--gc every:1", "--gc every:3 --full 1"] if ctx.quick() else modes,
                                      steps=ctx.n(150000, 400000), nan_boxing=True):
        return
    ctx.sample({"program": files[len(cf)], "schedules": ["default"] + modes})
    ctx.assumptions += [
        "the allocator model is hand-written from allocator.rs; agreement is checked on the alloc stream",
        "the VM's root set (impl TraceRoot for Vm, Trace for Fiber, compiler roots) and the push_root/pop_roots discipline of the natives are parameters of the model: an omission there is found only by the schedule stream (a dangling Rust pointer is runtime behaviour the model cannot exhibit)",
        "C05_gc_invisible as observational equivalence of two schedules is not proved (needs a bisimulation up to renaming of re-created strings); its safety core C05_no_live_object_freed is",
    ]


def replay(path):
    r = json.load(open(path))
    common.cargo_build()
    if "program" in r and r.get("mode"):
        tmp = os.path.join(common.VERIF, "work", "c05_replay.lay")
        os.makedirs(os.path.dirname(tmp), exist_ok=True)
        open(tmp, "w").write(r["program"])
        a = common.run_batch(["%s --steps 400000 %s" % (r.get("base_mode", "") if r.get("base_mode") != "default" else "", tmp)])[0]
        b = common.run_batch(["%s --steps 400000 %s" % (r["mode"], tmp)])[0]
        print(a["status"], "|", b["status"])
        return 1 if sched_stream.canon(a) != sched_stream.canon(b) else 0
    if "ops" in r:
        common.cargo_build(bin="vh_alloc")
        rc, out, err = common.run_lines([common.harness_path(bin="vh_alloc")], r["ops"])
        for o, x in zip(r["ops"], out):
            print("%-24s %s" % (o, x))
        return 1
    return 0
