"""C05 — garbage collection is invisible: no live object is ever freed.  DESIGN.md §5 C05."""
import json
import os

from .. import alloc_stream, common, sched_stream

PROP = "C05"
LEVEL = "proof"


def dying_classes_program(rng):
    """Classes declared inside functions (each call creates a class that dies with its last instance), with DIFFERENT field
    orders and counts, all read / written / invoked through the same shared sites, with 0-3 padding allocations in between so
    that a new class sooner or later takes the address of a dead one.  Expected output by construction."""
    nf = rng.randint(2, 4)
    lines = ["fn getf(o) { return o.f; }", "fn setg(o, v) { o.g = v; return o.g; }", "fn callh(o) { return o.h(); }"]
    facts = []
    for i in range(nf):
        names = ["f", "g"] + ["x%d" % j for j in range(rng.randint(0, 2))]
        rng.shuffle(names)
        init = " ".join("self.%s = %d;" % (nm, (100 * (i + 1) + 1) if nm == "f" else (100 * (i + 1) + 2 if nm == "g" else 7)) for nm in names)
        lines.append("fn mk%d() { class L%d { init() { %s } h() { return %d; } } return L%d(); }" % (i, i, init, 100 * (i + 1) + 3, i))
        facts.append(i)
    exp = []
    for r in range(rng.randint(6, 16)):
        i = rng.choice(facts)
        for p in range(rng.randint(0, 3)):
            lines.append("let pad%d_%d = \"p${%d}\";" % (r, p, r * 10 + p))
        k = rng.randrange(3)
        if k == 0:
            lines.append("print(getf(mk%d()));" % i)
            exp.append(str(100 * (i + 1) + 1))
        elif k == 1:
            v = rng.randint(0, 99)
            lines.append("print(setg(mk%d(), %d));" % (i, v))
            exp.append(str(v))
        else:
            lines.append("print(callh(mk%d()));" % i)
            exp.append(str(100 * (i + 1) + 3))
        if rng.random() < 0.5:
            lines.append("if true { let junk = nil; for gi in %d.times() { junk = [\"g${gi}\", [gi]]; } }" % rng.randint(1, 6))
    return "\n".join(lines) + "\n", "\n".join(exp) + "\n"


def class_churn_search(ctx, nq=400):
    """classes created and dropped at run time behind shared property / invoke / super sites (the site-history programs
    of C13, expected output known by construction) under full collections at short intervals: a class, method or field
    table that some root no longer keeps alive is freed and its address reused (this is how D16 was found)"""
    import random
    from . import c13
    rng = random.Random(ctx.seed * 577 + 5)
    d = os.path.join(common.VERIF, "work", "c05_churn_%s" % ctx.tier)
    os.makedirs(d, exist_ok=True)
    progs = []
    for k in range(ctx.n(nq, 4000)):
        src, exp = c13.render_sites(c13.site_program(rng)) if k % 2 else dying_classes_program(rng)
        f = os.path.join(d, "s%d.lay" % k)
        open(f, "w").write(src)
        progs.append((f, src, exp))
    for mode in ["--gc every:1 --full 1", "--gc every:2 --full 1", "--gc every:3 --full 1", "--gc every:5 --full 1"]:
        runs = common.run_batch(["%s --steps 400000 %s" % (mode, f) for f, _, _ in progs])
        for (f, src, exp), r in zip(progs, runs):
            ctx.count_case((src, mode), nontrivial=True)
            if r["status"] == "STEPLIMIT":
                continue
            if r["status"] != "Ok:0" or r["stdout"] != exp:
                ctx.cov["impl_vs_spec_failures"] += 1
                ctx.violation("class_churn", {"kind": "implementation-vs-spec",
                                              "what": "a program that creates and drops classes behaves differently (or crashes) under full collections at short intervals",
                                              "mode": mode, "program": src, "expected": exp, "status": r["status"], "stdout": r["stdout"], "stderr": r["stderr"][-600:],
                                              "run": "harness/target/debug/vharness run %s --steps 400000 <program>" % mode})
                return False
        ctx.stream_stat("class_churn_search", programs=len(progs), runs=len(progs))
    return True


def run(ctx):
    proved = ctx.prove("LaytheVerif.Props.C05")
    ok_c, out_c = common.cargo_build()
    ok_a, out_a = common.cargo_build(bin="vh_alloc")
    ok_p, out_p = common.cargo_build(bin="vh_runpoison")
    if not (ok_c and ok_a and ok_p):
        ctx.violation("harness_build", {"kind": "harness-build-failed", "broken": "cargo build of /verif/harness against /repo",
                                        "output": (out_c + out_a + out_p)[-3000:]}, no_input=True)
        return
    ctx.cov["rule"] = ("(a) random mutator/collector histories against the real Allocator (boxes, tuples, interned strings, plain-heap objects; "
                       "roots, temp roots, schedules every-k, byte thresholds, forced nursery/full) judged by a reachability monitor and replayed "
                       "through the Lean model; (b) generated programs and fixtures run under several collection schedules (every allocation, "
                       "every k-th, seeded coin, never; forced nursery/full) — outcomes must be identical; the generated part includes object-zoo programs (iterator "
                       "pipelines advanced part of the way and held in every kind of container, channels, bound methods, closures: vlib/zoo.py); non-trivial = at least one collection "
                       "happened; distinct by (program, schedule)")
    if not proved:
        what, detail = ctx.broken
        ctx.cov["search"] = "alloc histories x10 + schedule stream"
        ok = alloc_stream.run_stream(ctx, ctx.n(600, 4000), 150, "C05")
        if ok:
            # the schedule stream with a larger budget: generated programs, object-zoo programs, fixtures
            modes = sched_stream.SCHEDULES_THOROUGH
            corpus = os.path.join(common.VERIF, "corpus", "C05")
            cf = sorted(os.path.join(corpus, f) for f in os.listdir(corpus) if f.endswith(".lay")) if os.path.isdir(corpus) else []
            files = cf + sched_stream.write_zoo(ctx, ctx.n(500, 4000), "zoo_search") + sched_stream.write_generated(ctx, ctx.n(200, 3000), "gen_search") \
                + sched_stream.fixture_programs(ctx.n(150, None))
            ok = sched_stream.compare_modes(ctx, "search_schedules", files, modes, steps=ctx.n(150000, 400000))
            if ok:
                # the object zoo again under the allocator that poisons released blocks (a use after free reads 0xDD..)
                ok = sched_stream.compare_modes(ctx, "search_schedules_poisoned", cf + sched_stream.write_zoo(ctx, ctx.n(1500, 6000), "zoo_search_p", salt=3),
                                                ["--gc every:1", "--gc every:2 --full 1", "--gc every:3 --full 0"], steps=ctx.n(150000, 400000), bin="vh_runpoison")
            if ok and common.cargo_build(nan_boxing=True)[0]:
                nb = cf + sched_stream.write_zoo(ctx, ctx.n(400, 3000), "zoo_search_nb", salt=2)
                ok = sched_stream.compare_modes(ctx, "search_schedules_nan_boxing", nb, ["--gc every:1", "--gc every:3 --full 1", "--gc every:2 --full 0"],
                                                steps=ctx.n(150000, 400000), nan_boxing=True)
            if ok:
                ok = class_churn_search(ctx)
            if ok:
                ctx.violation("proof", {"kind": "proof-obligation-failed", "broken": what, "detail": detail}, no_input=True)
            else:
                # name the broken obligation inside the concrete replay
                ctx.cov["broken_obligation"] = what
        return
    if not alloc_stream.run_stream(ctx, ctx.n(120, 3000), ctx.n(120, 300), "C05"):
        return
    modes = sched_stream.SCHEDULES_QUICK if ctx.quick() else sched_stream.SCHEDULES_THOROUGH
    corpus = os.path.join(common.VERIF, "corpus", "C05")
    cf = sorted(os.path.join(corpus, f) for f in os.listdir(corpus) if f.endswith(".lay")) if os.path.isdir(corpus) else []
    files = cf + sched_stream.write_generated(ctx, ctx.n(70, 3000), "gen") + sched_stream.write_zoo(ctx, ctx.n(120, 3000)) \
        + sched_stream.fixture_programs(ctx.n(120, None))
    if not sched_stream.compare_modes(ctx, "schedules", files, modes, steps=ctx.n(150000, 400000)):
        return
    # released memory usually still looks valid: the zoo and the corpus again under an allocator that poisons every released block
    if not sched_stream.compare_modes(ctx, "schedules_poisoned", cf + sched_stream.write_zoo(ctx, ctx.n(400, 4000), "zoo_p", salt=4),
                                      ["--gc every:1", "--gc every:2 --full 1"], steps=ctx.n(150000, 400000), bin="vh_runpoison"):
        return
    # "in both value representations": the zoo and a part of the generated programs again in the NaN-boxed build
    ok_nb, out_nb = common.cargo_build(nan_boxing=True)
    if not ok_nb:
        ctx.violation("harness_build_nb", {"kind": "harness-build-failed", "broken": "cargo build --features nan_boxing of /verif/harness against /repo",
                                           "output": out_nb[-3000:]}, no_input=True)
        return
    nb_files = cf + sched_stream.write_zoo(ctx, ctx.n(120, 2000), "zoo_nb", salt=1) + files[len(cf):len(cf) + ctx.n(40, 1500)]
    if not sched_stream.compare_modes(ctx, "schedules_nan_boxing", nb_files, ["--gc every:1", "--gc every:3 --full 1"] if ctx.quick() else modes,
                                      steps=ctx.n(150000, 400000), nan_boxing=True):
        return
    if not class_churn_search(ctx, nq=120):
        return
    ctx.sample({"program": files[len(cf)], "schedules": ["default"] + modes})
    ctx.assumptions += [
        "the allocator model is hand-written from allocator.rs; agreement is checked on the alloc stream",
        "the VM's root set (impl TraceRoot for Vm, Trace for Fiber, compiler roots) and the push_root/pop_roots discipline of the natives are parameters of the model: an omission there is found only by the schedule stream (a dangling Rust pointer is runtime behaviour the model cannot exhibit)",
        "C05_gc_invisible as observational equivalence of two schedules is not proved (needs a bisimulation up to renaming of re-created strings); its safety core C05_no_live_object_freed is",
    ]


def replay(path):
    r = json.load(open(path))
    common.cargo_build()
    if "program" in r and r.get("mode"):
        tmp = os.path.join(common.VERIF, "work", "c05_replay.lay")
        os.makedirs(os.path.dirname(tmp), exist_ok=True)
        open(tmp, "w").write(r["program"])
        runner = r.get("runner", "vharness")
        nb = bool(r.get("nan_boxing"))
        common.cargo_build(bin=runner, nan_boxing=nb)
        a = common.run_batch(["%s --steps 400000 %s" % (r.get("base_mode", "") if r.get("base_mode") != "default" else "", tmp)], bin=runner, nan_boxing=nb)[0]
        b = common.run_batch(["%s --steps 400000 %s" % (r["mode"], tmp)], bin=runner, nan_boxing=nb)[0]
        print(a["status"], "|", b["status"])
        return 1 if sched_stream.canon(a) != sched_stream.canon(b) else 0
    if "ops" in r:
        common.cargo_build(bin="vh_alloc")
        rc, out, err = common.run_lines([common.harness_path(bin="vh_alloc")], r["ops"])
        for o, x in zip(r["ops"], out):
            print("%-24s %s" % (o, x))
        return 1
    return 0
