"""C06 — emitted bytecode respects the stack contract the unchecked VM relies on.  DESIGN.md §5 C06.

Streams (all judged by the verified verifier `Model/Verifier.lean`, whose depths come from `vmEffect`, written from vm/ops.rs,
independently of the compiler's own `stack_effect` table):
  corpus, fixtures, directed (c06gen: every variant of the regenerated instruction set in front of a handler / the depth peak /
  a join / a back edge; class bodies with `super.m(args)`, `super.m()`, static methods, fields, local classes, closures in
  methods, imports/exports), generated (gen_programs), probe (executed depths vs certificate), jump_boundary (encoder limits).
Ties: encode (model encoder vs CODE bytes), probe (vmEffect vs interpreter), capacity (max_slots of a fully reachable function
  = the model's peak; continues to a concrete search), table coverage (`table_coverage` in the evidence: which variants of the
  table occurred in verified functions, and in front of what; a variant no function contains in front of a handler fails the run).
[G] `C06_stackEffect_eq_vmEffect` / `C06_stackEffect_eq_modelDelta`: the regenerated table equals the model, row by row.  When
  it re-opens, `search` asks the driver which rows differ (`!effectdiff` = `EffectRows.differingRows`) and the directed generator
  draws its segments around those instructions first; the replay names the rows, how often they stood in front of a handler,
  and says LOUDly when a differing row was never generated.
C06_NO_CORPUS=1 leaves corpus/C06 out (to show that a stream, not the stored regression input, finds a defect)."""
import json
import os
import random

import re
import time

from .. import common, dumps, gen_programs
from . import c06gen

PROP = "C06"
LEVEL = "proof"
LONG = 6000      # functions longer than this (limit fixtures) are skipped by the list-based verifier


def write_programs(ctx, n, label, opts=None):
    d = os.path.join(common.VERIF, "work", "c06_%s_%s" % (label, ctx.tier))
    os.makedirs(d, exist_ok=True)
    files = []
    for k in range(n):
        src = gen_programs.gen_program(ctx.seed * 1000003 + k, opts)
        f = os.path.join(d, "p%d.lay" % k)
        with open(f, "w") as fh:
            fh.write(src)
        files.append(f)
    return files


def write_directed(ctx, n, label, focus=None, seed_salt=0):
    """programs of the directed generator (c06gen): every variant of the regenerated instruction set in front of an observer"""
    d = os.path.join(common.VERIF, "work", "c06_%s_%s" % (label, ctx.tier))
    os.makedirs(d, exist_ok=True)
    files = []
    variants = table_variants()
    for k in range(n):
        src, _ = c06gen.gen_program(ctx.seed * 1000003 + 7919 * seed_salt + k, focus, variants or None)
        f = os.path.join(d, "d%d.lay" % k)
        with open(f, "w") as fh:
            fh.write(src)
        files.append(f)
    return files


_VARIANTS = []


def table_variants():
    """the variants of the regenerated `SymbolicByteCode` (Gen.symNames), from the driver"""
    if not _VARIANTS:
        rc, out, err = common.run_lines([common.DRIVER, "verify"], ["!variants"], timeout=60)
        if out and out[0].startswith("variants "):
            _VARIANTS.extend(out[0].split()[1:])
    return list(_VARIANTS)


def table_diff():
    """rows of the regenerated stack_effect table that differ from the model (EffectRows.differingRows):
    (variant names, raw words `Name:operands:table=<n>:model=<n>`); None when the driver cannot say"""
    if not os.path.exists(common.DRIVER):
        return None
    rc, out, err = common.run_lines([common.DRIVER, "verify"], ["!effectdiff"], timeout=60)
    if not out or not out[0].startswith("effectdiff"):
        return None
    words = out[0].split()[1:]
    return list(dict.fromkeys(w.split(":")[0] for w in words)), words


class TableCoverage:
    """which variants of the table occurred in verified functions, and in front of what"""

    def __init__(self):
        self.funs, self.occ, self.h, self.p = {}, {}, {}, {}
        self.nfun = 0

    def add(self, reply):
        m = re.search(r"cover=(\S*)", reply)
        if not m:
            return
        self.nfun += 1
        for w in m.group(1).split(","):
            if not w:
                continue
            nm, occ, h, p = w.split(":")
            self.funs[nm] = self.funs.get(nm, 0) + 1
            self.occ[nm] = self.occ.get(nm, 0) + int(occ)
            self.h[nm] = self.h.get(nm, 0) + int(h)
            self.p[nm] = self.p.get(nm, 0) + int(p)

    def rejected(self, f):
        """a function the verifier rejected: which variants it contains (no certificate, so no positions)"""
        self.nrej = getattr(self, "nrej", 0) + 1
        self.rej = getattr(self, "rej", {})
        for nm in set(p.strip().split(" ")[0] for p in f.get("POST", "").split(";") if p.strip()):
            self.rej[nm] = self.rej.get(nm, 0) + 1

    def report(self, variants, rows=None):
        variants = variants or sorted(self.funs)
        rep = {
            "variants_in_table": len(variants),
            "verified_functions": self.nfun,
            "seen": sum(1 for v in variants if self.funs.get(v)),
            "seen_before_a_handler": sum(1 for v in variants if self.h.get(v)),
            "seen_before_the_depth_peak": sum(1 for v in variants if self.p.get(v)),
            "never_seen": [v for v in variants if not self.funs.get(v)],
            "never_before_a_handler": [v for v in variants if self.funs.get(v) and not self.h.get(v)],
            "per_variant": {v: {"functions": self.funs.get(v, 0), "occurrences": self.occ.get(v, 0),
                                "functions_with_handler_after": self.h.get(v, 0),
                                "functions_with_peak_after": self.p.get(v, 0),
                                "rejected_functions_containing_it": getattr(self, "rej", {}).get(v, 0)} for v in (rows or variants)},
            "rejected_functions": getattr(self, "nrej", 0),
        }
        return rep


COVER = TableCoverage()
# never reaches apply_stack_effects: the peephole pass deletes it (it only separates call arguments for the pass itself)
NOT_IN_EMITTED_CODE = ["ArgumentDelimiter"]


def verify_funs(funs, probes=None):
    """Run the Lean verifier over dump records. Returns list of (fun, reply)."""
    todo = [f for f in funs if f.get("POST", "").count(";") < LONG and dumps.head_info(f)]
    reqs = [dumps.verify_request(f, (probes or {}).get(id(f), "")) for f in todo]
    # the engine is a pure function of the request line: shard the requests over a few driver processes
    n = max(1, min(8, common.NCPU // 2, len(reqs) // 200))
    if n == 1:
        rc, out, err = common.run_lines([common.DRIVER, "verify"], reqs, timeout=1200)
        out = out + ["fail driver-died"] * (len(reqs) - len(out))
    else:
        import concurrent.futures
        shards = [reqs[k::n] for k in range(n)]
        with concurrent.futures.ThreadPoolExecutor(max_workers=n) as ex:
            outs = list(ex.map(lambda sh: common.run_lines([common.DRIVER, "verify"], sh, timeout=1200)[1], shards))
        out = [None] * len(reqs)
        for k, o in enumerate(outs):
            o = o + ["fail driver-died"] * (len(shards[k]) - len(o))
            for j, line in enumerate(o[:len(shards[k])]):
                out[k + j * n] = line
    return list(zip(todo, out)), len(funs) - len(todo)


def block_end(lines, i):
    """index of the line that closes the brace-balanced construct opened on line i (catch/else continuations included)"""
    depth, j = 0, i
    while j < len(lines):
        depth += lines[j].count("{") - lines[j].count("}")
        if depth < 0:
            return None
        if depth == 0 and j >= i and not re.match(r"\s*\}\s*(catch|else)\b.*\{\s*$", lines[j]):
            return j
        j += 1
    return None


def shrink_program(src, still_fails, budget_s=240):
    """Delta debugging that keeps the program compiling to a failing function: whole brace-balanced constructs (a class, a
    function, a try with its catch clauses, a loop), outermost first, then lines in halving chunks; repeated until neither
    pass removes anything (a function can go only after the lines that call it)."""
    lines = src.split("\n")
    t0 = time.time()

    def blocks():
        nonlocal lines
        removed = False
        i = 0
        while i < len(lines) and time.time() - t0 < budget_s:
            if lines[i].count("{") > lines[i].count("}") and not lines[i].lstrip().startswith("}"):
                j = block_end(lines, i)
                if j is not None and j > i:
                    cand = lines[:i] + lines[j + 1:]
                    if cand and still_fails("\n".join(cand)):
                        lines = cand
                        removed = True
                        continue
            i += 1
        return removed

    def chunks():
        nonlocal lines
        removed = False
        chunk = max(1, len(lines) // 2)
        while chunk >= 1 and time.time() - t0 < budget_s:
            i = 0
            while i < len(lines):
                cand = lines[:i] + lines[i + chunk:]
                if cand and still_fails("\n".join(cand)):
                    lines = cand
                    removed = True
                else:
                    i += chunk
            chunk //= 2
        return removed

    rounds = 0
    while rounds < 8 and time.time() - t0 < budget_s:
        rounds += 1
        a = blocks()
        b = chunks()
        if not a and not b:
            break
    return "\n".join(lines)


def program_fails_verifier(src, tmp, detail=None):
    """the compiler panics on the program, or ACCEPTS it (a rejected program is outside the property, although the hook logs
    the functions compiled before the diagnostic) and the verifier rejects one of its functions"""
    with open(tmp, "w") as fh:
        fh.write(src)
    funs, stats = dumps.dump_functions([tmp])
    if any(st.startswith("PANIC") for _, st in stats):
        if detail is not None:
            detail.update(function=None, reply="compiler panic: " + [st for _, st in stats if st.startswith("PANIC")][0][:300], post="")
        return True
    if not all(st.startswith("Ok") for _, st in stats):
        return False
    res, _ = verify_funs(funs)
    for f, r in res:
        if not r.startswith("ok"):
            if detail is not None:
                detail.update(function=f.get("head"), reply=r, post=f.get("POST", "")[:4000])
            return True
    return False


def report_bad(ctx, label, f, reply, kind="implementation-vs-spec"):
    src = open(f["file"]).read() if f.get("file") and os.path.exists(f["file"]) else ""
    tmp = os.path.join(common.VERIF, "work", "c06_shrink_%d.lay" % os.getpid())
    small = src
    det = {}
    if src and len(src) < 60000 and program_fails_verifier(src, tmp):
        try:
            small = shrink_program(src, lambda s: program_fails_verifier(s, tmp))
            program_fails_verifier(small, tmp, det)
        except Exception:
            small = src
    ctx.cov["impl_vs_spec_failures"] += 1
    # the function and the verifier's words are those of the shrunk program when shrinking was possible
    ctx.violation(label, {"engine": "verify", "kind": kind,
                          "what": "the verified bytecode verifier rejects a function the compiler emitted: " + (det.get("reply") or reply),
                          "file": f.get("file"), "function": det.get("function") or f.get("head"), "program": small,
                          "post": det.get("post") or f.get("POST", "")[:4000], "seed": ctx.seed,
                          "in_the_generated_program": {"function": f.get("head"), "verifier": reply}})


def dump_sharded(files, timeout=1200):
    """dumps.dump_functions over strided slices in parallel harness processes; records come back in the order of `files`
    (the few very long limit fixtures sit next to each other: striding spreads them)"""
    n = max(1, min(6, common.NCPU // 2, len(files) // 40))
    if n == 1 or len(set(files)) != len(files):
        return dumps.dump_functions(files, timeout=timeout)
    import concurrent.futures
    parts = [files[k::n] for k in range(n)]
    with concurrent.futures.ThreadPoolExecutor(max_workers=n) as ex:
        outs = list(ex.map(lambda p: dumps.dump_functions(p, timeout=timeout), parts))
    byfile, stat = {}, {}
    for fs, st in outs:
        for f in fs:
            byfile.setdefault(f["file"], []).append(f)
        for fl, x in st:
            stat[fl] = x
    funs, stats = [], []
    for fl in files:
        funs += byfile.get(fl, [])
        if fl in stat:
            stats.append((fl, stat[fl]))
    return funs, stats


def check_dump(ctx, label, files, nontrivial_rule=None):
    funs, stats = dump_sharded(files)
    panics = [(fl, st) for fl, st in stats if st.startswith("PANIC")]
    ctx.stream_stat(label, files=len(files), functions=len(funs), compile_panics=len(panics),
                    compile_errors=sum(1 for _, st in stats if st.startswith("CompileError")))
    if panics:
        fl, st = panics[0]
        src = open(fl).read()
        tmp = os.path.join(common.VERIF, "work", "c06_shrink_%d.lay" % os.getpid())
        small = shrink_program(src, lambda s: program_fails_verifier(s, tmp)) if len(src) < 20000 else src
        ctx.cov["impl_vs_spec_failures"] += 1
        ctx.violation(label + "_compile_panic", {"engine": "dump", "kind": "implementation-vs-spec",
                                                 "what": "the compiler panicked: " + st, "file": fl, "program": small})
        return None
    res, skipped = verify_funs(funs)
    ctx.stream_stat(label, skipped_long=skipped)
    if not check_encode(ctx, label, funs):
        return None
    nh = 0
    slack = {}
    loose = None
    for f, r in res:
        has_handler = "PushHandler" in f.get("POST", "")
        nh += has_handler
        ctx.count_case(f.get("POST", ""), nontrivial=("Jump" in f.get("POST", "") or has_handler))
        if not r.startswith("ok"):
            report_bad(ctx, label + "_verifier", f, r)
            return None
        COVER.add(r)
        m = re.search(r"maxdepth=(\d+) capacity=(\d+)", r)
        if m and " allreach=1" in r:
            k = int(m.group(2)) - int(m.group(1))
            slack[k] = slack.get(k, 0) + 1
            if k != 1 and loose is None:
                loose = (f, r)
    ctx.stream_stat(label, functions_with_handlers=nh, **{"capacity_minus_peak_%d" % k: v for k, v in slack.items()})
    if loose is not None:
        check_capacity_tie(ctx, label, *loose)
    return funs


def check_capacity_tie(ctx, label, f, r):
    """The capacity tie: in a function whose every instruction the certificate reaches, the compiler's simulation and the
    model walk the same instructions, so `max_slots` must be the model's peak exactly (capacity = peak + 1: `max_slots` counts
    slot 0, which `push_frame` reserves again).  A different value is a simulation that counts differently from the VM although
    no clause of the contract fails in this function (an over-estimate only wastes a slot here): model-vs-implementation.
    The streams continue after it (and `run` ends with the search) so that a concrete failing input is reported when there
    is one; `Ctx.finish` then folds this record into that replay."""
    ctx.cov["model_vs_impl_disagreements"] += 1
    if getattr(ctx, "capacity_tie_broken", False):
        return False       # reported once; the streams go on looking for a concrete failing input
    ctx.capacity_tie_broken = True
    src = open(f["file"]).read() if f.get("file") and os.path.exists(f["file"]) else ""
    ctx.violation(label + "_capacity_tie", {"engine": "verify", "kind": "model-vs-implementation",
                                            "broken": "capacity tie: max_slots of a fully reachable function differs from the model's depth peak "
                                                      "(apply_stack_effects / stack_effect vs vmEffect)",
                                            "what": r.split(" cover=")[0], "file": f.get("file"), "function": f.get("head"),
                                            "post": f.get("POST", "")[:4000], "program": src}, no_input=True)
    return False


def check_encode(ctx, label, funs):
    """The encode tie: the model's encoding of the POST instructions equals the real CODE bytes
    (cache-slot ids masked), so offsets, lengths, opcode numbering and jump operands agree."""
    todo = [f for f in funs if f.get("POST", "").count(";") < LONG and f.get("CODE") is not None]
    rc, out, err = common.run_lines([common.DRIVER, "encode"], [f["POST"] for f in todo], timeout=1200)
    n = 0
    for f, o in zip(todo, out):
        code = f["CODE"].strip()
        same = len(o) == len(code) and all(a == b or a == "?" for a, b in zip(o, code))
        n += 1
        if not same:
            ctx.cov["model_vs_impl_disagreements"] += 1
            ctx.violation(label + "_encode_tie", {"engine": "encode", "kind": "model-vs-implementation",
                                                  "broken": "encode tie: Model/Encode.lean (generated tables) vs ByteCodeEncoder::encode",
                                                  "function": f["head"], "file": f.get("file"), "post": f["POST"][:3000],
                                                  "model": o[:3000], "impl": code[:3000],
                                                  "program": open(f["file"]).read() if f.get("file") and os.path.exists(f["file"]) else ""},
                          no_input=True)
            return False
    ctx.stream_stat(label, encode_checked=n)
    return True


def check_probe(ctx, label, files):
    """Run programs with the per-instruction probe and compare every executed (offset, depth,
    handlers) with the certificate: the tie between `vmEffect` and the real interpreter."""
    reqs = ["--probe --steps 300000 " + f for f in files]
    runs = common.run_batch(reqs)
    funs, _ = dumps.dump_functions(files)
    by_code = {}
    for f in funs:
        # two functions of one file can share their bytes and differ in arity (|p| x and || x): the key
        # includes what the probe reports about the function header
        h = dumps.head_info(f)
        by_code.setdefault((f["file"], f.get("CODE", ""), h["arity"] if h else None, h["max_slots"] if h else None), f)
    todo, probes = [], {}
    npoints = 0
    statuses = {}
    for r in runs:
        st = r["status"].split(":")[0]
        statuses[st] = statuses.get(st, 0) + 1
        if st in ("CRASH", "PANIC"):
            src = open(r["file"]).read()
            ctx.cov["impl_vs_spec_failures"] += 1
            ctx.violation(label + "_crash", {"kind": "implementation-vs-spec", "what": "host crash while running an accepted program: " + r["status"][:300],
                                             "file": r["file"], "program": src, "run": "vharness run --probe --steps 300000 <program>"})
            return False
        for pf in r.get("probe", []) or []:
            f = by_code.get((r["file"], pf["code"], pf.get("arity"), pf.get("max_slots")))
            if f is None:
                continue       # a standard-library or stub function
            pts = " ".join("%d,%d,%d" % tuple(p) for p in pf["points"])
            npoints += len(pf["points"])
            probes[id(f)] = pts
            todo.append(f)
            if pf["min_left"] < 0:
                ctx.violation(label + "_overflow", {"kind": "implementation-vs-spec", "what": "operand stack ran past its reserved capacity at run time",
                                                    "file": r["file"], "function": pf["name"], "program": open(r["file"]).read()})
                return False
    ctx.stream_stat(label, programs=len(files), probed_functions=len(todo), probe_points=npoints, **{"status_" + k: v for k, v in statuses.items()})
    res, _ = verify_funs(todo, probes)
    for f, r in res:
        if r.startswith("probe-mismatch"):
            # the certificate is what the compiler's own simulation says (stack_effect = vmEffect is a [G] lemma): an
            # executed depth that differs from it is the interpreter leaving the stack contract on this very program -
            # a concrete input (D61: `launch` of a class without init left its result), not only a broken tie
            ctx.cov["impl_vs_spec_failures"] += 1
            ctx.violation(label + "_tie", {"engine": "verify", "kind": "implementation-vs-spec",
                                           "broken": "probe tie: executed (offset, depth, handlers) differs from the certificate (vmEffect vs vm/ops.rs)",
                                           "what": "the interpreter's operand stack depth differs from the depth the compiler's simulation assigns to the same offset "
                                                   "(offset:executed depth/handlers != certified depth/handlers): " + r,
                                           "file": f["file"], "function": f["head"], "program": open(f["file"]).read()})
            return False
        if not r.startswith("ok"):
            report_bad(ctx, label + "_verifier", f, r)
            return False
    ctx.cov["traces_validated_against_impl"] += len(todo)
    return True


def boundary_programs(ctx):
    """functions whose jump distances sit in a window around the 16-bit limit of the encoder: per kind of jump
    (Loop of a while, JumpIfFalse of an if, Jump over an else, PushHandler of a try, CheckHandler of a catch clause)
    bodies of n two-byte statements plus 0/1 three-byte statement, so that every distance in the window occurs"""
    d = os.path.join(common.VERIF, "work", "c06_boundary_%s" % ctx.tier)
    os.makedirs(d, exist_ok=True)
    files = []
    shapes = {
        "while": "fn f(c) { let n = 0; while c { %s n = n + 1; if n > 2 { c = false; } } return n; }\n",
        "if": "fn f(c) { if c { %s } return 1; }\n",
        "ifelse": "fn f(c) { if c { %s } else { c; } return 1; }\n",
        "else": "fn f(c) { if c { c; } else { %s } return 1; }\n",
        "try": "fn f(c) { try { %s } catch e: Error { return 2; } return 1; }\n",
        "catch": "fn f(c) { try { c; } catch e: TypeError { %s } catch e2: Error { return 2; } return 1; }\n",
        "for": "fn f(c) { for x in [1, 2] { %s } return 1; }\n",
    }
    step = 1 if not ctx.quick() else 2
    for kind, tpl in shapes.items():
        for n in range(32748, 32772, step):
            for odd in (0, 1):
                body = "nil; " * n + ("c; " if odd else "")
                f = os.path.join(d, "%s_%d_%d.lay" % (kind, n, odd))
                with open(f, "w") as fh:
                    fh.write(tpl % body + "print(1);\n")
                files.append(f)
    return files


def check_boundary(ctx, label="jump_boundary"):
    """The functions of `boundary_programs` that the compiler accepts go through the encode tie (they are too long for the
    list-based verifier): the model encoder refuses a distance it cannot express, so an accepted function whose jump
    does not fit its operand shows as a difference; rejected ones must be rejected with the jump diagnostic, not a crash."""
    files = boundary_programs(ctx)
    funs, stats = dumps.dump_functions(files, timeout=2400)
    acc = [f for f in funs if 'name="f"' in f["head"] and f.get("CODE") is not None]
    crashed = [(fl, st) for fl, st in stats if st.startswith(("PANIC", "CRASH"))]
    if crashed:
        ctx.cov["impl_vs_spec_failures"] += 1
        ctx.violation(label + "_crash", {"kind": "implementation-vs-spec", "what": "the compiler crashed on a function at the jump-distance limit: " + crashed[0][1][:200],
                                         "file": crashed[0][0], "program": open(crashed[0][0]).read()[:300] + " ... (generated: see file name kind_n_odd)"})
        return False
    rc, out, err = common.run_lines([common.DRIVER, "encode"], [f["POST"] for f in acc], timeout=2400)
    for f, o in zip(acc, out):
        code = f["CODE"].strip()
        same = len(o) == len(code) and all(a == b or a == "?" for a, b in zip(o, code))
        ctx.count_case(("boundary", f["file"]), nontrivial=True)
        if not same:
            ctx.cov["impl_vs_spec_failures"] += 1
            ctx.violation(label + "_spec", {"engine": "encode", "kind": "implementation-vs-spec",
                                            "what": "the compiler accepted a function whose jump distance the 16-bit operand cannot express (or encoded it differently "
                                                    "from the model encoder): the emitted jump does not land on its label",
                                            "file": f["file"], "function": f["head"], "model": o[:200], "impl_code_prefix": code[:200],
                                            "program": "generated by c06.boundary_programs: " + os.path.basename(f["file"]) + " (kind_n_odd: n two-byte statements `nil;` plus `odd` three-byte statement `c;` in the body)"})
            return False
    ctx.stream_stat(label, programs=len(files), accepted=len(acc), rejected=len(files) - len(acc))
    return True


def search_files(files, cover=None):
    """first program of `files` the compiler panics on or whose emitted code the verified verifier rejects"""
    funs, stats = dumps.dump_functions(files)
    for fl, st in stats:
        if st.startswith("PANIC"):
            src = open(fl).read()
            tmp = os.path.join(common.VERIF, "work", "c06_shrink_%d.lay" % os.getpid())
            small = shrink_program(src, lambda s: program_fails_verifier(s, tmp)) if program_fails_verifier(src, tmp) else src
            return {"kind": "implementation-vs-spec", "what": "the compiler panicked: " + st, "file": fl,
                    "program": small, "found_by": "search"}
    res, _ = verify_funs(funs)
    okfile = {fl for fl, st in stats if st.startswith("Ok")}
    bad, nbad = None, 0
    for f, r in res:
        if r.startswith("ok"):
            if cover is not None:
                cover.add(r)
        else:
            nbad += 1
            if cover is not None:
                cover.rejected(f)
            # prefer a program the compiler accepts as a whole (the property speaks about accepted programs)
            if bad is None or (bad[0]["file"] not in okfile and f["file"] in okfile):
                bad = (f, r)
    if bad is None:
        return None
    f, r = bad
    src = open(f["file"]).read()
    tmp = os.path.join(common.VERIF, "work", "c06_shrink_%d.lay" % os.getpid())
    small, det = src, {}
    if program_fails_verifier(src, tmp):
        small = shrink_program(src, lambda s: program_fails_verifier(s, tmp))
        program_fails_verifier(small, tmp, det)
    return {"kind": "implementation-vs-spec",
            "what": "the verified bytecode verifier rejects a function the compiler emitted: " + (det.get("reply") or r),
            "file": f["file"], "function": det.get("function") or f["head"], "post": det.get("post") or f.get("POST", "")[:4000],
            "program": small, "found_by": "search", "functions_rejected_in_this_stage": nbad,
            "in_the_generated_program": {"function": f["head"], "verifier": r}}


def search(ctx):
    """A broken obligation: look for a program whose emitted code the verifier rejects.  Returns (found or None, report).
    When the regenerated stack_effect table differs from the model, the rows that differ are computed by the driver
    (`EffectRows.differingRows`) and the directed generator draws its segments around those instructions first; the
    report says, per differing row, in how many generated functions the instruction stood in front of a handler / of the
    depth peak - a row the search never generated is named (`rows_never_generated`), not passed over in silence."""
    report = {}
    cov = TableCoverage()
    diff = table_diff()
    focus = None
    if diff is None:
        report["table_rows_differing"] = "unknown: the driver could not be asked (it did not build)"
    else:
        focus, words = diff
        report["table_rows_differing"] = words
    corpus = os.path.join(common.VERIF, "corpus", "C06")
    if os.path.isdir(corpus) and not os.environ.get("C06_NO_CORPUS"):
        cf = sorted(os.path.join(corpus, f) for f in os.listdir(corpus) if f.endswith(".lay"))
        found = search_files(cf, cov) if cf else None
        if found:
            found["found_by"] = "search: corpus"
            return found, report
    stages = []
    if focus:
        stages.append(("search: directed generator focused on the differing rows " + ", ".join(focus),
                       lambda: write_directed(ctx, 150, "search_focus", focus, seed_salt=1)))
    stages.append(("search: directed generator, all rows", lambda: write_directed(ctx, 300, "search_directed", None, seed_salt=2)))
    stages.append(("search: program generator", lambda: write_programs(ctx, 2000, "search")))
    found = None
    for name, mk in stages:
        found = search_files(mk(), cov)
        if found:
            found["found_by"] = name
            break
    variants = table_variants()
    rep = cov.report(variants, rows=focus or None)
    report["search_coverage"] = {k: rep[k] for k in ("variants_in_table", "verified_functions", "rejected_functions", "seen", "seen_before_a_handler",
                                                     "seen_before_the_depth_peak", "never_seen", "never_before_a_handler")}
    if focus:
        report["differing_rows_in_verified_functions"] = rep["per_variant"]
        gone = [v for v in focus if v in NOT_IN_EMITTED_CODE]
        if gone:
            report["rows_not_in_emitted_code"] = ("%s: deleted by the peephole pass before apply_stack_effects runs, so no program can show "
                                                  "the edited row; the [G] lemma is its only detector" % ", ".join(gone))
        never = [v for v in focus if not cov.funs.get(v) and not getattr(cov, "rej", {}).get(v) and v not in NOT_IN_EMITTED_CODE]
        if never and not found:
            report["rows_never_generated"] = never
            report["LOUD"] = ("the search generated NO function containing %s although its table row differs from the model: "
                              "the generator has no snippet that makes the compiler emit it (vlib/props/c06gen.py SNIPPETS)" % ", ".join(never))
    return found, report


def check_table_coverage(ctx):
    """The coverage figure of the streams over the regenerated table: every variant must have occurred in a verified
    function in front of a handler (the position in which a wrong row is rejected), except the ones that never reach the
    emitted code.  A variant the streams never produced is a hole in the generator, reported as a broken stream."""
    variants = table_variants()
    rep = COVER.report(variants)
    rep["not_in_emitted_code"] = [v for v in NOT_IN_EMITTED_CODE if v in variants]
    ctx.cov["table_coverage"] = rep
    holes = [v for v in variants if not COVER.h.get(v) and v not in NOT_IN_EMITTED_CODE]
    stale = [v for v in NOT_IN_EMITTED_CODE if COVER.funs.get(v)]
    if not variants or holes or stale:
        ctx.cov["model_vs_impl_disagreements"] += 1
        ctx.violation("table_coverage", {"kind": "generator-coverage", "broken": "directed stream: coverage of the regenerated stack_effect table",
                                         "what": "variants of SymbolicByteCode that no verified function of this run contains in front of a handler "
                                                 "(add a snippet to vlib/props/c06gen.py): %s; listed as never emitted but seen: %s" % (holes, stale),
                                         "coverage": {k: v for k, v in rep.items() if k != "per_variant"}}, no_input=True)
        return False
    return True


def run(ctx):
    t_run = time.time()
    stage = {}
    ctx.cov["stage_wall_s"] = stage

    def lap(name):
        nonlocal t_run
        stage[name] = round(time.time() - t_run, 1)
        t_run = time.time()
    proved = ctx.prove("LaytheVerif.Props.C06")
    lap("prove")
    ok_c, out_c = common.cargo_build()
    lap("cargo_build")
    if not ok_c:
        ctx.violation("harness_build", {"kind": "harness-build-failed", "broken": "cargo build of /verif/harness against /repo",
                                        "output": out_c[-3000:]}, no_input=True)
        return
    ctx.cov["rule"] = ("every function the compiler emits for the fixture corpus, for generated programs (typed, scope-correct, "
                       "loops/break/continue/try/ternary/closures/classes/sends) and for the directed stream (every variant of the regenerated "
                       "stack_effect table in front of a handler, the depth peak, a join, a back edge; table_coverage) is checked by the verified verifier (translation validation "
                       "with a validator whose soundness is a theorem); executed (offset, depth, handlers) points from the interpreter probe are "
                       "compared with the certificate; non-trivial = function with a jump or a handler; distinct by instruction text")
    global COVER
    COVER = TableCoverage()
    if not proved:
        what, detail = ctx.broken
        found, report = search(ctx)
        ctx.cov["search"] = report
        if not found and not check_boundary(ctx):
            return
        if found:
            found["broken_obligation"] = what
            found["detail"] = detail[-1500:]
            found["search"] = report
            ctx.violation("spec", found)
        else:
            ctx.violation("proof", {"kind": "proof-obligation-failed", "broken": what, "detail": detail, "search": report}, no_input=True)
        return
    corpus = os.path.join(common.VERIF, "corpus", "C06")
    use_corpus = os.path.isdir(corpus) and not os.environ.get("C06_NO_CORPUS")
    if use_corpus:
        cf = sorted(os.path.join(corpus, f) for f in os.listdir(corpus) if f.endswith(".lay"))
        if cf and check_dump(ctx, "corpus", cf) is None:
            return
    if check_dump(ctx, "fixtures", dumps.fixture_files()) is None:
        return
    lap("corpus_fixtures")
    # the directed stream: every variant of the regenerated table in front of a handler / the depth peak / a join
    dfiles = write_directed(ctx, ctx.n(160, 4000), "directed")
    dfuns = check_dump(ctx, "directed", dfiles)
    if dfuns is None:
        return
    lap("directed")
    files = write_programs(ctx, ctx.n(450, 20000), "gen")
    funs = check_dump(ctx, "generated", files)
    if funs is None:
        return
    lap("generated")
    if funs:
        ctx.sample({"function": funs[-1]["head"], "post": funs[-1].get("POST", "")[:300]})
    if dfuns:
        ctx.sample({"stream": "directed", "function": dfuns[-1]["head"], "post": dfuns[-1].get("POST", "")[:300]})
    if not check_table_coverage(ctx):
        return
    cf = []
    if use_corpus:
        cf = sorted(os.path.join(corpus, f) for f in os.listdir(corpus) if f.endswith(".lay"))
    fx = [f for f in dumps.fixture_files() if "/language/" in f and "native_stack_overvflow" not in f]
    # fixtures for the probe: round-robin over the fixture directories, so that the quick tier sees every language area
    # (the first 150 in path order never reached launch/: D61 was found by the thorough tier only)
    bydir = {}
    for f in fx:
        bydir.setdefault(os.path.dirname(f), []).append(f)
    fxr = []
    k = 0
    while len(fxr) < len(fx):
        for dname in sorted(bydir):
            if k < len(bydir[dname]):
                fxr.append(bydir[dname][k])
        k += 1
    if not check_probe(ctx, "probe", cf + dfiles[:ctx.n(160, 2000)] + files[:ctx.n(220, 5000)] + fxr[:ctx.n(260, len(fxr))]):
        return
    lap("probe")
    if not check_boundary(ctx):
        return
    lap("jump_boundary")
    if getattr(ctx, "capacity_tie_broken", False) and not any(not suffix for _, suffix in ctx.violations):
        # a broken tie and no concrete input from the regular streams: the search (bigger budget, Spec-judged)
        found, report = search(ctx)
        ctx.cov["search"] = report
        if found:
            found["search"] = report
            ctx.violation("spec", found)
        lap("search_after_tie")
    ctx.assumptions += [
        "vmEffect (pops, pushes per instruction) is hand-written from vm/ops.rs; it is tied to the interpreter by the probe stream (every executed offset's depth and handler count must equal the certificate), not proved from the Rust",
        "the verifier runs on the symbolic post-optimisation instruction list recorded by the compile hook; byte-level encoding is covered by the encode tie",
        "cache slot ids (PropertySlot/InvokeSlot) are not range-checked here (they are module-wide; see C19/C13)",
        "functions longer than %d instructions (two limit fixtures) are skipped by the list-based executable verifier" % LONG,
    ]


def replay(path):
    r = json.load(open(path))
    common.cargo_build()
    common.lake_build(["driver"])
    src = r.get("program", "")
    tmp = os.path.join(common.VERIF, "work", "c06_replay.lay")
    os.makedirs(os.path.dirname(tmp), exist_ok=True)
    open(tmp, "w").write(src)
    funs, stats = dumps.dump_functions([tmp])
    print(stats)
    res, _ = verify_funs(funs)
    bad = any(st.startswith("PANIC") for _, st in stats)
    run1 = common.run_batch(["--probe --steps 300000 " + tmp])[0]
    print("run:", run1["status"])
    bad = bad or run1["status"].split(":")[0] in ("CRASH", "PANIC")
    c = common.Ctx("C06", "quick", 0)
    if not check_probe(c, "replay_probe", [tmp]):
        print("probe: executed depths differ from the certificate, see", [v[0] for v in c.violations][:2])
        bad = True
    for f, rep in res:
        print(f["head"], "=>", rep.split(" cover=")[0])
        bad = bad or not rep.startswith("ok")
        m = re.search(r"maxdepth=(\d+) capacity=(\d+)", rep)
        if m and " allreach=1" in rep and int(m.group(2)) - int(m.group(1)) != 1:
            print("capacity tie: max_slots of this fully reachable function is not the model's peak")
            bad = bad or str(r.get("broken", "")).startswith("capacity tie")
    return 1 if bad else 0
