"""C06 — emitted bytecode respects the stack contract the unchecked VM relies on.  DESIGN.md §5 C06."""
import json
import os
import random

from .. import common, dumps, gen_programs

PROP = "C06"
LEVEL = "proof"
LONG = 6000      # functions longer than this (limit fixtures) are skipped by the list-based verifier


def write_programs(ctx, n, label, opts=None):
    d = os.path.join(common.VERIF, "work", "c06_%s_%s" % (label, ctx.tier))
    os.makedirs(d, exist_ok=True)
    files = []
    for k in range(n):
        src = gen_programs.gen_program(ctx.seed * 1000003 + k, opts)
        f = os.path.join(d, "p%d.lay" % k)
        with open(f, "w") as fh:
            fh.write(src)
        files.append(f)
    return files


def verify_funs(funs, probes=None):
    """Run the Lean verifier over dump records. Returns list of (fun, reply)."""
    todo = [f for f in funs if f.get("POST", "").count(";") < LONG and dumps.head_info(f)]
    reqs = [dumps.verify_request(f, (probes or {}).get(id(f), "")) for f in todo]
    rc, out, err = common.run_lines([common.DRIVER, "verify"], reqs, timeout=1200)
    res = list(zip(todo, out))
    if len(out) < len(reqs):
        res += [(f, "fail driver-died") for f in todo[len(out):]]
    return res, len(funs) - len(todo)


def shrink_program(src, still_fails):
    """Line-based delta debugging that keeps the program compiling to a failing function."""
    lines = src.split("\n")
    changed = True
    while changed:
        changed = False
        n = len(lines)
        chunk = max(1, n // 2)
        while chunk >= 1:
            i = 0
            while i < len(lines):
                cand = lines[:i] + lines[i + chunk:]
                if cand and still_fails("\n".join(cand)):
                    lines = cand
                    changed = True
                else:
                    i += chunk
            chunk //= 2
    return "\n".join(lines)


def program_fails_verifier(src, tmp):
    with open(tmp, "w") as fh:
        fh.write(src)
    funs, stats = dumps.dump_functions([tmp])
    if any(st.startswith("PANIC") for _, st in stats):
        return True
    res, _ = verify_funs(funs)
    return any(not r.startswith("ok") for _, r in res)


def report_bad(ctx, label, f, reply, kind="implementation-vs-spec"):
    src = open(f["file"]).read() if f.get("file") and os.path.exists(f["file"]) else ""
    tmp = os.path.join(common.VERIF, "work", "c06_shrink_%d.lay" % os.getpid())
    small = src
    if src and len(src) < 20000:
        try:
            small = shrink_program(src, lambda s: program_fails_verifier(s, tmp))
        except Exception:
            small = src
    ctx.cov["impl_vs_spec_failures"] += 1
    ctx.violation(label, {"engine": "verify", "kind": kind,
                          "what": "the verified bytecode verifier rejects a function the compiler emitted: " + reply,
                          "file": f.get("file"), "function": f.get("head"), "program": small,
                          "post": f.get("POST", "")[:4000], "seed": ctx.seed})


def check_dump(ctx, label, files, nontrivial_rule=None):
    funs, stats = dumps.dump_functions(files)
    panics = [(fl, st) for fl, st in stats if st.startswith("PANIC")]
    ctx.stream_stat(label, files=len(files), functions=len(funs), compile_panics=len(panics),
                    compile_errors=sum(1 for _, st in stats if st.startswith("CompileError")))
    if panics:
        fl, st = panics[0]
        src = open(fl).read()
        tmp = os.path.join(common.VERIF, "work", "c06_shrink_%d.lay" % os.getpid())
        small = shrink_program(src, lambda s: program_fails_verifier(s, tmp)) if len(src) < 20000 else src
        ctx.cov["impl_vs_spec_failures"] += 1
        ctx.violation(label + "_compile_panic", {"engine": "dump", "kind": "implementation-vs-spec",
                                                 "what": "the compiler panicked: " + st, "file": fl, "program": small})
        return None
    res, skipped = verify_funs(funs)
    ctx.stream_stat(label, skipped_long=skipped)
    if not check_encode(ctx, label, funs):
        return None
    nh = 0
    for f, r in res:
        has_handler = "PushHandler" in f.get("POST", "")
        nh += has_handler
        ctx.count_case(f.get("POST", ""), nontrivial=("Jump" in f.get("POST", "") or has_handler))
        if not r.startswith("ok"):
            report_bad(ctx, label + "_verifier", f, r)
            return None
    ctx.stream_stat(label, functions_with_handlers=nh)
    return funs


def check_encode(ctx, label, funs):
    """The encode tie: the model's encoding of the POST instructions equals the real CODE bytes
    (cache-slot ids masked), so offsets, lengths, opcode numbering and jump operands agree."""
    todo = [f for f in funs if f.get("POST", "").count(";") < LONG and f.get("CODE") is not None]
    rc, out, err = common.run_lines([common.DRIVER, "encode"], [f["POST"] for f in todo], timeout=1200)
    n = 0
    for f, o in zip(todo, out):
        code = f["CODE"].strip()
        same = len(o) == len(code) and all(a == b or a == "?" for a, b in zip(o, code))
        n += 1
        if not same:
            ctx.cov["model_vs_impl_disagreements"] += 1
            ctx.violation(label + "_encode_tie", {"engine": "encode", "kind": "model-vs-implementation",
                                                  "broken": "encode tie: Model/Encode.lean (generated tables) vs ByteCodeEncoder::encode",
                                                  "function": f["head"], "file": f.get("file"), "post": f["POST"][:3000],
                                                  "model": o[:3000], "impl": code[:3000],
                                                  "program": open(f["file"]).read() if f.get("file") and os.path.exists(f["file"]) else ""},
                          no_input=True)
            return False
    ctx.stream_stat(label, encode_checked=n)
    return True


def check_probe(ctx, label, files):
    """Run programs with the per-instruction probe and compare every executed (offset, depth,
    handlers) with the certificate: the tie between `vmEffect` and the real interpreter."""
    reqs = ["--probe --steps 300000 " + f for f in files]
    runs = common.run_batch(reqs)
    funs, _ = dumps.dump_functions(files)
    by_code = {}
    for f in funs:
        # two functions of one file can share their bytes and differ in arity (|p| x and || x): the key
        # includes what the probe reports about the function header
        h = dumps.head_info(f)
        by_code.setdefault((f["file"], f.get("CODE", ""), h["arity"] if h else None, h["max_slots"] if h else None), f)
    todo, probes = [], {}
    npoints = 0
    statuses = {}
    for r in runs:
        st = r["status"].split(":")[0]
        statuses[st] = statuses.get(st, 0) + 1
        if st in ("CRASH", "PANIC"):
            src = open(r["file"]).read()
            ctx.cov["impl_vs_spec_failures"] += 1
            ctx.violation(label + "_crash", {"kind": "implementation-vs-spec", "what": "host crash while running an accepted program: " + r["status"][:300],
                                             "file": r["file"], "program": src, "run": "vharness run --probe --steps 300000 <program>"})
            return False
        for pf in r.get("probe", []) or []:
            f = by_code.get((r["file"], pf["code"], pf.get("arity"), pf.get("max_slots")))
            if f is None:
                continue       # a standard-library or stub function
            pts = " ".join("%d,%d,%d" % tuple(p) for p in pf["points"])
            npoints += len(pf["points"])
            probes[id(f)] = pts
            todo.append(f)
            if pf["min_left"] < 0:
                ctx.violation(label + "_overflow", {"kind": "implementation-vs-spec", "what": "operand stack ran past its reserved capacity at run time",
                                                    "file": r["file"], "function": pf["name"], "program": open(r["file"]).read()})
                return False
    ctx.stream_stat(label, programs=len(files), probed_functions=len(todo), probe_points=npoints, **{"status_" + k: v for k, v in statuses.items()})
    res, _ = verify_funs(todo, probes)
    for f, r in res:
        if r.startswith("probe-mismatch"):
            # the certificate is what the compiler's own simulation says (stack_effect = vmEffect is a [G] lemma): an
            # executed depth that differs from it is the interpreter leaving the stack contract on this very program -
            # a concrete input (D61: `launch` of a class without init left its result), not only a broken tie
            ctx.cov["impl_vs_spec_failures"] += 1
            ctx.violation(label + "_tie", {"engine": "verify", "kind": "implementation-vs-spec",
                                           "broken": "probe tie: executed (offset, depth, handlers) differs from the certificate (vmEffect vs vm/ops.rs)",
                                           "what": "the interpreter's operand stack depth differs from the depth the compiler's simulation assigns to the same offset "
                                                   "(offset:executed depth/handlers != certified depth/handlers): " + r,
                                           "file": f["file"], "function": f["head"], "program": open(f["file"]).read()})
            return False
        if not r.startswith("ok"):
            report_bad(ctx, label + "_verifier", f, r)
            return False
    ctx.cov["traces_validated_against_impl"] += len(todo)
    return True


def boundary_programs(ctx):
    """functions whose jump distances sit in a window around the 16-bit limit of the encoder: per kind of jump
    (Loop of a while, JumpIfFalse of an if, Jump over an else, PushHandler of a try, CheckHandler of a catch clause)
    bodies of n two-byte statements plus 0/1 three-byte statement, so that every distance in the window occurs"""
    d = os.path.join(common.VERIF, "work", "c06_boundary_%s" % ctx.tier)
    os.makedirs(d, exist_ok=True)
    files = []
    shapes = {
        "while": "fn f(c) { let n = 0; while c { %s n = n + 1; if n > 2 { c = false; } } return n; }\n",
        "if": "fn f(c) { if c { %s } return 1; }\n",
        "ifelse": "fn f(c) { if c { %s } else { c; } return 1; }\n",
        "else": "fn f(c) { if c { c; } else { %s } return 1; }\n",
        "try": "fn f(c) { try { %s } catch e: Error { return 2; } return 1; }\n",
        "catch": "fn f(c) { try { c; } catch e: TypeError { %s } catch e2: Error { return 2; } return 1; }\n",
        "for": "fn f(c) { for x in [1, 2] { %s } return 1; }\n",
    }
    step = 1 if not ctx.quick() else 2
    for kind, tpl in shapes.items():
        for n in range(32748, 32772, step):
            for odd in (0, 1):
                body = "nil; " * n + ("c; " if odd else "")
                f = os.path.join(d, "%s_%d_%d.lay" % (kind, n, odd))
                with open(f, "w") as fh:
                    fh.write(tpl % body + "print(1);\n")
                files.append(f)
    return files


def check_boundary(ctx, label="jump_boundary"):
    """The functions of `boundary_programs` that the compiler accepts go through the encode tie (they are too long for the
    list-based verifier): the model encoder refuses a distance it cannot express, so an accepted function whose jump
    does not fit its operand shows as a difference; rejected ones must be rejected with the jump diagnostic, not a crash."""
    files = boundary_programs(ctx)
    funs, stats = dumps.dump_functions(files, timeout=2400)
    acc = [f for f in funs if 'name="f"' in f["head"] and f.get("CODE") is not None]
    crashed = [(fl, st) for fl, st in stats if st.startswith(("PANIC", "CRASH"))]
    if crashed:
        ctx.cov["impl_vs_spec_failures"] += 1
        ctx.violation(label + "_crash", {"kind": "implementation-vs-spec", "what": "the compiler crashed on a function at the jump-distance limit: " + crashed[0][1][:200],
                                         "file": crashed[0][0], "program": open(crashed[0][0]).read()[:300] + " ... (generated: see file name kind_n_odd)"})
        return False
    rc, out, err = common.run_lines([common.DRIVER, "encode"], [f["POST"] for f in acc], timeout=2400)
    for f, o in zip(acc, out):
        code = f["CODE"].strip()
        same = len(o) == len(code) and all(a == b or a == "?" for a, b in zip(o, code))
        ctx.count_case(("boundary", f["file"]), nontrivial=True)
        if not same:
            ctx.cov["impl_vs_spec_failures"] += 1
            ctx.violation(label + "_spec", {"engine": "encode", "kind": "implementation-vs-spec",
                                            "what": "the compiler accepted a function whose jump distance the 16-bit operand cannot express (or encoded it differently "
                                                    "from the model encoder): the emitted jump does not land on its label",
                                            "file": f["file"], "function": f["head"], "model": o[:200], "impl_code_prefix": code[:200],
                                            "program": "generated by c06.boundary_programs: " + os.path.basename(f["file"]) + " (kind_n_odd: n two-byte statements `nil;` plus `odd` three-byte statement `c;` in the body)"})
            return False
    ctx.stream_stat(label, programs=len(files), accepted=len(acc), rejected=len(files) - len(acc))
    return True


def search(ctx):
    """A broken obligation: look for a program whose emitted code the verifier rejects (10x budget)."""
    files = write_programs(ctx, 3000, "search")
    funs, stats = dumps.dump_functions(files)
    for fl, st in stats:
        if st.startswith("PANIC"):
            return {"kind": "implementation-vs-spec", "what": "the compiler panicked: " + st, "file": fl,
                    "program": open(fl).read(), "found_by": "search"}
    res, _ = verify_funs(funs)
    for f, r in res:
        if not r.startswith("ok"):
            src = open(f["file"]).read()
            tmp = os.path.join(common.VERIF, "work", "c06_shrink_%d.lay" % os.getpid())
            small = shrink_program(src, lambda s: program_fails_verifier(s, tmp))
            return {"kind": "implementation-vs-spec", "what": "verifier rejects emitted code: " + r, "file": f["file"],
                    "function": f["head"], "program": small, "found_by": "search"}
    return None


def run(ctx):
    proved = ctx.prove("LaytheVerif.Props.C06")
    ok_c, out_c = common.cargo_build()
    if not ok_c:
        ctx.violation("harness_build", {"kind": "harness-build-failed", "broken": "cargo build of /verif/harness against /repo",
                                        "output": out_c[-3000:]}, no_input=True)
        return
    ctx.cov["rule"] = ("every function the compiler emits for the fixture corpus and for generated programs (typed, scope-correct, "
                       "loops/break/continue/try/ternary/closures/classes/sends) is checked by the verified verifier (translation validation "
                       "with a validator whose soundness is a theorem); executed (offset, depth, handlers) points from the interpreter probe are "
                       "compared with the certificate; non-trivial = function with a jump or a handler; distinct by instruction text")
    if not proved:
        what, detail = ctx.broken
        found = search(ctx)
        if not found and not check_boundary(ctx):
            return
        if found:
            found["broken_obligation"] = what
            found["detail"] = detail[-1500:]
            ctx.violation("spec", found)
        else:
            ctx.violation("proof", {"kind": "proof-obligation-failed", "broken": what, "detail": detail}, no_input=True)
        return
    corpus = os.path.join(common.VERIF, "corpus", "C06")
    if os.path.isdir(corpus):
        cf = sorted(os.path.join(corpus, f) for f in os.listdir(corpus) if f.endswith(".lay"))
        if cf and check_dump(ctx, "corpus", cf) is None:
            return
    if check_dump(ctx, "fixtures", dumps.fixture_files()) is None:
        return
    files = write_programs(ctx, ctx.n(600, 20000), "gen")
    funs = check_dump(ctx, "generated", files)
    if funs is None:
        return
    if funs:
        ctx.sample({"function": funs[-1]["head"], "post": funs[-1].get("POST", "")[:300]})
    cf = []
    if os.path.isdir(corpus):
        cf = sorted(os.path.join(corpus, f) for f in os.listdir(corpus) if f.endswith(".lay"))
    fx = [f for f in dumps.fixture_files() if "/language/" in f and "native_stack_overvflow" not in f]
    # fixtures for the probe: round-robin over the fixture directories, so that the quick tier sees every language area
    # (the first 150 in path order never reached launch/: D61 was found by the thorough tier only)
    bydir = {}
    for f in fx:
        bydir.setdefault(os.path.dirname(f), []).append(f)
    fxr = []
    k = 0
    while len(fxr) < len(fx):
        for dname in sorted(bydir):
            if k < len(bydir[dname]):
                fxr.append(bydir[dname][k])
        k += 1
    if not check_probe(ctx, "probe", cf + files[:ctx.n(300, 5000)] + fxr[:ctx.n(260, len(fxr))]):
        return
    if not check_boundary(ctx):
        return
    ctx.assumptions += [
        "vmEffect (pops, pushes per instruction) is hand-written from vm/ops.rs; it is tied to the interpreter by the probe stream (every executed offset's depth and handler count must equal the certificate), not proved from the Rust",
        "the verifier runs on the symbolic post-optimisation instruction list recorded by the compile hook; byte-level encoding is covered by the encode tie",
        "cache slot ids (PropertySlot/InvokeSlot) are not range-checked here (they are module-wide; see C19/C13)",
        "functions longer than %d instructions (two limit fixtures) are skipped by the list-based executable verifier" % LONG,
    ]


def replay(path):
    r = json.load(open(path))
    common.cargo_build()
    common.lake_build(["driver"])
    src = r.get("program", "")
    tmp = os.path.join(common.VERIF, "work", "c06_replay.lay")
    os.makedirs(os.path.dirname(tmp), exist_ok=True)
    open(tmp, "w").write(src)
    funs, stats = dumps.dump_functions([tmp])
    print(stats)
    res, _ = verify_funs(funs)
    bad = any(st.startswith("PANIC") for _, st in stats)
    run1 = common.run_batch(["--probe --steps 300000 " + tmp])[0]
    print("run:", run1["status"])
    bad = bad or run1["status"].split(":")[0] in ("CRASH", "PANIC")
    c = common.Ctx("C06", "quick", 0)
    if not check_probe(c, "replay_probe", [tmp]):
        print("probe: executed depths differ from the certificate, see", [v[0] for v in c.violations][:2])
        bad = True
    for f, rep in res:
        print(f["head"], "=>", rep)
        bad = bad or not rep.startswith("ok")
    return 1 if bad else 0
