"""Seeded generator of syntactically valid, scope-correct Laythe programs with rich control flow.

Used where the *shape* of the emitted bytecode matters (C06 verifier/probe, C12 pre-optimiser
streams, C05 collection schedules, C13 cache modes).  Programs always terminate (loops are bounded
by construction) unless `allow_nonterm` is set; every runtime error is either caught or ends the
program — both are fine for self-agreement streams.

`Opts` switches off constructs that hit known defects of the pinned tree.
"""
import random


class Opts:
    def __init__(self, **kw):
        self.try_in_param_fn = True      # D1
        self.try_after_ternary = True    # D2 (straight-line depth pass)
        self.many_locals_break = True    # D2
        self.nested_try_exit = True      # D3
        self.send = True                 # D25 (Send stack effect)
        self.classes = True
        self.fibers = True
        self.closures = True
        self.multi_catch = True          # several catch clauses, nested try in a later clause
        self.max_depth = 4
        self.__dict__.update(kw)


class Gen:
    def __init__(self, rng, opts=None):
        self.r = rng
        self.o = opts or Opts()
        self.uid = 0
        self.out = []
        self.ind = 0
        self.scopes = [[]]          # visible (variable, type) pairs (innermost last)
        self.fun_scopes = [[]]      # (name, arity) callable at this point
        self.class_scopes = [[]]    # (name, methods[(name, arity)], fields)
        self.in_loop = 0
        self.try_depth_in_loop = 0
        self.try_depth_in_fn = 0
        self.fn_params = 0
        self.in_fn = 0
        self.seen_ternary = False
        self.seen_send = False
        self.chans = []

    # -- helpers ---------------------------------------------------------------------------
    def fresh(self, p="v"):
        self.uid += 1
        return "%s%d" % (p, self.uid)

    def emit(self, s):
        self.out.append("  " * self.ind + s)

    def vars(self, ty=None):
        return [v for sc in self.scopes for (v, t) in sc if ty is None or t == ty]

    def push(self):
        self.scopes.append([])
        self.fun_scopes.append([])
        self.class_scopes.append([])

    def pop(self):
        self.scopes.pop()
        self.fun_scopes.pop()
        self.class_scopes.pop()

    def declare(self, v, ty="num"):
        self.scopes[-1].append((v, ty))

    @property
    def funs(self):
        return [f for sc in self.fun_scopes for f in sc]

    @property
    def classes(self):
        return [c for sc in self.class_scopes for c in sc]

    # -- expressions (typed so that programs mostly run without type errors) ------------------
    def num(self, d=0):
        r = self.r.random()
        vs = self.vars("num")
        if d >= self.o.max_depth or r < 0.30:
            if vs and self.r.random() < 0.6:
                return self.r.choice(vs)
            return str(self.r.randint(0, 9))
        if r < 0.55:
            return "(%s %s %s)" % (self.num(d + 1), self.r.choice(["+", "-", "*"]), self.num(d + 1))
        if r < 0.62:
            self.seen_ternary = True
            return "(%s ? %s : %s)" % (self.cond(d + 1), self.num(d + 1), self.num(d + 1))
        if r < 0.72 and self.funs:
            name, ar = self.r.choice(self.funs)
            return "%s(%s)" % (name, ", ".join(self.num(d + 1) for _ in range(ar)))
        if r < 0.78 and self.o.closures:
            p = self.fresh("p")
            self.push()
            self.declare(p)
            save = (self.in_loop, self.try_depth_in_loop, self.try_depth_in_fn, self.fn_params, self.in_fn)
            self.in_loop, self.try_depth_in_loop, self.try_depth_in_fn, self.fn_params = 0, 0, 0, 1
            self.in_fn += 1
            body = self.num(d + 1)
            self.in_loop, self.try_depth_in_loop, self.try_depth_in_fn, self.fn_params, self.in_fn = save
            self.pop()
            return "(|%s| %s)(%s)" % (p, body, self.num(d + 1))
        if r < 0.86 and self.classes and self.o.classes:
            cname, methods, fields = self.r.choice(self.classes)
            if methods and self.r.random() < 0.7:
                m, ar = self.r.choice(methods)
                return "%s().%s(%s)" % (cname, m, ", ".join(self.num(d + 1) for _ in range(ar)))
            if fields:
                return "%s().%s" % (cname, self.r.choice(fields))
            return str(self.r.randint(0, 9))
        if r < 0.90:
            ls = self.vars("list")
            if ls:
                return "%s.len()" % self.r.choice(ls)
            return "[%s].len()" % ", ".join(self.num(d + 1) for _ in range(self.r.randint(0, 3)))
        if r < 0.94 and vs:
            return "(%s = %s)" % (self.r.choice(vs), self.num(d + 1))
        if r < 0.97:
            return "(%s && %s)" % (self.num(d + 1), self.num(d + 1))
        return "-%s" % self.num(d + 1)

    def cond(self, d=0):
        r = self.r.random()
        if d >= self.o.max_depth or r < 0.5:
            return "(%s %s %s)" % (self.num(d + 1), self.r.choice(["<", ">", "==", "!=", "<=", ">="]), self.num(d + 1))
        if r < 0.7:
            return "(%s %s %s)" % (self.cond(d + 1), self.r.choice(["&&", "||"]), self.cond(d + 1))
        if r < 0.8:
            return "!%s" % self.cond(d + 1)
        if r < 0.9:
            return self.r.choice(["true", "false"])
        return "(%s == %s)" % (self.strx(d + 1), self.strx(d + 1))

    def strx(self, d=0):
        r = self.r.random()
        vs = self.vars("str")
        if d >= self.o.max_depth or r < 0.4:
            if vs and self.r.random() < 0.5:
                return self.r.choice(vs)
            return '"s%d"' % self.r.randint(0, 5)
        if r < 0.7:
            return '"a${%s}b"' % self.num(d + 1)
        if r < 0.85:
            return "(%s + %s)" % (self.strx(d + 1), self.strx(d + 1))
        return "%s.str()" % self.num(d + 1)

    def expr(self, d=0):
        r = self.r.random()
        if r < 0.7:
            return self.num(d)
        if r < 0.85:
            return self.strx(d)
        return self.cond(d)

    def atom(self):
        return self.num(self.o.max_depth)

    def try_possible_later_is_irrelevant(self):
        return False

    # -- statements ------------------------------------------------------------------------
    def block(self, n, d):
        self.push()
        self.ind += 1
        for _ in range(n):
            self.stmt(d + 1)
        self.ind -= 1
        self.pop()

    def can_try(self):
        if not self.o.try_in_param_fn and self.fn_params > 0:
            return False
        if not self.o.try_after_ternary and self.seen_ternary:
            return False
        if not self.o.send and self.seen_send:
            return False
        return True

    def stmt(self, d):
        r = self.r.random()
        if d > self.o.max_depth:
            r = self.r.random() * 0.35
        if r < 0.18:
            v = self.fresh()
            k = self.r.random()
            if k < 0.7:
                self.emit("let %s = %s;" % (v, self.num()))
                self.declare(v, "num")
            elif k < 0.85:
                self.emit("let %s = %s;" % (v, self.strx()))
                self.declare(v, "str")
            else:
                self.emit("let %s = [%s];" % (v, ", ".join(self.num(2) for _ in range(self.r.randint(0, 4)))))
                self.declare(v, "list")
        elif r < 0.30:
            if self.r.random() < 0.1:
                # a launch whose callee runs to completion inside the instruction (native / class without init): no fiber is
                # created and nothing may stay on the stack (D61)
                self.emit(self.r.choice(["launch print(%s);" % self.expr(), "launch Object();", "launch [%s].len();" % self.num()]))
            else:
                self.emit("print(%s);" % self.expr())
        elif r < 0.36:
            vs = self.vars("num")
            ls = self.vars("list")
            if ls and self.r.random() < 0.3:
                self.emit("%s.push(%s);" % (self.r.choice(ls), self.num()))
            elif vs:
                self.emit("%s = %s;" % (self.r.choice(vs), self.num()))
            else:
                self.emit("%s;" % self.expr())
        elif r < 0.46:
            self.emit("if %s {" % self.cond())
            self.block(self.r.randint(1, 3), d)
            if self.r.random() < 0.5:
                self.emit("} else {")
                self.block(self.r.randint(1, 2), d)
            self.emit("}")
        elif r < 0.56:
            # bounded while
            c = self.fresh("i")
            self.emit("let %s = 0;" % c)
            self.declare(c)
            self.emit("while %s < %d {" % (c, self.r.randint(1, 4)))
            self.in_loop += 1
            save = self.try_depth_in_loop
            self.try_depth_in_loop = 0
            self.push()
            self.ind += 1
            self.emit("%s = %s + 1;" % (c, c))
            nloc = 0
            for _ in range(self.r.randint(1, 4)):
                self.stmt(d + 1)
            if self.r.random() < 0.4:
                allowed = self.o.many_locals_break or len(self.scopes[-1]) < 4
                if allowed:
                    if self.r.random() < 0.3:
                        # both branches leave: the join label is dead
                        if self.r.random() < 0.5:
                            self.emit("if %s { %s; } else { %s; }" % (self.cond(), self.r.choice(["break", "continue"]),
                                                                     self.r.choice(["break", "continue"])))
                        else:
                            self.emit("if %s { if %s { %s; } else { %s; } }" % (self.cond(), self.cond(), self.r.choice(["break", "continue"]),
                                                                                self.r.choice(["break", "continue"])))
                            self.emit("print(%s);" % self.expr())
                    else:
                        self.emit("if %s { %s; }" % (self.cond(), self.r.choice(["break", "continue"])))
            self.ind -= 1
            self.pop()
            self.in_loop -= 1
            self.try_depth_in_loop = save
            self.emit("}")
        elif r < 0.63:
            x = self.fresh("x")
            self.emit("for %s in %s {" % (x, self.r.choice(["[1, 2, 3]", "%d.times()" % self.r.randint(0, 4)])))
            self.in_loop += 1
            save = self.try_depth_in_loop
            self.try_depth_in_loop = 0
            self.push()
            self.declare(x)
            self.ind += 1
            for _ in range(self.r.randint(1, 3)):
                self.stmt(d + 1)
            if self.r.random() < 0.3 and (self.o.many_locals_break or len(self.scopes[-1]) < 3):
                self.emit("if %s { %s; }" % (self.cond(), self.r.choice(["break", "continue"])))
            self.ind -= 1
            self.pop()
            self.in_loop -= 1
            self.try_depth_in_loop = save
            self.emit("}")
        elif r < 0.73 and self.can_try():
            if not self.o.nested_try_exit and self.try_depth_in_fn >= 1 and (self.in_loop or self.in_fn):
                self.emit("print(%s);" % self.expr())
                return
            self.emit("try {")
            self.try_depth_in_loop += 1
            self.try_depth_in_fn += 1
            self.push()
            self.ind += 1
            for _ in range(self.r.randint(1, 3)):
                self.stmt(d + 1)
            rr = self.r.random()
            if rr < 0.35:
                self.emit('raise Error("e%d");' % self.r.randint(0, 9))
            elif rr < 0.5:
                self.emit("%s + nil;" % self.num(2))
            elif rr < 0.6 and self.in_loop and (self.o.nested_try_exit or self.try_depth_in_loop <= 1) \
                    and (self.o.many_locals_break or len(self.vars()) < 4):
                self.emit("%s;" % self.r.choice(["break", "continue"]))
            elif rr < 0.7 and self.in_fn and (self.o.nested_try_exit or self.try_depth_in_fn <= 1):
                self.emit("return %s;" % self.num())
            self.ind -= 1
            self.pop()
            self.try_depth_in_loop -= 1
            self.try_depth_in_fn -= 1
            # one to three catch clauses; the earlier ones filter on classes that may or may not match
            # (`raise Error(..)` falls through to the last clause, `x + nil` is a TypeError)
            nclause = self.r.choice([1, 1, 1, 2, 2, 3]) if self.o.multi_catch else 1
            firsts = self.r.sample(["TypeError", "ValueError", "IndexError", "KeyError"], nclause - 1)
            head = "}"
            for ci, cls in enumerate(firsts + ["Error"]):
                e = self.fresh("e")
                self.emit("%s catch %s: %s {" % (head, e, cls))
                head = "}"
                self.push()
                self.declare(e, "err")
                self.ind += 1
                self.emit("print(%s.message);" % e)
                for _ in range(self.r.randint(0, 2)):
                    self.stmt(d + 1)
                if ci > 0 and self.r.random() < 0.6 and self.can_try():
                    # a nested try in a later clause whose handler fires (from a called function when one exists)
                    e2 = self.fresh("e")
                    fs = self.funs
                    self.emit("try {")
                    self.ind += 1
                    if fs and self.r.random() < 0.5:
                        name, ar = self.r.choice(fs)
                        self.emit("print(%s(%s));" % (name, ", ".join(self.num(2) for _ in range(ar))))
                    self.emit('raise Error("n%d");' % self.r.randint(0, 9))
                    self.ind -= 1
                    self.emit("} catch %s: Error {" % e2)
                    self.ind += 1
                    self.emit("print(%s.message);" % e2)
                    self.ind -= 1
                    self.emit("}")
                    v = self.fresh()
                    self.emit("let %s = %s;" % (v, self.num()))
                    self.declare(v, "num")
                    self.emit("print(%s);" % v)
                self.ind -= 1
                self.pop()
            self.emit("}")
        elif r < 0.81 and d <= 2:
            self.fundecl(d)
        elif r < 0.86 and d <= 1 and self.o.classes:
            self.classdecl(d)
        elif r < 0.90 and self.o.fibers and self.o.send and d <= 2:
            ch = self.fresh("ch")
            self.emit("let %s = chan(%d);" % (ch, self.r.randint(1, 3)))
            self.declare(ch, "chan")
            self.emit("%s <- %s;" % (ch, self.num()))
            self.seen_send = True
            self.emit("print(<- %s);" % ch)
        elif r < 0.915 and d <= 1:
            self.rootshape()
        elif r < 0.94 and self.in_fn:
            if self.o.nested_try_exit or self.try_depth_in_fn <= 1:
                k = self.r.random()
                if k < 0.55:
                    self.emit("if %s { return %s; }" % (self.cond(), self.num()))
                elif k < 0.8:
                    # guard clause whose inner if/else leaves on both arms: a dead join label directly
                    # followed by the live join label of the outer if
                    self.emit("if %s { if %s { return %s; } else { return %s; } }" % (self.cond(), self.cond(), self.num(), self.num()))
                elif k < 0.9:
                    self.emit("if %s { if %s { return %s; } else { return %s; } } else { print(%s); }" % (
                        self.cond(), self.cond(), self.num(), self.num(), self.expr()))
                else:
                    # everything after this statement in the function is unreachable
                    self.emit("if %s { return %s; } else { return %s; }" % (self.cond(), self.num(), self.num()))
            else:
                self.emit("print(1);")
        else:
            self.emit("%s;" % self.expr())

    def garbage(self):
        g = self.fresh("g")
        self.emit("for %s in %d.times() { let t = [\"g${%s}\", [%s], {\"k\": %s}]; }" % (g, self.r.randint(3, 40), g, g, g))

    def rootshape(self):
        """Heap values kept alive only through one particular kind of root, a burst of garbage, then a use:
        channel buffers (open, and closed but not drained), a suspended fiber's locals, an in-flight error,
        map keys/values, a lazy iterator chain, a bound method, a closure's captured cell."""
        k = self.r.randrange(8)
        n = self.num(2)
        if not self.o.send and k in (0, 1, 2):
            k = 4
        if k in (0, 1):
            ch = self.fresh("ch")
            self.emit("let %s = chan(3);" % ch)
            self.declare(ch, "chan")
            self.emit("%s <- [%s, \"s${%s}\"];" % (ch, n, n))
            self.emit("%s <- {\"k\": [%s]};" % (ch, n))
            self.seen_send = True
            if k == 1:
                self.emit("%s.close();" % ch)
            self.garbage()
            self.emit("print(<- %s);" % ch)
            self.emit("print((<- %s)[\"k\"]);" % ch)
            if k == 1:
                self.emit("print(<- %s);" % ch)
        elif k == 2:
            done, w = self.fresh("done"), self.fresh("w")
            self.emit("let %s = chan(1);" % done)
            self.declare(done, "chan")
            self.emit("fn %s() { let keep = [\"x${%s}\", [1, 2]]; let other = chan(); %s <- keep; }" % (w, n, done))
            self.emit("launch %s();" % w)
            self.seen_send = True
            self.garbage()
            self.emit("print(<- %s);" % done)
        elif k == 3 and self.can_try():
            e = self.fresh("e")
            self.emit("try { raise Error(\"m${%s}\"); } catch %s: Error {" % (n, e))
            self.ind += 1
            self.garbage()
            self.emit("print(%s.message);" % e)
            self.ind -= 1
            self.emit("}")
        elif k == 4:
            m = self.fresh("m")
            self.emit("let %s = {\"a${%s}\": [%s], [1]: \"v${%s}\"};" % (m, n, n, n))
            self.garbage()
            self.emit("print(%s[\"a${%s}\"]);" % (m, n))
            self.emit("print(%s.len());" % m)
        elif k == 5:
            it = self.fresh("it")
            self.emit("let %s = [1, 2, 3].iter().map(|x| \"v${x + %s}\").filter(|x| x != \"\");" % (it, n))
            self.garbage()
            self.emit("print(%s.list());" % it)
        elif k == 6 and self.classes and self.o.classes:
            cname, methods, fields = self.r.choice(self.classes)
            if methods:
                mname, ar = self.r.choice(methods)
                b = self.fresh("b")
                self.emit("let %s = %s().%s;" % (b, cname, mname))
                self.garbage()
                self.emit("print(%s(%s));" % (b, ", ".join(self.num(2) for _ in range(ar))))
            else:
                self.emit("print(%s);" % n)
        else:
            c, f = self.fresh("c"), self.fresh("f")
            self.emit("fn %s() { let cell = [\"c${%s}\"]; return || cell; }" % (c, n))
            self.emit("let %s = %s();" % (f, c))
            self.garbage()
            self.emit("print(%s());" % f)

    def fundecl(self, d, method=False, name=None):
        name = name or self.fresh("f")
        ar = self.r.randint(0, 3)
        params = [self.fresh("a") for _ in range(ar)]
        if method:
            self.emit("%s(%s) {" % (name, ", ".join(params)))
        else:
            self.emit("fn %s(%s) {" % (name, ", ".join(params)))
        save = (self.in_loop, self.try_depth_in_loop, self.try_depth_in_fn, self.fn_params, self.seen_ternary,
                self.seen_send)
        self.in_loop, self.try_depth_in_loop, self.try_depth_in_fn = 0, 0, 0
        self.fn_params = ar
        self.seen_ternary = False
        self.seen_send = False
        self.in_fn += 1
        self.push()
        for p in params:
            self.declare(p)
        if method:
            self.declare("self", "self")
        self.ind += 1
        for _ in range(self.r.randint(1, 5)):
            self.stmt(d + 1)
        self.emit("return %s;" % self.num())
        self.ind -= 1
        self.pop()
        self.in_fn -= 1
        (self.in_loop, self.try_depth_in_loop, self.try_depth_in_fn, self.fn_params, self.seen_ternary,
         self.seen_send) = save
        self.emit("}")
        if not method:
            self.fun_scopes[-1].append((name, ar))
        return name, ar

    def classdecl(self, d):
        name = self.fresh("C")
        parent = None
        if self.classes and self.r.random() < 0.4:
            parent = self.r.choice(self.classes)[0]
        self.emit("class %s%s {" % (name, (" : " + parent) if parent else ""))
        self.ind += 1
        fields = ["f%d" % i for i in range(self.r.randint(0, 3))]
        self.emit("init() {")
        self.ind += 1
        if parent:
            self.emit("super.init();")
        for f in fields:
            self.emit("self.%s = %s;" % (f, self.r.randint(0, 9)))
        self.ind -= 1
        self.emit("}")
        methods = []
        inherited = []
        if parent:
            pc = [c for c in self.classes if c[0] == parent][0]
            inherited = list(pc[1])
            fields = list(dict.fromkeys(pc[2] + fields))
        for _ in range(self.r.randint(0, 3)):
            m = self.fresh("m")
            _, ar = self.fundecl(d + 1, method=True, name=m)
            methods.append((m, ar))
        self.ind -= 1
        self.emit("}")
        self.class_scopes[-1].append((name, inherited + methods, fields))

    def program(self, nstmts=None):
        n = nstmts or self.r.randint(3, 10)
        for _ in range(n):
            self.stmt(0)
        return "\n".join(self.out) + "\n"


def gen_program(seed, opts=None, nstmts=None):
    rng = random.Random(seed)
    return Gen(rng, opts).program(nstmts)


if __name__ == "__main__":
    import sys
    print(gen_program(int(sys.argv[1]) if len(sys.argv) > 1 else 1))
