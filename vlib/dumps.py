"""Helpers around the compile dump (`vharness dump -`) and the verifier engine."""
import glob
import os
import re

from . import common


def fixture_files():
    return sorted(glob.glob(os.path.join(common.REPO, "laythe_vm", "fixture", "**", "*.lay"), recursive=True))


def dump_functions(files, harness=None, timeout=1200):
    """Compile-only dump of the given files. Returns (list of fun records, list of (file, status))."""
    harness = harness or common.harness_path()
    rc, out, err = common.run_lines([harness, "dump", "-"], files, timeout=timeout)
    funs, stats = [], []
    cur = None
    for line in out:
        if line.startswith("FILE "):
            parts = line.split()
            cur = parts[1]
            st = line.split("status=", 1)[1] if "status=" in line else "?"
            stats.append((cur, st))
        elif line.startswith("FUN "):
            parts = line.split("|")
            rec = {"file": cur, "head": parts[0]}
            for p in parts[1:]:
                k, _, v = p.partition(" ")
                rec[k] = v
            funs.append(rec)
    return funs, stats


HEAD = re.compile(r'name="((?:[^"\\]|\\.)*)" arity=(\w+)\((\d+)(?:, (\d+))?\) captures=(\d+) max_slots=(-?\d+)')


def head_info(f):
    m = HEAD.search(f["head"])
    if not m:
        return None
    name, kind, a1, a2, cap, ms = m.groups()
    return {"name": name, "arity_kind": kind, "arity": int(a1), "arity_max": int(a2) if a2 else int(a1),
            "captures": int(cap), "max_slots": int(ms)}


def verify_request(f, probe=""):
    """One request line for `driver verify` from a dump record."""
    h = head_info(f)
    consts = ",".join(c.replace(" ", "_").replace("|", "_") for c in f.get("CONSTS", "").split(","))
    # with default arguments the frame is entered with arity_max slots filled (missing ones padded)
    ar = h["arity_max"] if h["arity_kind"] == "Default" else h["arity"]
    return "arity=%d max_slots=%d captures=%d consts=%s|%s|%s" % (
        ar, max(h["max_slots"], 0), h["captures"], consts, f.get("POST", ""), probe)
