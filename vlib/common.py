"""Shared plumbing for /verif/check: builds, differential streams, evidence, replays, findings."""
import fcntl
import hashlib
import json
import os
import random
import re
import subprocess
import sys
import time

VERIF = os.path.dirname(os.path.dirname(os.path.abspath(__file__)))
def _repo_path():
    f = os.path.join(VERIF, ".repo_path")
    if os.environ.get("VERIF_REPO"):
        return os.environ["VERIF_REPO"]
    if os.path.exists(f):
        return open(f).read().strip()
    return "/repo"


REPO = _repo_path()
LEAN = os.path.join(VERIF, "lean")
HARNESS = os.path.join(VERIF, "harness")
EVID = os.path.join(VERIF, "evidence")
REPLAYS = os.path.join(VERIF, "replays")
DRIVER = os.path.join(LEAN, ".lake", "build", "bin", "driver")
ALLOWED_AXIOMS = {"propext", "Classical.choice", "Quot.sound"}
NCPU = os.cpu_count() or 4

TRUSTED_BASE = [
    "Lean 4.33.0 kernel (theorems re-checked by `lake build` on every run)",
    "axioms: subset of {propext, Classical.choice, Quot.sound}, audited with #print axioms on every run",
    "tools/translate.py (regenerates LaytheVerif/Gen/*.lean from /repo source text)",
    "the harness crate /verif/harness and the cfg(laythe_verif) hooks in /repo",
    "Lean compiler/runtime for the driver executable (correspondence and search only, never a theorem)",
    "rustc/cargo",
]


class Violation(Exception):
    pass


def log(*a):
    print(*a, file=sys.stderr, flush=True)


class BuildLock:
    def __init__(self, name="build"):
        self.path = os.path.join(VERIF, ".%s.lock" % name)

    def __enter__(self):
        self.f = open(self.path, "w")
        fcntl.flock(self.f, fcntl.LOCK_EX)
        return self

    def __exit__(self, *a):
        fcntl.flock(self.f, fcntl.LOCK_UN)
        self.f.close()


def sh(cmd, cwd=None, env=None, timeout=None, input=None):
    e = dict(os.environ)
    if env:
        e.update(env)
    p = subprocess.run(cmd, cwd=cwd, env=e, timeout=timeout, input=input,
                       stdout=subprocess.PIPE, stderr=subprocess.STDOUT, text=True)
    return p.returncode, p.stdout


# ---------------------------------------------------------------------------------------------
# builds


def translate():
    """Regenerate LaytheVerif/Gen/*.lean from /repo's working tree. Returns (ok, message)."""
    rc, out = sh([sys.executable, os.path.join(VERIF, "tools", "translate.py"), REPO,
                  os.path.join(LEAN, "LaytheVerif", "Gen")])
    return rc == 0, out


def lake_build(targets):
    """Build lean targets. Returns (ok, output)."""
    with BuildLock("lake"):
        rc, out = sh(["lake", "build"] + list(targets), cwd=LEAN, timeout=3000)
    return rc == 0, out


def harness_path(nan_boxing=False, release=False, bin="vharness"):
    d = "target-nb" if nan_boxing else "target"
    return os.path.join(HARNESS, d, "release" if release else "debug", bin)


def cargo_build(nan_boxing=False, release=False, bin="vharness"):
    """Build one harness binary against /repo's working tree with hooks on. Returns (ok, output)."""
    lock = os.path.join(HARNESS, "Cargo.lock")
    try:
        src = open(os.path.join(REPO, "Cargo.lock")).read()
        if not os.path.exists(lock):
            open(lock, "w").write(src)
    except OSError:
        pass
    cmd = ["cargo", "build", "--offline", "--quiet", "--bin", bin]
    if release:
        cmd.append("--release")
    if nan_boxing:
        cmd += ["--features", "nan_boxing", "--target-dir", os.path.join(HARNESS, "target-nb")]
    env = {"RUSTFLAGS": "--cfg laythe_verif -Awarnings", "CARGO_NET_OFFLINE": "true"}
    with BuildLock("cargo-nb" if nan_boxing else "cargo"):
        rc, out = sh(cmd, cwd=HARNESS, env=env, timeout=3000)
    return rc == 0, out


def _run_shard(args):
    harness, reqs, timeout = args
    cmd = [harness] if os.path.basename(harness) in ("vh_runchk", "vh_runpoison") else [harness, "runbatch"]
    """reqs: list of request lines for `vharness runbatch`. Returns list of dict (one per request)."""
    out = []
    i = 0
    while i < len(reqs):
        chunk = reqs[i:]
        try:
            p = subprocess.run(cmd, input="".join(r + "\n" for r in chunk), stdout=subprocess.PIPE,
                               stderr=subprocess.PIPE, text=True, timeout=timeout)
            lines = [l for l in p.stdout.split("\n") if l.strip()]
            rc = p.returncode
        except subprocess.TimeoutExpired as ex:
            so = ex.stdout or b""
            if isinstance(so, bytes):
                so = so.decode("utf8", "replace")
            lines = [l for l in so.split("\n") if l.strip()]
            rc = "timeout"
        good = []
        for l in lines:
            try:
                good.append(json.loads(l))
            except ValueError:
                break
        out.extend(good)
        i += len(good)
        if len(good) < len(chunk):
            # the process died (or timed out) inside request i: record it and continue after it.
            # The time limit is on the whole remaining chunk, so a timeout says nothing about request
            # i by itself (a loaded machine and a long chunk are enough): run it alone before blaming it.
            rec = {"file": reqs[i].split()[-1], "status": "CRASH:%s" % rc, "stdout": "", "stderr": ""}
            if rc == "timeout":
                try:
                    p1 = subprocess.run(cmd, input=reqs[i] + "\n", stdout=subprocess.PIPE,
                                        stderr=subprocess.PIPE, text=True, timeout=max(300, timeout // 2))
                    l1 = [l for l in p1.stdout.split("\n") if l.strip()]
                    rec = json.loads(l1[0]) if l1 else dict(rec, status="CRASH:%s" % p1.returncode)
                except subprocess.TimeoutExpired:
                    pass
                except ValueError:
                    rec = dict(rec, status="CRASH:unparsable-output")
            out.append(rec)
            i += 1
    return out


def run_batch(reqs, nan_boxing=False, release=False, jobs=None, timeout=600, bin="vharness"):
    """Run request lines (`[options] file`) through `vharness runbatch`, sharded over processes;
    a host abort/segfault/timeout is isolated to the single request that caused it."""
    import concurrent.futures
    harness = harness_path(nan_boxing, release, bin=bin)
    jobs = jobs or NCPU
    n = max(1, min(jobs, (len(reqs) + 7) // 8))
    shards = [reqs[k::n] for k in range(n)]
    res = [None] * len(reqs)
    with concurrent.futures.ThreadPoolExecutor(max_workers=n) as ex:
        outs = list(ex.map(_run_shard, [(harness, sh_, timeout) for sh_ in shards]))
    for k, o in enumerate(outs):
        for j, r in enumerate(o):
            res[k + j * n] = r
    return res


def lean_theorems(module_files):
    """Names of theorems declared in the given .lean files (with namespace)."""
    names = []
    nex = 0
    for f in module_files:
        ns = []
        for line in open(f):
            m = re.match(r"\s*namespace\s+(\S+)", line)
            if m:
                ns.append(m.group(1))
                continue
            m = re.match(r"\s*end\s+(\S+)", line)
            if m and ns and ns[-1] == m.group(1):
                ns.pop()
                continue
            m = re.match(r"\s*(?:private\s+|protected\s+)?(?:theorem|lemma)\s+([^\s:({\[]+)", line)
            if m:
                names.append(".".join(ns + [m.group(1)]))
            if re.match(r"\s*example\b", line):
                nex += 1
    return names, nex


def scan_forbidden(files):
    """Textual scan for sorry/admit/axiom/native_decide/... outside comments."""
    bad = []
    pat = re.compile(r"\bsorry\b|\badmit\b|^\s*axiom\s|native_decide|implemented_by|\bunsafe\s|maxHeartbeats\s+0|bv_decide")
    for f in files:
        txt = open(f).read()
        txt = re.sub(r"/-.*?-/", lambda m: "\n" * m.group(0).count("\n"), txt, flags=re.S)
        for i, line in enumerate(txt.split("\n"), 1):
            # string literals are data (generated tables quote Rust text), not Lean code
            code = re.sub(r'"(?:[^"\\]|\\.)*"', '""', line).split("--")[0]
            if pat.search(code):
                bad.append("%s:%d: %s" % (os.path.relpath(f, VERIF), i, line.strip()))
    return bad


def axiom_audit(import_mods, theorem_names):
    """Run #print axioms on every theorem; returns (ok, {thm: [axioms]}, raw)."""
    if not theorem_names:
        return True, {}, ""
    src = "".join("import %s\n" % m for m in import_mods)
    src += "".join("#print axioms %s\n" % t for t in theorem_names)
    tmp = os.path.join(LEAN, ".audit_%d.lean" % os.getpid())
    open(tmp, "w").write(src)
    try:
        rc, out = sh(["lake", "env", "lean", tmp], cwd=LEAN, timeout=1200)
    finally:
        os.unlink(tmp)
    res = {}
    cur = None
    for m in re.finditer(r"'([^']+)' (depends on axioms: \[([^\]]*)\]|does not depend on any axioms)", out.replace("\n", " ")):
        axs = [a.strip() for a in (m.group(3) or "").split(",") if a.strip()]
        res[m.group(1)] = axs
    ok = rc == 0 and all(set(v) <= ALLOWED_AXIOMS for v in res.values()) and len(res) >= len(set(theorem_names))
    return ok, res, out


# drivers whose import closure is searched for stale generated modules in addition to the theorem module's
# (the engines import the same Model files as the theorem modules, so normally nothing is needed here)
DRIVER_ROOTS = {}


def closure_files(root_rel):
    """Transitive closure of `import LaytheVerif.*` from a root module path (relative to LEAN)."""
    seen, todo = [], [root_rel]
    while todo:
        f = todo.pop()
        if f in seen:
            continue
        seen.append(f)
        p = os.path.join(LEAN, f)
        if not os.path.exists(p):
            continue
        for line in open(p):
            m = re.match(r"\s*import\s+(LaytheVerif\.\S+)", line)
            if m:
                todo.append(m.group(1).replace(".", "/") + ".lean")
    return [os.path.join(LEAN, f) for f in seen]


def failing_decls(lake_output):
    """Best-effort: names of modules/lines that failed in a lake build log."""
    errs = re.findall(r"error: ([^\n]+)", lake_output)
    return errs[:20]


# ---------------------------------------------------------------------------------------------
# differential streams


def run_lines(cmd, lines, timeout=600, cwd=None, env=None):
    """Feed lines to a line-protocol process; return (rc, list of output lines)."""
    e = dict(os.environ)
    if env:
        e.update(env)
    try:
        p = subprocess.run(cmd, input="".join(l + "\n" for l in lines), stdout=subprocess.PIPE,
                           stderr=subprocess.PIPE, text=True, timeout=timeout, cwd=cwd, env=e)
    except subprocess.TimeoutExpired as ex:
        out = ex.stdout or ""
        if isinstance(out, bytes):
            out = out.decode("utf8", "replace")
        return -999, out.split("\n")[:-1] if out else [], "timeout"
    return p.returncode, p.stdout.split("\n")[:-1] if p.stdout else [], p.stderr


def diff_streams(engine, lines, harness=None, extra_args=()):
    """Run the same request lines through the Lean driver and the harness. Returns
    (model_out, impl_out, first_mismatch_index or None, notes)."""
    harness = harness or harness_path()
    rc_m, mo, me = run_lines([DRIVER, engine] + list(extra_args), lines)
    rc_i, io, ie = run_lines([harness, engine] + list(extra_args), lines)
    notes = []
    if rc_m != 0:
        notes.append("driver rc=%s %s" % (rc_m, (me or "")[-300:]))
    if rc_i != 0:
        notes.append("harness rc=%s %s" % (rc_i, (ie or "")[-300:]))
    mism = None
    for i in range(max(len(mo), len(io), len(lines))):
        a = mo[i] if i < len(mo) else "<missing>"
        b = io[i] if i < len(io) else "<missing>"
        if a != b:
            mism = i
            break
    return mo, io, mism, notes


# ---------------------------------------------------------------------------------------------
# evidence, replays, findings


def write_replay(prop, name, payload):
    os.makedirs(REPLAYS, exist_ok=True)
    path = os.path.join(REPLAYS, "%s_%s.json" % (prop, name))
    payload = dict(payload)
    payload["property"] = prop
    with open(path, "w") as f:
        json.dump(payload, f, indent=1)
    return path


def load_findings(prop=None):
    p = os.path.join(VERIF, "known_findings.jsonl")
    out = []
    if os.path.exists(p):
        for line in open(p):
            line = line.strip()
            if not line or line.startswith("#") or line.startswith("fixed:"):
                continue
            r = json.loads(line)
            # a finding is replayed by the check that owns it (its witness format is that check's)
            if prop is None or r.get("owner", prop) == prop and prop in r.get("properties", [r.get("property")]):
                out.append(r)
    return out


def case_hash(obj):
    return hashlib.sha1(json.dumps(obj, sort_keys=True).encode()).hexdigest()[:16]


class Ctx:
    """State of one check run for one property."""

    def __init__(self, prop, tier, seed):
        self.prop = prop
        self.tier = tier
        self.seed = seed
        self.t0 = time.time()
        self.violations = []       # (replay_path, suffix)
        self.known_lines = []
        self.cov = {
            "obligations": 0, "discharged": 0, "checker_cmd": "", "trusted_base": list(TRUSTED_BASE),
            "evaluations": 0, "distinct_nontrivial": 0, "rule": "", "samples": [],
            "traces_validated_against_impl": 0, "streams": {}, "theorems": [], "axioms": {},
            "model_vs_impl_disagreements": 0, "impl_vs_spec_failures": 0, "known_findings_replayed": [],
        }
        self.assumptions = []
        self.rng = random.Random(seed)
        self._distinct = set()

    def quick(self):
        return self.tier == "quick"

    def n(self, quick, thorough):
        return quick if self.tier == "quick" else thorough

    def violation(self, name, payload, no_input=False):
        path = write_replay(self.prop, name, payload)
        self.violations.append((path, " no-failing-input-found" if no_input else ""))
        return path

    def known(self, fid, what):
        self.known_lines.append("KNOWN-FINDING: property=%s %s %s" % (self.prop, fid, what))
        self.cov["known_findings_replayed"].append(fid)

    def count_case(self, canon, nontrivial=True):
        self.cov["evaluations"] += 1
        if nontrivial:
            self._distinct.add(case_hash(canon))

    def sample(self, s, cap=6):
        if len(self.cov["samples"]) < cap:
            self.cov["samples"].append(s)

    def stream_stat(self, name, **kw):
        d = self.cov["streams"].setdefault(name, {})
        for k, v in kw.items():
            if isinstance(v, (int, float)) and isinstance(d.get(k), (int, float)):
                d[k] += v
            else:
                d[k] = v

    # -- proof obligations -------------------------------------------------------------------
    def prove(self, prop_module, extra_targets=("driver",)):
        """Regenerate Gen, build the property module, audit axioms. Records obligations.
        Returns True iff every obligation re-checked."""
        ok_t, out_t = translate()
        root_rel = prop_module.replace(".", "/") + ".lean"
        files = closure_files(root_rel)
        thms, nex = lean_theorems(files)
        self.cov["obligations"] = len(thms) + nex
        self.cov["theorems"] = thms
        self.cov["checker_cmd"] = "python3 tools/translate.py /repo lean/LaytheVerif/Gen && cd lean && lake build %s && lake env lean <#print axioms audit>" % prop_module
        if not ok_t:
            # a generator that no longer understands the source leaves its old output in place: that only
            # matters to properties whose theorem modules (or drivers) import it
            relevant = None
            try:
                st = json.load(open(os.path.join(LEAN, "LaytheVerif", "Gen", ".translate_status.json")))
                gen_used = {os.path.basename(f)[:-5] for f in files if "/Gen/" in f.replace(os.sep, "/")}
                for t in extra_targets:
                    for root in DRIVER_ROOTS.get(t, []):
                        gen_used |= {os.path.basename(f)[:-5] for f in closure_files(root) if "/Gen/" in f.replace(os.sep, "/")}
                relevant = [x for x in st.get("failed", []) if set(x["outputs"]) & gen_used]
            except (OSError, ValueError, KeyError):
                relevant = None
            if relevant is None or relevant:
                self.cov["discharged"] = 0
                msg = out_t[-2000:] if relevant is None else "\n".join("%s (%s): %s" % (x["generator"], ", ".join("Gen/%s.lean" % o for o in x["outputs"]), x["error"]) for x in relevant)
                self.broken = ("translator", msg)
                return False
            self.cov["translator_failures_outside_this_property"] = [x["generator"] for x in st.get("failed", [])]
        bad = scan_forbidden(files)
        ok_b, out_b = lake_build([prop_module] + list(extra_targets))
        if not ok_b or bad:
            self.cov["discharged"] = 0
            self.broken = ("lake build " + prop_module, ("\n".join(bad) + "\n" + out_b)[-4000:])
            return False
        ok_a, axs, raw = axiom_audit([prop_module], thms)
        self.cov["axioms"] = {k: v for k, v in axs.items() if v}
        self.cov["axioms_union"] = sorted({a for v in axs.values() for a in v})
        if not ok_a:
            self.cov["discharged"] = 0
            self.broken = ("axiom audit " + prop_module, raw[-3000:])
            return False
        if self.tier == "thorough":
            # independent re-check of the compiled module by the toolchain's leanchecker (replays the .olean through the kernel)
            with BuildLock("lake"):
                rc_l, out_l = sh(["lake", "env", "leanchecker", prop_module], cwd=LEAN, timeout=1800)
            self.cov["leanchecker"] = "ok" if rc_l == 0 else out_l[-1500:]
            if rc_l != 0:
                self.cov["discharged"] = 0
                self.broken = ("leanchecker " + prop_module, out_l[-3000:])
                return False
        self.cov["discharged"] = self.cov["obligations"]
        self.broken = None
        return True

    # -- finish --------------------------------------------------------------------------------
    def finish(self, level="proof"):
        self.cov["distinct_nontrivial"] = len(self._distinct)
        ev = {
            "property_id": self.prop, "tier": self.tier, "seed": self.seed, "level": level,
            "coverage": self.cov, "assumptions": self.assumptions,
            "wall_s": round(time.time() - self.t0, 2), "violations": len(self.violations),
        }
        os.makedirs(EVID, exist_ok=True)
        with open(os.path.join(EVID, "%s.json" % self.prop), "w") as f:
            json.dump(ev, f, indent=1)
        for l in self.known_lines:
            print(l)
        concrete = [p for p, suffix in self.violations if not suffix]
        noinput = [p for p, suffix in self.violations if suffix]
        if concrete and noinput:
            # the search found a failing input: report it as the replay and name the broken
            # obligations inside it instead of printing separate no-failing-input-found lines
            for p in concrete:
                try:
                    r = json.load(open(p))
                    r["broken_obligations"] = [json.load(open(q)) for q in noinput]
                    json.dump(r, open(p, "w"), indent=1)
                except (OSError, ValueError):
                    pass
            self.violations = [(p, "") for p in concrete]
        for path, suffix in self.violations:
            print("VIOLATION property=%s replay=%s%s" % (self.prop, path, suffix))
        sys.stdout.flush()
        return 1 if self.violations else 0
