"""The `alloc` correspondence stream shared by C05, C09 and C20: random mutator/collector histories
driven interactively against the real `Allocator` (harness bin `vh_alloc`), judged by an independent
Spec monitor (reachability graph kept here) and replayed through the Lean model (`driver alloc`)."""
import os
import random
import subprocess

from . import common

TEXTS = ["a", "b", "ab", "hello", "w", "xyz", "k1", "k2", "longer-string", "é"]


class Impl:
    def __init__(self):
        self.p = subprocess.Popen([common.harness_path(bin="vh_alloc")], stdin=subprocess.PIPE, stdout=subprocess.PIPE,
                                  text=True, bufsize=1)

    def ask(self, line):
        self.p.stdin.write(line + "\n")
        self.p.stdin.flush()
        out = self.p.stdout.readline()
        if not out:
            raise RuntimeError("vh_alloc died on: " + line)
        return out.rstrip("\n")

    def close(self):
        try:
            self.p.stdin.close()
            self.p.wait(timeout=5)
        except Exception:
            self.p.kill()


class Sim:
    """The Spec side: the object graph the mutator built, and what it can still reach."""

    def __init__(self):
        self.objs = []          # dict(kind, edges, text, size)
        self.roots = [None] * 8
        self.temp = []

    def reachable(self):
        seen = set()
        work = [r for r in self.roots if r is not None] + list(self.temp)
        while work:
            x = work.pop()
            if x in seen:
                continue
            seen.add(x)
            work.extend(e for e in self.objs[x]["edges"] if e is not None)
        return seen


def parse_stats(line):
    return {k: int(v) for k, v in (kv.split("=") for kv in line.split())}


def gen_and_run(rng, maxlen, sizes):
    """One history. Returns (impl_ops, impl_out, model_ops, spec_failures[list of (category, index, msg)])."""
    impl = Impl()
    sim = Sim()
    ops, outs, mops, fails = [], [], [], []

    def do(op, mop=None):
        o = impl.ask(op)
        ops.append(op)
        outs.append(o)
        mops.append(mop if mop is not None else op)
        return o

    def size_of(kind, n=0, observed=None):
        key = (kind, n)
        if observed:
            sizes[key] = observed
        return sizes.get(key)

    try:
        do("reset")
        if rng.random() < 0.5:
            do("sched every %d" % rng.choice([1, 2, 3, 5, 7]))
        if rng.random() < 0.3:
            do("threshold %d" % rng.choice([0, 50, 200, 1000]))
        n = rng.randint(5, maxlen)
        for _ in range(n):
            reach = sorted(sim.reachable())
            objreach = [x for x in reach if sim.objs[x]["kind"] != "waiter"]
            r = rng.random()

            def pick():
                if objreach and rng.random() < 0.8:
                    return rng.choice(objreach)
                return None

            def record_new(o, kind, edges, text=None, nkey=0):
                t = o.split()
                if t[0] != "new":
                    return None
                idx, sz, collected = int(t[1]), int(t[2]), t[3] == "1"
                if not collected:
                    size_of(kind, nkey, sz)
                sz = size_of(kind, nkey) or sz
                if idx != len(sim.objs):
                    fails.append(("tie", len(ops) - 1, "allocation index %d, expected %d" % (idx, len(sim.objs))))
                sim.objs.append({"kind": kind, "edges": edges, "text": text, "size": sz})
                return idx, sz

            if r < 0.16:
                src = pick()
                o = do("box %s" % ("-" if src is None else src))
                res = record_new(o, "box", [src])
                mops[-1] = "box %s %d" % ("-" if src is None else src, res[1] if res else 0)
                new = res[0] if res else None
            elif r < 0.26:
                k = rng.randint(0, 4)
                srcs = [pick() for _ in range(k)]
                o = do("tuple " + " ".join("-" if s is None else str(s) for s in srcs))
                res = record_new(o, "tuple", srcs, nkey=k)
                mops[-1] = "tuple %d %s" % (res[1] if res else 0, " ".join("-" if s is None else str(s) for s in srcs))
                new = res[0] if res else None
            elif r < 0.42:
                text = rng.choice(TEXTS)
                live_same = [x for x in reach if sim.objs[x]["kind"] == "str" and sim.objs[x]["text"] == text]
                o = do("str " + text)
                t = o.split()
                new = None
                if t[0] == "new":
                    if live_same:
                        fails.append(("C09", len(ops) - 1, "a second string object for content %r while object %d with the same content is reachable" % (text, live_same[0])))
                    res = record_new(o, "str", [], text=text, nkey=len(text.encode()))
                    new = res[0] if res else None
                    mops[-1] = "str %s %d" % (text, res[1] if res else 0)
                elif t[0] == "hit":
                    sz = size_of("str", len(text.encode())) or 0
                    mops[-1] = "str %s %d" % (text, sz)
                    if t[1] == "?" or sim.objs[int(t[1])]["kind"] != "str" or sim.objs[int(t[1])]["text"] != text:
                        fails.append(("C09", len(ops) - 1, "interned lookup of %r returned object %s which is not a string with that content" % (text, t[1])))
                    else:
                        new = int(t[1])
                        if live_same and new not in live_same:
                            fails.append(("C09", len(ops) - 1, "lookup of %r returned object %d, not the reachable equal string %d" % (text, new, live_same[0])))
            elif r < 0.47:
                o = do("waiter")
                res = record_new(o, "waiter", [])
                mops[-1] = "waiter %d" % (res[1] if res else 0)
                new = None
            elif r < 0.57:
                boxes = [x for x in objreach if sim.objs[x]["kind"] == "box"]
                new = None
                if boxes:
                    b = rng.choice(boxes)
                    src = pick()
                    do("setbox %d %s" % (b, "-" if src is None else src))
                    sim.objs[b]["edges"] = [src]
            elif r < 0.72:
                k = rng.randrange(8)
                src = pick() if rng.random() < 0.75 else None
                do("root %d %s" % (k, "-" if src is None else src))
                sim.roots[k] = src
                new = None
            elif r < 0.76:
                new = None
                src = pick()
                if src is not None:
                    do("temp %d" % src)
                    sim.temp.append(src)
            elif r < 0.79:
                new = None
                if sim.temp:
                    k = rng.randint(1, len(sim.temp))
                    do("poptemp %d" % k)
                    del sim.temp[len(sim.temp) - k:]
            elif r < 0.90:
                mode = rng.choice(["auto", "auto", "full", "nursery", "nursery"])
                do("collect " + mode)
                st = parse_stats(do("stats"))
                reach2 = sim.reachable()
                live_bytes = sum(sim.objs[x]["size"] for x in reach2)
                if st["bytes"] != st["heap_b"] + st["old_b"] + st["nursery_b"]:
                    fails.append(("C20", len(ops) - 1, "after a %s collection bytes_allocated=%d but the owned objects total %d" % (
                        mode, st["bytes"], st["heap_b"] + st["old_b"] + st["nursery_b"])))
                if st["next"] != 2 * st["bytes"]:
                    fails.append(("C20", len(ops) - 1, "next_gc=%d is not twice bytes_allocated=%d" % (st["next"], st["bytes"])))
                if mode == "full":
                    nobj = sum(1 for x in reach2 if sim.objs[x]["kind"] != "waiter")
                    npl = sum(1 for x in reach2 if sim.objs[x]["kind"] == "waiter")
                    nstr = sum(1 for x in reach2 if sim.objs[x]["kind"] == "str")
                    if (st["old"], st["heap"], st["nursery"]) != (nobj, npl, 0):
                        fails.append(("C20", len(ops) - 1, "after a full collection the allocator owns %d+%d+%d objects, %d+%d are reachable" % (
                            st["old"], st["heap"], st["nursery"], nobj, npl)))
                    if st["heap_b"] + st["old_b"] != live_bytes:
                        fails.append(("C20", len(ops) - 1, "after a full collection owned bytes %d != live bytes %d" % (st["heap_b"] + st["old_b"], live_bytes)))
                    if st["intern"] != nstr:
                        fails.append(("C20", len(ops) - 1, "after a full collection the intern table has %d entries, %d strings are reachable" % (st["intern"], nstr)))
                new = None
            else:
                new = None
                if reach:
                    x = rng.choice(reach)
                    o = do("read %d" % x)
                    ob = sim.objs[x]
                    if ob["kind"] == "box":
                        exp = "box %s" % ("-" if ob["edges"][0] is None else ob["edges"][0])
                    elif ob["kind"] == "tuple":
                        exp = ("tuple " + " ".join("-" if e is None else str(e) for e in ob["edges"])).strip()
                    elif ob["kind"] == "str":
                        exp = "str " + ob["text"]
                    else:
                        exp = "waiter 1"
                    if o != exp:
                        fails.append(("C05", len(ops) - 1, "reachable object %d reads as %r, expected %r (freed or corrupted)" % (x, o, exp)))
            # make most new objects reachable
            if new is not None and rng.random() < 0.6:
                k = rng.randrange(8)
                do("root %d %d" % (k, new))
                sim.roots[k] = new
        do("collect full")
        st = parse_stats(do("stats"))
        reach2 = sim.reachable()
        if st["old"] + st["heap"] != len(reach2) or st["nursery"] != 0:
            fails.append(("C20", len(ops) - 1, "final full collection: owns %d objects, %d reachable" % (st["old"] + st["heap"] + st["nursery"], len(reach2))))
        lay = do("layout", "stats").split(None, 2)
        if lay[0] == "layout" and lay[1] != "0":
            fails.append(("C20", len(ops) - 1, "%s blocks were released with a size/alignment other than the one they were obtained with (%s)" % (lay[1], lay[2] if len(lay) > 2 else "")))
        lk = do("leaks").split()
        if lk[0] == "leaks" and lk[1] != "0":
            fails.append(("C20", len(ops) - 1, "%s of the %s blocks that left the allocator's owner lists during this history were never handed back to the system "
                          "allocator (%s)" % (lk[1], lk[3], " ".join(lk[4:]))))
        for x in sorted(reach2)[:6]:
            o = do("read %d" % x)
            ob = sim.objs[x]
            if ob["kind"] == "str" and o != "str " + ob["text"]:
                fails.append(("C05", len(ops) - 1, "reachable string %d reads as %r after the final collection" % (x, o)))
    except RuntimeError as e:
        fails.append(("C05", len(ops), "the allocator process died: %s" % e))
    finally:
        impl.close()
    return ops, outs, mops, fails


def calibrate(sizes):
    """Learn the byte size of every kind of allocation the generator uses (no collection involved)."""
    impl = Impl()
    try:
        impl.ask("reset")
        sizes[("box", 0)] = int(impl.ask("box -").split()[2])
        sizes[("waiter", 0)] = int(impl.ask("waiter").split()[2])
        for k in range(0, 5):
            sizes[("tuple", k)] = int(impl.ask("tuple " + " ".join("-" for _ in range(k))).split()[2])
        for t in TEXTS:
            o = impl.ask("str " + t).split()
            if o[0] == "new":
                sizes[("str", len(t.encode()))] = int(o[2])
    finally:
        impl.close()


def replay_model(mops):
    rc, out, err = common.run_lines([common.DRIVER, "alloc"], mops)
    return out


def run_stream(ctx, nseq, maxlen, focus):
    """Run `nseq` histories. `focus` = the property whose Spec failures this check reports (tie
    failures are reported by every caller). Returns False after reporting a violation."""
    common.cargo_build(bin="vh_alloc")
    rng = random.Random(ctx.seed * 65537 + 3)
    sizes = {}
    calibrate(sizes)
    stats = {"histories": 0, "ops": 0, "collections": 0, "intern_hits": 0, "allocs": 0, "spec_other_property": 0}
    first = None
    for k in range(nseq):
        ops, outs, mops, fails = gen_and_run(rng, maxlen, sizes)
        stats["histories"] += 1
        stats["ops"] += len(ops)
        stats["collections"] += sum(1 for o in ops if o.startswith("collect")) + sum(1 for o in outs if o.startswith("new") and o.endswith(" 1"))
        stats["intern_hits"] += sum(1 for o in outs if o.startswith("hit"))
        stats["allocs"] += sum(1 for o in outs if o.startswith("new"))
        ctx.count_case(ops, nontrivial=any(o.startswith("collect") for o in ops))
        if k == 0:
            ctx.sample({"ops": ops[:16], "impl": outs[:16]})
        mine = [f for f in fails if f[0] == focus]
        stats["spec_other_property"] += sum(1 for f in fails if f[0] not in (focus, "tie"))
        if mine:
            cat, idx, msg = mine[0]
            ctx.cov["impl_vs_spec_failures"] += 1
            ctx.stream_stat("alloc", **stats)
            ctx.violation("alloc_spec", {"engine": "alloc", "kind": "implementation-vs-spec", "what": msg, "seed": ctx.seed,
                                         "ops": ops[:idx + 2], "impl": outs[:idx + 2],
                                         "replay": "feed `ops` to harness/target/debug/vh_alloc"})
            return False
        mo = replay_model(mops)
        bad = None
        def norm(x):
            t = x.split()
            return " ".join([t[0], t[1], t[3]]) if len(t) == 4 and t[0] == "new" else x
        for i, (a, b) in enumerate(zip(mo, outs)):
            # the release log (`leaks`) is C20's part of the tie: the model's count of dropped blocks, none outstanding
            if norm(a) != norm(b) and not ops[i] == "layout" and not (ops[i] == "leaks" and focus != "C20"):
                bad = i
                break
        if bad is None and len(mo) != len(outs):
            bad = min(len(mo), len(outs))
        if bad is not None and first is None:
            first = (ops, outs, mops, mo, bad, fails)
    ctx.stream_stat("alloc", **stats)
    ctx.cov["traces_validated_against_impl"] += nseq
    if first:
        ops, outs, mops, mo, bad, fails = first
        ctx.cov["model_vs_impl_disagreements"] += 1
        ctx.violation("alloc_tie", {"engine": "alloc", "kind": "model-vs-implementation",
                                    "broken": "correspondence stream alloc (Model/Alloc.lean vs laythe_core::Allocator)",
                                    "at": bad, "op": ops[bad] if bad < len(ops) else None,
                                    "model": mo[max(0, bad - 3):bad + 1], "impl": outs[max(0, bad - 3):bad + 1],
                                    "ops": ops[:bad + 1], "model_ops": mops[:bad + 1],
                                    "spec_failures_seen": [f for f in fails][:5]}, no_input=True)
        return False
    return True
