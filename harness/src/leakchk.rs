//! C20 "garbage is reclaimed": every block the allocator lets go of is handed back to the system.
//!
//! Judged from the checking global allocator's table of live blocks (`chkalloc`), which is independent
//! of the allocator under test: a snapshot of the blocks the allocator owns (address + the serial
//! number the global allocator gave the block) is taken before and after the forced full collection.
//! * a block owned before and no longer owned after was dropped by the collection: the block with
//!   that serial number must not be live any more;
//! * every block still owned after the collection is dropped with the vm: after the vm is gone none
//!   of them may be live.
//! Each block is also put in a class `Kind/size-class` (degenerate capacities are classes of their own)
//! so that the check can report which classes were seen allocated AND released.
use crate::chkalloc;
use laythe_core::{object::ObjectKind, value::Value, ObjectRef};
use laythe_vm::vm::Vm;
use std::collections::BTreeMap;
use std::ptr::NonNull;

pub struct Block {
  pub ptr: usize,
  pub serial: usize,
  pub real: usize,
  pub class: String,
}

pub struct Snap {
  pub blocks: Vec<Block>,
}

fn count_class(n: usize, small: usize) -> &'static str {
  if n == 0 {
    "0"
  } else if n <= small {
    "small"
  } else {
    "big"
  }
}

/// `Kind/class` of an object block (the block is live and owned by the allocator)
fn classify(ptr: usize, real: usize) -> String {
  let obj = ObjectRef::new(unsafe { NonNull::new_unchecked(ptr as *mut u8) });
  let vsz = std::mem::size_of::<Value>();
  match obj.kind() {
    ObjectKind::List => {
      let list = obj.to_list();
      if list.has_moved() {
        // a forwarding stub: its own block keeps the capacity it was obtained with
        format!("ListStub/{}", count_class(real.saturating_sub(24) / vsz, 8))
      } else {
        format!("List/{}", count_class(list.cap(), 8))
      }
    },
    ObjectKind::String => format!("String/{}", count_class(obj.to_str().len(), 16)),
    ObjectKind::Tuple => format!("Tuple/{}", count_class(obj.to_tuple().len(), 4)),
    ObjectKind::Instance => format!("Instance/{}", count_class(obj.to_instance().len(), 4)),
    ObjectKind::Map => {
      let map = obj.to_map();
      format!("Map/{}", if map.capacity() == 0 { "0" } else if map.len() <= 8 { "small" } else { "big" })
    },
    ObjectKind::Channel => "Channel/fixed".to_string(),
    ObjectKind::Class => "Class/fixed".to_string(),
    ObjectKind::Closure => format!("Closure/{}", count_class(obj.to_closure().captures().len(), 2)),
    ObjectKind::Enumerator => "Enumerator/fixed".to_string(),
    ObjectKind::Fun => "Fun/fixed".to_string(),
    ObjectKind::Method => "Method/fixed".to_string(),
    ObjectKind::Native => "Native/fixed".to_string(),
    ObjectKind::LyBox => "LyBox/fixed".to_string(),
  }
}

/// the blocks the allocator owns now
pub fn snapshot(vm: &Vm) -> Snap {
  let stats = vm.verif_alloc_stats();
  let raw = vm.verif_alloc_blocks();
  let mut blocks = Vec::with_capacity(raw.len());
  for (i, (ptr, _accounted)) in raw.iter().enumerate() {
    let serial = chkalloc::serial_of(*ptr).unwrap_or(0);
    let real = chkalloc::size_of(*ptr).unwrap_or(0);
    // `verif_blocks` lists the boxed heap first, then the object heaps
    let class = if i < stats.heap_len { "Boxed/fixed".to_string() } else { classify(*ptr, real) };
    blocks.push(Block { ptr: *ptr, serial, real, class });
  }
  Snap { blocks }
}

#[derive(Default)]
pub struct Classes {
  /// class -> (owned before the forced collection, dropped by it, dropped with the vm, of these still live)
  pub seen: BTreeMap<String, [usize; 4]>,
}

fn still_live(b: &Block) -> bool {
  b.serial != 0 && chkalloc::serial_of(b.ptr) == Some(b.serial)
}

/// blocks owned in `pre` and not in `post`: dropped by the collection in between.
/// Returns (dropped, unreleased, description of the first unreleased one)
pub fn judge_collect(pre: &Snap, post: &Snap, classes: &mut Classes) -> (usize, usize, String) {
  let kept: std::collections::HashSet<usize> = post.blocks.iter().map(|b| b.ptr).collect();
  let mut dropped = 0;
  let mut unreleased = 0;
  let mut first = String::new();
  for b in pre.blocks.iter() {
    let e = classes.seen.entry(b.class.clone()).or_insert([0; 4]);
    e[0] += 1;
    if kept.contains(&b.ptr) {
      continue;
    }
    dropped += 1;
    e[1] += 1;
    if still_live(b) {
      unreleased += 1;
      e[3] += 1;
      if first.is_empty() {
        first = format!("{} block of {} bytes", b.class, b.real);
      }
    }
  }
  (dropped, unreleased, first)
}

/// after the vm is gone: none of the blocks it still owned may be live
pub fn judge_teardown(post: &Snap, classes: &mut Classes) -> (usize, usize, String) {
  let mut unreleased = 0;
  let mut first = String::new();
  for b in post.blocks.iter() {
    let e = classes.seen.entry(b.class.clone()).or_insert([0; 4]);
    e[2] += 1;
    if still_live(b) {
      unreleased += 1;
      e[3] += 1;
      if first.is_empty() {
        first = format!("{} block of {} bytes", b.class, b.real);
      }
    }
  }
  (post.blocks.len(), unreleased, first)
}

pub fn classes_json(classes: &Classes) -> String {
  let items: Vec<String> = classes
    .seen
    .iter()
    .map(|(k, v)| format!("\"{}\":[{},{},{},{}]", k, v[0], v[1], v[2], v[3]))
    .collect();
  format!("{{{}}}", items.join(","))
}
