//! `chanq`: drives laythe_core::object::Channel through its public API.
use laythe_core::{
  hooks::{GcHooks, NoContext},
  object::{Channel, ChannelWaiter, CloseResult, ReceiveResult, SendResult},
  val,
  value::Value,
  Ref,
};
use std::io::{BufRead, Write};

struct St {
  bi: Channel,
  ro: Channel,
  wo: Channel,
  waiters: Vec<(usize, Ref<ChannelWaiter>)>,
}

fn show_w(st: &St, w: Option<Ref<ChannelWaiter>>) -> String {
  match w {
    None => "-".to_string(),
    Some(w) => st
      .waiters
      .iter()
      .find(|(_, r)| *r == w)
      .map(|(i, _)| i.to_string())
      .unwrap_or_else(|| "?".to_string()),
  }
}

pub fn main() -> i32 {
  let context = NoContext::default();
  let hooks = GcHooks::new(&context);
  let mk = |c: Channel| St {
    ro: c.read_only().unwrap(),
    wo: c.write_only().unwrap(),
    bi: c,
    waiters: vec![],
  };
  let mut st = mk(Channel::sync(&hooks));
  let stdin = std::io::stdin();
  let stdout = std::io::stdout();
  let mut out = std::io::BufWriter::new(stdout.lock());
  for line in stdin.lock().lines() {
    let line = line.unwrap();
    let toks: Vec<&str> = line.trim().split(' ').collect();
    let mut waiter = |st: &mut St, id: usize| -> Ref<ChannelWaiter> {
      if let Some((_, r)) = st.waiters.iter().find(|(i, _)| *i == id) {
        return *r;
      }
      let r: Ref<ChannelWaiter> = hooks.manage(ChannelWaiter::new(true));
      st.waiters.push((id, r));
      r
    };
    let res: String = match toks.as_slice() {
      ["new", "sync"] => {
        st = mk(Channel::sync(&hooks));
        "ok".into()
      },
      ["new", "buf", n] => match n.parse::<usize>() {
        Ok(n) if n > 0 => {
          st = mk(Channel::with_capacity(&hooks, n));
          "ok".into()
        },
        _ => "bad-op".into(),
      },
      ["flag", w, b] => match (w.parse::<usize>(), b.parse::<usize>()) {
        (Ok(w), Ok(b)) => {
          let mut r = waiter(&mut st, w);
          r.set_runnable(b != 0);
          "ok".into()
        },
        _ => "bad-op".into(),
      },
      ["send", vw, w, v] => match (w.parse::<usize>(), v.parse::<u64>()) {
        (Ok(w), Ok(v)) => {
          let wr = waiter(&mut st, w);
          let ch = match *vw {
            "bi" => &mut st.bi,
            "ro" => &mut st.ro,
            "wo" => &mut st.wo,
            _ => {
              writeln!(out, "bad-op").unwrap();
              continue;
            },
          };
          let r = ch.send(wr, val!(v as f64));
          match r {
            SendResult::Ok => "ok".into(),
            SendResult::NoSendAccess => "noaccess".into(),
            SendResult::FullBlock(x) => format!("fullblock {}", show_w(&st, x)),
            SendResult::Full(x) => format!("full {}", show_w(&st, x)),
            SendResult::Closed => "closed".into(),
          }
        },
        _ => "bad-op".into(),
      },
      ["recv", vw, w] => match w.parse::<usize>() {
        Ok(w) => {
          let wr = waiter(&mut st, w);
          let ch = match *vw {
            "bi" => &mut st.bi,
            "ro" => &mut st.ro,
            "wo" => &mut st.wo,
            _ => {
              writeln!(out, "bad-op").unwrap();
              continue;
            },
          };
          let r = ch.receive(wr);
          match r {
            ReceiveResult::Ok(v) => {
              let v: Value = v;
              if v.is_num() {
                format!("ok {}", v.to_num() as u64)
              } else {
                "ok ?".into()
              }
            },
            ReceiveResult::NoReceiveAccess => "noaccess".into(),
            ReceiveResult::EmptyBlock(x) => format!("emptyblock {}", show_w(&st, x)),
            ReceiveResult::Empty(x) => format!("empty {}", show_w(&st, x)),
            ReceiveResult::Closed => "closed".into(),
          }
        },
        _ => "bad-op".into(),
      },
      ["close"] => match st.bi.close() {
        CloseResult::Ok => "ok".into(),
        CloseResult::AlreadyClosed => "already".into(),
      },
      ["runnable"] => {
        let r = st.bi.runnable_waiter();
        show_w(&st, r)
      },
      ["len"] => format!("{} {} {}", st.bi.len(), st.bi.capacity(), st.bi.is_closed()),
      _ => "bad-op".into(),
    };
    writeln!(out, "{}", res).unwrap();
  }
  0
}
