//! `run <file>`: run a program in-process with captured stdio; prints a canonical record.
use laythe_env::{
  io::Io,
  stdio::support::{IoStdioTest, StdioTestContainer, TestWriter},
};
use laythe_native::{env::IoEnvNative, fs::IoFsNative, time::IoTimeNative};
use laythe_vm::vm::Vm;
use std::{io::Cursor, path::PathBuf, sync::Arc};

pub struct Outcome {
  pub status: String,
  pub stdout: String,
  pub stderr: String,
}

pub fn run_source(path: PathBuf, src: &str, stdin: &str) -> Outcome {
  let container = Arc::new(StdioTestContainer {
    stdout: TestWriter::default(),
    stderr: TestWriter::default(),
    stdin: Box::new(Cursor::new(Vec::from(stdin.as_bytes()))),
    lines: vec![],
    line_index: Box::new(0),
  });
  let io = Io::default()
    .with_stdio(Arc::new(IoStdioTest::new(&container)))
    .with_time(Arc::new(IoTimeNative::default()))
    .with_fs(Arc::new(IoFsNative()))
    .with_env(Arc::new(IoEnvNative()));
  let src = src.to_string();
  let r = std::panic::catch_unwind(std::panic::AssertUnwindSafe(move || {
    let mut vm = Vm::new(io);
    vm.run(path, &src)
  }));
  let status = match r {
    Ok((code, exit)) => format!("{:?}:{}", exit, code),
    Err(e) => {
      let msg = if let Some(s) = e.downcast_ref::<&str>() {
        s.to_string()
      } else if let Some(s) = e.downcast_ref::<String>() {
        s.clone()
      } else {
        "?".to_string()
      };
      format!("PANIC:{}", msg.replace('\n', " "))
    },
  };
  Outcome {
    status,
    stdout: String::from_utf8_lossy(&container.stdout).to_string(),
    stderr: String::from_utf8_lossy(&container.stderr).to_string(),
  }
}

pub fn print_outcome(o: &Outcome) {
  println!("status={}", o.status);
  println!("stdout={:?}", o.stdout);
  println!("stderr={:?}", o.stderr);
}

pub fn main(args: &[String]) -> i32 {
  std::panic::set_hook(Box::new(|_| {}));
  let path = match args.first() {
    Some(p) => p.clone(),
    None => return 2,
  };
  let src = std::fs::read_to_string(&path).unwrap();
  let o = run_source(PathBuf::from(&path), &src, "");
  print_outcome(&o);
  0
}
