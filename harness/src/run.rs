//! `run [options] <file>` / `runbatch`: run programs in-process with captured stdio under a chosen
//! collection schedule, cache mode, step limit, optionally with the per-instruction probe, and
//! print one JSON record per program.
use laythe_core::allocator_verif::{self, Schedule};
use laythe_env::{
  io::Io,
  stdio::support::{IoStdioTest, StdioTestContainer, TestWriter},
};
use laythe_native::{env::IoEnvNative, fs::IoFsNative, time::IoTimeNative};
use laythe_vm::{
  verif_cache,
  vm::{verif as vm_verif, Vm},
};
use std::{io::Cursor, path::PathBuf, sync::Arc};

#[derive(Clone, Debug, Default)]
pub struct Opts {
  pub gc: String,        // "default" | "never" | "every:K" | "coin:NUM/DEN:SEED"
  pub full: Option<bool>,
  pub caches_off: bool,
  pub probe: bool,
  pub steps: u64,
  pub stats: bool,
  pub repl: bool,
  pub stdin: String,
}

pub struct Outcome {
  pub status: String,
  pub stdout: String,
  pub stderr: String,
  pub extra: Vec<(String, String)>, // already-rendered JSON values
}

pub fn json_str(s: &str) -> String {
  let mut o = String::with_capacity(s.len() + 2);
  o.push('"');
  for c in s.chars() {
    match c {
      '"' => o.push_str("\\\""),
      '\\' => o.push_str("\\\\"),
      '\n' => o.push_str("\\n"),
      '\r' => o.push_str("\\r"),
      '\t' => o.push_str("\\t"),
      c if (c as u32) < 0x20 => o.push_str(&format!("\\u{:04x}", c as u32)),
      c => o.push(c),
    }
  }
  o.push('"');
  o
}

fn parse_schedule(gc: &str) -> (Schedule, u64, bool) {
  // returns (schedule, seed, never)
  let parts: Vec<&str> = gc.split(':').collect();
  match parts.as_slice() {
    ["every", k] => (Schedule::EveryK(k.parse().unwrap_or(1)), 1, false),
    ["coin", frac, seed] => {
      let (n, d) = frac.split_once('/').unwrap_or(("1", "10"));
      (
        Schedule::Coin {
          num: n.parse().unwrap_or(1),
          den: d.parse().unwrap_or(10),
        },
        seed.parse().unwrap_or(1),
        false,
      )
    },
    ["never"] => (Schedule::Default, 1, true),
    _ => (Schedule::Default, 1, false),
  }
}

pub fn run_source(path: PathBuf, src: &str, stdin: &str) -> Outcome {
  run_with(path, src, &Opts { stdin: stdin.to_string(), ..Opts::default() })
}

pub fn run_with(path: PathBuf, src: &str, opts: &Opts) -> Outcome {
  let lines: Vec<String> = if opts.repl {
    opts.stdin.split_inclusive('\n').map(|s| s.to_string()).collect()
  } else {
    vec![]
  };
  let container = Arc::new(StdioTestContainer {
    stdout: TestWriter::default(),
    stderr: TestWriter::default(),
    stdin: Box::new(Cursor::new(Vec::from(opts.stdin.as_bytes()))),
    lines,
    line_index: Box::new(0),
  });
  let io = Io::default()
    .with_stdio(Arc::new(IoStdioTest::new(&container)))
    .with_time(Arc::new(IoTimeNative::default()))
    .with_fs(Arc::new(IoFsNative()))
    .with_env(Arc::new(IoEnvNative()));
  let src = src.to_string();
  let (schedule, seed, never) = parse_schedule(&opts.gc);
  let opts2 = opts.clone();
  let mut extra: Vec<(String, String)> = vec![];
  let r = std::panic::catch_unwind(std::panic::AssertUnwindSafe(|| {
    allocator_verif::set_schedule(Schedule::Default, 1);
    allocator_verif::set_force_full(None);
    verif_cache::set_caches_off(false);
    vm_verif::enable(false);
    vm_verif::set_step_limit(0);
    let _ = vm_verif::take();
    // a panic (step limit, host panic) leaves the vm in an arbitrary state: never run its destructors then
    let mut vm = std::mem::ManuallyDrop::new(Vm::new(io));
    // everything below applies to the program, not to the construction of the standard library
    allocator_verif::set_schedule(schedule, seed);
    allocator_verif::set_force_full(opts2.full);
    verif_cache::set_caches_off(opts2.caches_off);
    vm_verif::enable(opts2.probe);
    vm_verif::set_step_limit(opts2.steps);
    if never {
      vm.verif_set_next_gc(usize::MAX);
    }
    let res = if opts2.repl { vm.repl() } else { vm.run(path, &src) };
    let limit_hit = vm_verif::limit_hit();
    vm_verif::enable(false);
    vm_verif::set_step_limit(0);
    allocator_verif::set_schedule(Schedule::Default, 1);
    let mut ex: Vec<(String, String)> = vec![];
    let mut leak_post: Option<(crate::leakchk::Snap, crate::leakchk::Classes)> = None;
    if opts2.stats {
      let before = vm.verif_alloc_stats();
      // C20 leak oracle (only under the checking global allocator): what the allocator owns before ..
      let leak_pre = if crate::chkalloc::active() { Some(crate::leakchk::snapshot(&vm)) } else { None };
      allocator_verif::set_force_full(Some(true));
      vm.verif_collect();
      let after = vm.verif_alloc_stats();
      // .. and after the forced full collection: every block it dropped must have been handed back
      if let Some(pre) = leak_pre {
        let post = crate::leakchk::snapshot(&vm);
        let mut classes = crate::leakchk::Classes::default();
        let (dropped, unreleased, first) = crate::leakchk::judge_collect(&pre, &post, &mut classes);
        ex.push((
          "released_by_full".to_string(),
          format!("{{\"owned_before\":{},\"dropped\":{},\"unreleased\":{},\"first\":\"{}\"}}", pre.blocks.len(), dropped, unreleased, first),
        ));
        leak_post = Some((post, classes));
      }
      let keys = vm.verif_intern_keys();
      allocator_verif::set_force_full(None);
      let show = |s: &allocator_verif::Stats| {
        format!(
          "{{\"bytes_allocated\":{},\"next_gc\":{},\"gc_count\":{},\"heap_len\":{},\"obj_heap_len\":{},\"nursery_len\":{},\"heap_bytes\":{},\"obj_heap_bytes\":{},\"nursery_bytes\":{},\"intern_len\":{},\"temp_roots\":{},\"string_objects\":{}}}",
          s.bytes_allocated, s.next_gc, s.gc_count, s.heap_len, s.obj_heap_len, s.nursery_len, s.heap_bytes,
          s.obj_heap_bytes, s.nursery_bytes, s.intern_len, s.temp_roots, s.string_objects
        )
      };
      ex.push(("stats_end".to_string(), show(&before)));
      ex.push(("stats_after_full".to_string(), show(&after)));
      ex.push(("intern_after_full".to_string(), keys.len().to_string()));
      if crate::chkalloc::active() {
        // every block the allocator owns: the size it accounts for it vs the size it was obtained with
        let blocks = vm.verif_alloc_blocks();
        let mut wrong = 0usize;
        let mut unknown = 0usize;
        let mut real_total = 0usize;
        let mut first = String::new();
        for (ptr, accounted) in blocks.iter() {
          match crate::chkalloc::size_of(*ptr) {
            Some(real) => {
              real_total += real;
              if real != *accounted {
                wrong += 1;
                if first.is_empty() {
                  first = format!("accounted {} obtained {}", accounted, real);
                }
              }
            },
            None => unknown += 1,
          }
        }
        ex.push((
          "block_sizes".to_string(),
          format!(
            "{{\"blocks\":{},\"wrong\":{},\"unknown\":{},\"real_total\":{},\"first\":\"{}\"}}",
            blocks.len(), wrong, unknown, real_total, first
          ),
        ));
      }
    }
    ex.push(("scheduled_collections".to_string(), allocator_verif::scheduled_collections().to_string()));
    unsafe { std::mem::ManuallyDrop::drop(&mut vm) };
    // C20 leak oracle: the vm is gone, so is every block its allocator still owned
    if let Some((post, mut classes)) = leak_post {
      let (owned, unreleased, first) = crate::leakchk::judge_teardown(&post, &mut classes);
      ex.push((
        "released_by_teardown".to_string(),
        format!("{{\"owned\":{},\"unreleased\":{},\"first\":\"{}\"}}", owned, unreleased, first),
      ));
      ex.push(("block_classes".to_string(), crate::leakchk::classes_json(&classes)));
    }
    // mismatches since the previous record of this process (the vm's destructors included)
    let total = crate::chkalloc::mismatches();
    let before = LAST_MISMATCHES.with(|l| l.replace(total));
    ex.push(("layout_mismatches".to_string(), (total - before).to_string()));
    (res, ex, limit_hit)
  }));
  let limit_hit_any = vm_verif::limit_hit();
  allocator_verif::set_schedule(Schedule::Default, 1);
  allocator_verif::set_force_full(None);
  verif_cache::set_caches_off(false);
  vm_verif::enable(false);
  vm_verif::set_step_limit(0);
  let status = match r {
    Ok(((code, exit), ex, limit_hit)) => {
      extra = ex;
      if limit_hit {
        "STEPLIMIT".to_string()
      } else {
        format!("{:?}:{}", exit, code)
      }
    },
    Err(e) => {
      let msg = if let Some(s) = e.downcast_ref::<&str>() {
        s.to_string()
      } else if let Some(s) = e.downcast_ref::<String>() {
        s.clone()
      } else {
        "?".to_string()
      };
      if msg.contains("verif step limit exceeded") || limit_hit_any {
        // the step limit ended a nested interpreter loop (a native callback) without an error set
        "STEPLIMIT".to_string()
      } else {
        format!("PANIC:{}", msg.replace('\n', " "))
      }
    },
  };
  if opts.probe {
    let mut funs = vec![];
    for f in vm_verif::take() {
      let pts: Vec<String> = f
        .points
        .iter()
        .map(|(o, d, h)| format!("[{},{},{}]", o, d, h))
        .collect();
      funs.push(format!(
        "{{\"name\":{},\"code\":\"{}\",\"arity\":{},\"max_slots\":{},\"min_left\":{},\"points\":[{}]}}",
        json_str(&f.name),
        f.code.iter().map(|b| format!("{:02x}", b)).collect::<String>(),
        f.arity,
        f.max_slots,
        f.min_left,
        pts.join(",")
      ));
    }
    extra.push(("probe".to_string(), format!("[{}]", funs.join(","))));
  }
  Outcome {
    status,
    stdout: String::from_utf8_lossy(&container.stdout).to_string(),
    stderr: String::from_utf8_lossy(&container.stderr).to_string(),
    extra,
  }
}

pub fn outcome_json(file: &str, o: &Outcome) -> String {
  let mut s = format!(
    "{{\"file\":{},\"status\":{},\"stdout\":{},\"stderr\":{}",
    json_str(file),
    json_str(&o.status),
    json_str(&o.stdout),
    json_str(&o.stderr)
  );
  for (k, v) in &o.extra {
    s.push_str(&format!(",{}:{}", json_str(k), v));
  }
  s.push('}');
  s
}

thread_local! {
  static LAST_MISMATCHES: std::cell::Cell<usize> = const { std::cell::Cell::new(0) };
}

/// options: --gc X --full 0|1 --caches-off --probe --steps N --stats --repl --stdin-file F
pub fn parse_opts(args: &[String]) -> (Opts, Vec<String>) {
  let mut o = Opts { gc: "default".to_string(), ..Opts::default() };
  let mut files = vec![];
  let mut i = 0;
  while i < args.len() {
    match args[i].as_str() {
      "--gc" => {
        i += 1;
        o.gc = args.get(i).cloned().unwrap_or_default();
      },
      "--full" => {
        i += 1;
        o.full = args.get(i).map(|v| v == "1");
      },
      "--caches-off" => o.caches_off = true,
      "--probe" => o.probe = true,
      "--stats" => o.stats = true,
      "--repl" => o.repl = true,
      "--steps" => {
        i += 1;
        o.steps = args.get(i).and_then(|v| v.parse().ok()).unwrap_or(0);
      },
      "--stdin-file" => {
        i += 1;
        o.stdin = args.get(i).and_then(|f| std::fs::read_to_string(f).ok()).unwrap_or_default();
      },
      f => files.push(f.to_string()),
    }
    i += 1;
  }
  (o, files)
}

fn run_one(opts: &Opts, file: &str) -> String {
  if opts.repl {
    let o = run_with(PathBuf::from("repl"), "", opts);
    return outcome_json(file, &o);
  }
  match std::fs::read_to_string(file) {
    Ok(src) => {
      let o = run_with(PathBuf::from(file), &src, opts);
      outcome_json(file, &o)
    },
    Err(e) => format!("{{\"file\":{},\"status\":\"UNREADABLE\",\"stdout\":\"\",\"stderr\":{}}}", json_str(file), json_str(&e.to_string())),
  }
}

pub fn main(args: &[String]) -> i32 {
  std::panic::set_hook(Box::new(|_| {}));
  let (opts, files) = parse_opts(args);
  for f in files {
    println!("{}", run_one(&opts, &f));
  }
  0
}

/// one request per stdin line: the same words as the command line of `run`
pub fn main_batch() -> i32 {
  use std::io::{BufRead, Write};
  std::panic::set_hook(Box::new(|_| {}));
  let stdout = std::io::stdout();
  for line in std::io::stdin().lock().lines() {
    let line = line.unwrap();
    let words: Vec<String> = line.split_whitespace().map(|s| s.to_string()).collect();
    let (opts, files) = parse_opts(&words);
    for f in files {
      let mut out = stdout.lock();
      writeln!(out, "{}", run_one(&opts, &f)).unwrap();
      out.flush().unwrap();
    }
  }
  0
}
