//! Shared helpers of the verification harness.  Engines are separate binaries under `src/bin/`
//! (one per engine or engine group, so that they build independently with `cargo build --bin`).
pub mod chanq;
pub mod chkalloc;
pub mod leakchk;
pub mod dump;
pub mod peephole;
pub mod run;
