//! `dump <file>...`: compile only (nothing is executed) and print the per-function compile log
//! recorded by the hook in `peephole_compile`.
use crate::run::run_source;
use laythe_vm::compiler::verif_peephole;
use std::path::PathBuf;

pub fn dump_file(path: &str) {
  let src = match std::fs::read_to_string(path) {
    Ok(s) => s,
    Err(e) => {
      println!("FILE {} unreadable {}", path, e);
      return;
    },
  };
  verif_peephole::set_compile_only(true);
  let _ = verif_peephole::take_log();
  let o = run_source(PathBuf::from(path), &src, "");
  verif_peephole::set_compile_only(false);
  println!("FILE {} status={}", path, o.status);
  for l in verif_peephole::take_log() {
    println!("{}", l);
  }
  println!("END");
}

pub fn main(args: &[String]) -> i32 {
  std::panic::set_hook(Box::new(|_| {}));
  if args.first().map(|s| s.as_str()) == Some("-") {
    // file names on stdin
    use std::io::BufRead;
    for line in std::io::stdin().lock().lines() {
      dump_file(line.unwrap().trim());
    }
  } else {
    for a in args {
      dump_file(a);
    }
  }
  0
}
