//! A checking global allocator: remembers (size, align) of every live block in a fixed open-addressing
//! table and counts `dealloc`/`realloc` calls whose layout differs from the one the block was obtained
//! with (the contract of `GlobalAlloc`).  Single-threaded use only (the harness is).
//!
//! Leak oracle (C20, "garbage is reclaimed"): every block also gets a serial number, and the table
//! keeps the number and the byte total of the live blocks.  `live()` is the system allocator's view of
//! what has not been handed back; `serial_of(p)` tells whether the block that was at `p` at some
//! earlier moment is still the one that is there now (an address can be re-used by a later block).
use std::alloc::{GlobalAlloc, Layout, System};
use std::sync::atomic::{AtomicUsize, Ordering};

const CAP: usize = 1 << 22;

struct Slot {
  ptr: usize,
  size: usize,
  align: usize,
  serial: usize,
}

static mut TABLE: [Slot; CAP] = unsafe { std::mem::zeroed() };
pub static MISMATCHES: AtomicUsize = AtomicUsize::new(0);
pub static LIVE_BLOCKS: AtomicUsize = AtomicUsize::new(0);
pub static LIVE_BYTES: AtomicUsize = AtomicUsize::new(0);
pub static SERIAL: AtomicUsize = AtomicUsize::new(0);
pub static LAST_MISMATCH: [AtomicUsize; 4] = [AtomicUsize::new(0), AtomicUsize::new(0), AtomicUsize::new(0), AtomicUsize::new(0)];
const TOMB: usize = 1;

#[inline]
fn hash(p: usize) -> usize {
  (p >> 4).wrapping_mul(0x9E37_79B9_7F4A_7C15) >> (64 - 22)
}

unsafe fn insert(p: usize, size: usize, align: usize) {
  let mut i = hash(p);
  loop {
    let s = &mut *std::ptr::addr_of_mut!(TABLE[i]);
    if s.ptr == 0 || s.ptr == TOMB {
      s.ptr = p;
      s.size = size;
      s.align = align;
      s.serial = SERIAL.fetch_add(1, Ordering::Relaxed) + 1;
      LIVE_BLOCKS.fetch_add(1, Ordering::Relaxed);
      LIVE_BYTES.fetch_add(size, Ordering::Relaxed);
      return;
    }
    i = (i + 1) & (CAP - 1);
  }
}

unsafe fn remove(p: usize) -> Option<(usize, usize)> {
  let mut i = hash(p);
  let mut n = 0;
  loop {
    let s = &mut *std::ptr::addr_of_mut!(TABLE[i]);
    if s.ptr == p {
      s.ptr = TOMB;
      LIVE_BLOCKS.fetch_sub(1, Ordering::Relaxed);
      LIVE_BYTES.fetch_sub(s.size, Ordering::Relaxed);
      return Some((s.size, s.align));
    }
    if s.ptr == 0 || n > CAP {
      return None;
    }
    i = (i + 1) & (CAP - 1);
    n += 1;
  }
}

pub struct CheckingAlloc;

unsafe impl GlobalAlloc for CheckingAlloc {
  unsafe fn alloc(&self, layout: Layout) -> *mut u8 {
    let p = System.alloc(layout);
    if !p.is_null() {
      insert(p as usize, layout.size(), layout.align());
    }
    p
  }

  unsafe fn dealloc(&self, ptr: *mut u8, layout: Layout) {
    if let Some((size, align)) = remove(ptr as usize) {
      if size != layout.size() || align != layout.align() {
        MISMATCHES.fetch_add(1, Ordering::Relaxed);
        LAST_MISMATCH[0].store(size, Ordering::Relaxed);
        LAST_MISMATCH[1].store(align, Ordering::Relaxed);
        LAST_MISMATCH[2].store(layout.size(), Ordering::Relaxed);
        LAST_MISMATCH[3].store(layout.align(), Ordering::Relaxed);
      }
      // release with the layout the block was really obtained with
      System.dealloc(ptr, Layout::from_size_align_unchecked(size, align));
    } else {
      System.dealloc(ptr, layout);
    }
  }

  unsafe fn realloc(&self, ptr: *mut u8, layout: Layout, new_size: usize) -> *mut u8 {
    let known = remove(ptr as usize);
    let real = match known {
      Some((size, align)) => {
        if size != layout.size() || align != layout.align() {
          MISMATCHES.fetch_add(1, Ordering::Relaxed);
        }
        Layout::from_size_align_unchecked(size, align)
      },
      None => layout,
    };
    let p = System.realloc(ptr, real, new_size);
    if !p.is_null() {
      insert(p as usize, new_size, real.align());
    } else if let Some((size, align)) = known {
      insert(ptr as usize, size, align);
    }
    p
  }
}

/// size the live block at `p` was really obtained with (None: not a block of this allocator)
pub fn size_of(p: usize) -> Option<usize> {
  let mut i = hash(p);
  let mut n = 0;
  loop {
    let s = unsafe { &*std::ptr::addr_of!(TABLE[i]) };
    if s.ptr == p {
      return Some(s.size);
    }
    if s.ptr == 0 || n > CAP {
      return None;
    }
    i = (i + 1) & (CAP - 1);
    n += 1;
  }
}

/// serial number of the live block at `p` (None: no live block of this allocator starts there)
pub fn serial_of(p: usize) -> Option<usize> {
  let mut i = hash(p);
  let mut n = 0;
  loop {
    let s = unsafe { &*std::ptr::addr_of!(TABLE[i]) };
    if s.ptr == p {
      return Some(s.serial);
    }
    if s.ptr == 0 || n > CAP {
      return None;
    }
    i = (i + 1) & (CAP - 1);
    n += 1;
  }
}

/// (blocks, bytes) obtained from the system allocator and not handed back so far
pub fn live() -> (usize, usize) {
  (LIVE_BLOCKS.load(Ordering::Relaxed), LIVE_BYTES.load(Ordering::Relaxed))
}

/// serial number the next block will get (blocks with a serial >= this one are younger than now)
pub fn next_serial() -> usize {
  SERIAL.load(Ordering::Relaxed) + 1
}

/// the live blocks with a serial number >= `since`: (address, size, serial); a table scan, for reports only
pub fn live_since(since: usize, limit: usize) -> Vec<(usize, usize, usize)> {
  let floor = next_serial(); // the result vector itself is younger than this
  let mut found: Vec<(usize, usize, usize)> = Vec::with_capacity(limit + 1);
  for i in 0..CAP {
    let s = unsafe { &*std::ptr::addr_of!(TABLE[i]) };
    if s.ptr > TOMB && s.serial >= since && s.serial < floor {
      found.push((s.ptr, s.size, s.serial));
      if found.len() >= limit {
        break;
      }
    }
  }
  found
}

/// is the checking allocator installed in this process (does it know any block)?
pub fn active() -> bool {
  LIVE_BLOCKS.load(Ordering::Relaxed) > 0
}

pub fn mismatches() -> usize {
  MISMATCHES.load(Ordering::Relaxed)
}

pub fn last_mismatch() -> String {
  format!(
    "allocated size={} align={} released size={} align={}",
    LAST_MISMATCH[0].load(Ordering::Relaxed),
    LAST_MISMATCH[1].load(Ordering::Relaxed),
    LAST_MISMATCH[2].load(Ordering::Relaxed),
    LAST_MISMATCH[3].load(Ordering::Relaxed)
  )
}
